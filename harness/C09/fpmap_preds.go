//verif:overlay internal/zzverif_h/c09/fpmap_preds.go
package c09

import (
	"github.com/csgura/fp"
	"github.com/csgura/fp/eq"
	"github.com/csgura/fp/hash"
	"github.com/csgura/fp/immutable"
	zz "github.com/csgura/fp/internal/zzverif"
)

// eq.FpMap over the real immutable map (keys and values symbolic, <= 2 entries per side)

type kvs struct {
	ks, vs []int
}

func mkFpMap(name string, n int) (fp.Map[int, int], kvs) {
	m := immutable.Map[int, int](hash.Number[int]())
	var l kvs
	switch zz.Choice(name+".repr", 3) {
	case 1:
		// the zero-value Map: an empty map without a base
		return fp.Map[int, int]{}, l
	case 2:
		// an empty map that has been non-empty
		return m.Updated(1, 1).Removed(1), l
	}
	k := zz.Choice(name+".n", n+1)
	for i := 0; i < k; i++ {
		key, v := zz.Int(name+".k"+string(rune('0'+i))), zz.Int(name+".v"+string(rune('0'+i)))
		for _, o := range l.ks {
			zz.Assume(o != key)
		}
		m = m.Updated(key, v)
		l.ks, l.vs = append(l.ks, key), append(l.vs, v)
	}
	return m, l
}

func (a kvs) sub(b kvs) bool {
	for i, k := range a.ks {
		found := false
		for j, o := range b.ks {
			if o == k && b.vs[j] == a.vs[i] {
				found = true
			}
		}
		if !found {
			return false
		}
	}
	return true
}

func VH_c09_fpmap() {
	n := zz.Bound("fpmaplen", 2, 2)
	a, la := mkFpMap("a", n)
	b, lb := mkFpMap("b", n)
	e := eq.FpMap[int](eq.Given[int]())
	want := len(la.ks) == len(lb.ks) && la.sub(lb) && lb.sub(la)
	zz.Assert(e.Eqv(a, b) == want, "FpMap: same keys with equal values")
	zz.Assert(e.Eqv(a, a), "FpMap reflexive")
	zz.Assert(e.Eqv(a, b) == e.Eqv(b, a), "FpMap symmetric")
}

// predicate combinators of the eq package: the documented truth tables
func VH_c09_predicate_combinators() {
	pf := func(x int) bool { return zz.UFBool("p", x) }
	v := zz.Int("v")
	var p *int
	if zz.Bool("nonnil") {
		p = &v
	}
	zz.Assert(eq.NotNilAnd(pf)(p) == (p != nil && pf(v)), "NotNilAnd")
	zz.Assert(eq.NilOr(pf)(p) == (p == nil || pf(v)), "NilOr")
	zz.Assert(eq.NotZero(v) == (v != 0), "NotZero")
	zz.Assert(eq.NotZeroAnd(pf)(v) == (v != 0 && pf(v)), "NotZeroAnd")
	zz.Assert(eq.ZeroOr(pf)(v) == (v == 0 || pf(v)), "ZeroOr")
	o := fp.None[int]()
	some := zz.Bool("some")
	if some {
		o = fp.Some(v)
	}
	zz.Assert(eq.SomeAnd(pf)(o) == (some && pf(v)), "SomeAnd")
	zz.Assert(eq.NoneOr(pf)(o) == (!some || pf(v)), "NoneOr")
	type rec struct {
		p *int
		o fp.Option[int]
	}
	r := rec{p, o}
	gp := func(r rec) *int { return r.p }
	gopt := func(r rec) fp.Option[int] { return r.o }
	zz.Assert(eq.FieldNotNilAnd(gp, pf)(r) == (p != nil && pf(v)), "FieldNotNilAnd")
	zz.Assert(eq.FieldNilOr(gp, pf)(r) == (p == nil || pf(v)), "FieldNilOr")
	zz.Assert(eq.FieldSomeAnd(gopt, pf)(r) == (some && pf(v)), "FieldSomeAnd")
	zz.Assert(eq.FieldNoneOr(gopt, pf)(r) == (!some || pf(v)), "FieldNoneOr")
	w := zz.Int("w")
	var q *int
	if zz.Bool("q.nonnil") {
		q = &w
	}
	zz.Assert(eq.GivenFieldPtr(gp, q)(r) == ((p == nil && q == nil) || (p != nil && q != nil && v == w)), "GivenFieldPtr: both nil or equal targets")
}

// slices that are views of ONE backing array (same start, different lengths; overlapping windows): equality is by
// content and length, never by identity of the storage
func VH_c09_seq_slice_aliased() {
	base := zz.SliceInt("base", 3, 0, 0)
	n := len(base)
	i, j := zz.Choice("i", n+1), zz.Choice("j", n+1)
	oa, ob := 0, 0
	if zz.Bool("offset") && n > 0 {
		ob = 1
		if j < ob {
			j = ob
		}
	}
	a, b := base[oa:i], base[ob:j]
	want := sliceEq(a, b)
	g := eq.Given[int]()
	zz.Assert(eq.Seq(g).Eqv(fp.Seq[int](a), fp.Seq[int](b)) == want, "eq.Seq on views of one array")
	zz.Assert(eq.Slice(g).Eqv(a, b) == want, "eq.Slice on views of one array")
	hn := hash.Number[int]()
	zz.Assert(hash.Seq(hn).Eqv(fp.Seq[int](a), fp.Seq[int](b)) == want, "hash.Seq.Eqv on views of one array")
	zz.Assert(hash.Slice(hn).Eqv(a, b) == want, "hash.Slice.Eqv on views of one array")
	hashLaws(hash.Seq(hn), fp.Seq[int](a), fp.Seq[int](b), "hash.Seq on views of one array")
	hashLaws(hash.Slice(hn), a, b, "hash.Slice on views of one array")
}
