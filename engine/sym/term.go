// Package sym: SMT terms with hash-consing, constant folding and SMT-LIB2 printing.
package sym

import (
	"fmt"
	"strconv"
	"strings"
)

// Term is a hash-consed SMT term. W==0 means Bool, otherwise (_ BitVec W), W<=64.
type Term struct {
	Op   string // "c" const, "v" variable, "uf" UF application, or an SMT operator
	Args []*Term
	W    int
	C    uint64 // value for "c"
	Name string // for "v"/"uf"
	P1   int    // extract hi / extension amount
	P2   int    // extract lo
	ID   int
	KZ   uint64 // bits known to be zero
	KO   uint64 // bits known to be one
}

// Store owns the hash-consing table for one path.
type Store struct {
	tab   map[string]*Term
	next  int
	Vars  []*Term          // declared variables in creation order
	UFs   map[string][]int // uf name -> arg widths + result width (last)
	UFOrd []string
}

func NewStore() *Store {
	return &Store{tab: map[string]*Term{}, UFs: map[string][]int{}}
}

func mask(w int) uint64 {
	if w >= 64 {
		return ^uint64(0)
	}
	return (uint64(1) << uint(w)) - 1
}

func (s *Store) mk(t *Term) *Term {
	var sb strings.Builder
	sb.WriteString(t.Op)
	sb.WriteByte('|')
	sb.WriteString(strconv.Itoa(t.W))
	sb.WriteByte('|')
	if t.Op == "c" {
		sb.WriteString(strconv.FormatUint(t.C, 16))
	}
	sb.WriteString(t.Name)
	sb.WriteByte('|')
	if t.P1 != 0 || t.P2 != 0 {
		sb.WriteString(strconv.Itoa(t.P1))
		sb.WriteByte(',')
		sb.WriteString(strconv.Itoa(t.P2))
	}
	for _, a := range t.Args {
		sb.WriteByte(' ')
		sb.WriteString(strconv.Itoa(a.ID))
	}
	k := sb.String()
	if e, ok := s.tab[k]; ok {
		return e
	}
	if t.W > 0 && t.Op != "c" {
		known(t)
		if t.KZ|t.KO == mask(t.W) {
			// every bit is determined: fold to a constant
			c := s.Const(t.W, t.KO)
			s.tab[k] = c
			return c
		}
	} else if t.Op == "c" && t.W > 0 {
		t.KO = t.C
		t.KZ = ^t.C & mask(t.W)
	}
	s.next++
	t.ID = s.next
	s.tab[k] = t
	return t
}

// known computes the known-zero/known-one bit masks of a bit-vector term from those of its arguments.
func known(t *Term) {
	m := mask(t.W)
	a := t.Args
	switch t.Op {
	case "bvand":
		t.KZ = (a[0].KZ | a[1].KZ) & m
		t.KO = a[0].KO & a[1].KO
	case "bvor":
		t.KO = (a[0].KO | a[1].KO) & m
		t.KZ = a[0].KZ & a[1].KZ
	case "bvxor":
		kn := (a[0].KZ | a[0].KO) & (a[1].KZ | a[1].KO)
		v := (a[0].KO ^ a[1].KO) & kn
		t.KO = v
		t.KZ = kn &^ v
	case "bvnot":
		t.KO = a[0].KZ
		t.KZ = a[0].KO
	case "bvshl":
		if a[1].IsConst() && a[1].C < uint64(t.W) {
			sh := a[1].C
			t.KO = (a[0].KO << sh) & m
			t.KZ = ((a[0].KZ << sh) | ((uint64(1) << sh) - 1)) & m
		}
	case "bvlshr":
		if a[1].IsConst() && a[1].C < uint64(t.W) {
			sh := a[1].C
			t.KO = a[0].KO >> sh
			t.KZ = ((a[0].KZ >> sh) | (m &^ (m >> sh))) & m
		}
	case "zext":
		t.KO = a[0].KO
		t.KZ = (a[0].KZ | (m &^ mask(a[0].W))) & m
	case "sext":
		t.KO = a[0].KO
		t.KZ = a[0].KZ
		top := uint64(1) << uint(a[0].W-1)
		if a[0].KZ&top != 0 {
			t.KZ |= m &^ mask(a[0].W)
		} else if a[0].KO&top != 0 {
			t.KO |= m &^ mask(a[0].W)
		}
	case "extract":
		t.KO = (a[0].KO >> uint(t.P2)) & m
		t.KZ = (a[0].KZ >> uint(t.P2)) & m
	case "ite":
		t.KO = a[1].KO & a[2].KO
		t.KZ = a[1].KZ & a[2].KZ
	case "bvadd":
		// low bits: if the low k bits of both operands are known, the low k bits of the sum are known
		kn := (a[0].KZ | a[0].KO) & (a[1].KZ | a[1].KO)
		k := 0
		for k < t.W && kn&(uint64(1)<<uint(k)) != 0 {
			k++
		}
		if k > 0 {
			lm := mask(k)
			v := (a[0].KO + a[1].KO) & lm
			t.KO = v
			t.KZ = lm &^ v
		}
	}
}

func (s *Store) Const(w int, c uint64) *Term {
	return s.mk(&Term{Op: "c", W: w, C: c & mask(w)})
}
func (s *Store) Bool(b bool) *Term {
	if b {
		return s.mk(&Term{Op: "c", W: 0, C: 1})
	}
	return s.mk(&Term{Op: "c", W: 0, C: 0})
}
func (s *Store) True() *Term  { return s.Bool(true) }
func (s *Store) False() *Term { return s.Bool(false) }

// Var creates (or returns) a named variable.
func (s *Store) Var(name string, w int) *Term {
	n := len(s.tab)
	t := s.mk(&Term{Op: "v", W: w, Name: name})
	if len(s.tab) != n {
		s.Vars = append(s.Vars, t)
	}
	return t
}

// UF creates an application of an uninterpreted function.
func (s *Store) UF(name string, w int, args ...*Term) *Term {
	sig := make([]int, 0, len(args)+1)
	for _, a := range args {
		sig = append(sig, a.W)
	}
	sig = append(sig, w)
	if old, ok := s.UFs[name]; ok {
		if fmt.Sprint(old) != fmt.Sprint(sig) {
			panic(fmt.Sprintf("UF %s used with two signatures %v %v", name, old, sig))
		}
	} else {
		s.UFs[name] = sig
		s.UFOrd = append(s.UFOrd, name)
	}
	return s.mk(&Term{Op: "uf", W: w, Name: name, Args: args})
}

func (t *Term) IsConst() bool { return t.Op == "c" }
func (t *Term) IsTrue() bool  { return t.Op == "c" && t.W == 0 && t.C == 1 }
func (t *Term) IsFalse() bool { return t.Op == "c" && t.W == 0 && t.C == 0 }

// Signed value of a constant.
func (t *Term) SVal() int64 {
	if t.W >= 64 {
		return int64(t.C)
	}
	sh := uint(64 - t.W)
	return int64(t.C<<sh) >> sh
}

func sx(c uint64, w int) int64 {
	if w >= 64 {
		return int64(c)
	}
	sh := uint(64 - w)
	return int64(c<<sh) >> sh
}

// ---- boolean ops

func (s *Store) Not(a *Term) *Term {
	if a.IsConst() {
		return s.Bool(a.C == 0)
	}
	if a.Op == "not" {
		return a.Args[0]
	}
	return s.mk(&Term{Op: "not", Args: []*Term{a}})
}

func (s *Store) And(a, b *Term) *Term {
	if a.IsConst() {
		if a.C == 0 {
			return a
		}
		return b
	}
	if b.IsConst() {
		if b.C == 0 {
			return b
		}
		return a
	}
	if a == b {
		return a
	}
	return s.mk(&Term{Op: "and", Args: []*Term{a, b}})
}

func (s *Store) Or(a, b *Term) *Term {
	if a.IsConst() {
		if a.C == 1 {
			return a
		}
		return b
	}
	if b.IsConst() {
		if b.C == 1 {
			return b
		}
		return a
	}
	if a == b {
		return a
	}
	return s.mk(&Term{Op: "or", Args: []*Term{a, b}})
}

func (s *Store) Ite(c, a, b *Term) *Term {
	if c.IsConst() {
		if c.C == 1 {
			return a
		}
		return b
	}
	if a == b {
		return a
	}
	if a.W == 0 && a.IsConst() && b.IsConst() {
		if a.C == 1 && b.C == 0 {
			return c
		}
		if a.C == 0 && b.C == 1 {
			return s.Not(c)
		}
	}
	return s.mk(&Term{Op: "ite", W: a.W, Args: []*Term{c, a, b}})
}

func (s *Store) Eq(a, b *Term) *Term {
	if a.W != b.W {
		panic(fmt.Sprintf("Eq width mismatch %d %d", a.W, b.W))
	}
	if a == b {
		return s.True()
	}
	if a.IsConst() && b.IsConst() {
		return s.Bool(a.C == b.C)
	}
	if a.W > 0 && (a.KO&b.KZ)|(a.KZ&b.KO) != 0 {
		return s.False() // some bit is known to differ
	}
	if a.W == 0 {
		if a.IsConst() {
			if a.C == 1 {
				return b
			}
			return s.Not(b)
		}
		if b.IsConst() {
			if b.C == 1 {
				return a
			}
			return s.Not(a)
		}
	}
	if a.ID > b.ID {
		a, b = b, a
	}
	return s.mk(&Term{Op: "=", Args: []*Term{a, b}})
}

// ---- bit-vector ops

// Bin builds a binary bit-vector op (result width = operand width).
func (s *Store) Bin(op string, a, b *Term) *Term {
	if a.W != b.W || a.W == 0 {
		panic(fmt.Sprintf("Bin %s width mismatch %d %d", op, a.W, b.W))
	}
	w := a.W
	if a.IsConst() && b.IsConst() {
		x, y := a.C, b.C
		var r uint64
		ok := true
		switch op {
		case "bvadd":
			r = x + y
		case "bvsub":
			r = x - y
		case "bvmul":
			r = x * y
		case "bvand":
			r = x & y
		case "bvor":
			r = x | y
		case "bvxor":
			r = x ^ y
		case "bvshl":
			if y >= uint64(w) {
				r = 0
			} else {
				r = x << y
			}
		case "bvlshr":
			if y >= uint64(w) {
				r = 0
			} else {
				r = x >> y
			}
		case "bvashr":
			sv := sx(x, w)
			if y >= uint64(w) {
				if sv < 0 {
					r = ^uint64(0)
				} else {
					r = 0
				}
			} else {
				r = uint64(sv >> y)
			}
		case "bvudiv":
			if y == 0 {
				r = mask(w)
			} else {
				r = x / y
			}
		case "bvurem":
			if y == 0 {
				r = x
			} else {
				r = x % y
			}
		case "bvsdiv":
			if y == 0 {
				ok = false
			} else {
				sa, sb := sx(x, w), sx(y, w)
				if sb == -1 {
					r = uint64(-sa)
				} else {
					r = uint64(sa / sb)
				}
			}
		case "bvsrem":
			if y == 0 {
				ok = false
			} else {
				sa, sb := sx(x, w), sx(y, w)
				if sb == -1 {
					r = 0
				} else {
					r = uint64(sa % sb)
				}
			}
		default:
			ok = false
		}
		if ok {
			return s.Const(w, r)
		}
	}
	// light identities
	switch op {
	case "bvadd":
		if a.IsConst() && a.C == 0 {
			return b
		}
		if b.IsConst() && b.C == 0 {
			return a
		}
	case "bvsub":
		if b.IsConst() && b.C == 0 {
			return a
		}
		if a == b {
			return s.Const(w, 0)
		}
	case "bvmul":
		if a.IsConst() && a.C == 1 {
			return b
		}
		if b.IsConst() && b.C == 1 {
			return a
		}
		if (a.IsConst() && a.C == 0) || (b.IsConst() && b.C == 0) {
			return s.Const(w, 0)
		}
	case "bvand":
		if a == b {
			return a
		}
		if (a.IsConst() && a.C == 0) || (b.IsConst() && b.C == 0) {
			return s.Const(w, 0)
		}
		if a.IsConst() && a.C == mask(w) {
			return b
		}
		if b.IsConst() && b.C == mask(w) {
			return a
		}
	case "bvor":
		if a == b {
			return a
		}
		if a.IsConst() && a.C == 0 {
			return b
		}
		if b.IsConst() && b.C == 0 {
			return a
		}
	case "bvxor":
		if a == b {
			return s.Const(w, 0)
		}
		if a.IsConst() && a.C == 0 {
			return b
		}
		if b.IsConst() && b.C == 0 {
			return a
		}
	case "bvshl", "bvlshr", "bvashr":
		if b.IsConst() && b.C == 0 {
			return a
		}
	}
	return s.mk(&Term{Op: op, W: w, Args: []*Term{a, b}})
}

// Cmp builds a comparison: bvult bvule bvslt bvsle (and their flips via args).
func (s *Store) Cmp(op string, a, b *Term) *Term {
	if a.W != b.W || a.W == 0 {
		panic(fmt.Sprintf("Cmp %s width mismatch %d %d", op, a.W, b.W))
	}
	if a.IsConst() && b.IsConst() {
		switch op {
		case "bvult":
			return s.Bool(a.C < b.C)
		case "bvule":
			return s.Bool(a.C <= b.C)
		case "bvslt":
			return s.Bool(a.SVal() < b.SVal())
		case "bvsle":
			return s.Bool(a.SVal() <= b.SVal())
		}
	}
	if a == b {
		switch op {
		case "bvult", "bvslt":
			return s.False()
		case "bvule", "bvsle":
			return s.True()
		}
	}
	return s.mk(&Term{Op: op, Args: []*Term{a, b}})
}

func (s *Store) BvNot(a *Term) *Term {
	if a.IsConst() {
		return s.Const(a.W, ^a.C)
	}
	return s.mk(&Term{Op: "bvnot", W: a.W, Args: []*Term{a}})
}

func (s *Store) BvNeg(a *Term) *Term {
	if a.IsConst() {
		return s.Const(a.W, -a.C)
	}
	return s.mk(&Term{Op: "bvneg", W: a.W, Args: []*Term{a}})
}

// Resize converts a to width w (truncate, or sign/zero extend).
func (s *Store) Resize(a *Term, w int, signed bool) *Term {
	if a.W == w {
		return a
	}
	if a.W == 0 {
		panic("Resize of Bool")
	}
	if w < a.W {
		if a.IsConst() {
			return s.Const(w, a.C)
		}
		return s.mk(&Term{Op: "extract", W: w, P1: w - 1, P2: 0, Args: []*Term{a}})
	}
	if a.IsConst() {
		if signed {
			return s.Const(w, uint64(a.SVal()))
		}
		return s.Const(w, a.C)
	}
	op := "zext"
	if signed {
		op = "sext"
	}
	return s.mk(&Term{Op: op, W: w, P1: w - a.W, Args: []*Term{a}})
}

// PopCount builds a popcount expression of width a.W.
func (s *Store) PopCount(a *Term) *Term {
	if a.IsConst() {
		n := 0
		for x := a.C; x != 0; x &= x - 1 {
			n++
		}
		return s.Const(a.W, uint64(n))
	}
	// SWAR popcount (valid for widths 8,16,32,64)
	w := a.W
	rep := func(b uint64) *Term {
		var c uint64
		for i := 0; i < w; i += 8 {
			c |= b << uint(i)
		}
		return s.Const(w, c)
	}
	x := a
	x = s.Bin("bvsub", x, s.Bin("bvand", s.Bin("bvlshr", x, s.Const(w, 1)), rep(0x55)))
	x = s.Bin("bvadd", s.Bin("bvand", x, rep(0x33)), s.Bin("bvand", s.Bin("bvlshr", x, s.Const(w, 2)), rep(0x33)))
	x = s.Bin("bvand", s.Bin("bvadd", x, s.Bin("bvlshr", x, s.Const(w, 4))), rep(0x0f))
	// sum bytes
	sum := s.Bin("bvand", x, s.Const(w, 0xff))
	for i := 8; i < w; i += 8 {
		sum = s.Bin("bvadd", sum, s.Bin("bvand", s.Bin("bvlshr", x, s.Const(w, uint64(i))), s.Const(w, 0xff)))
	}
	return sum
}

func sortStr(w int) string {
	if w == 0 {
		return "Bool"
	}
	return fmt.Sprintf("(_ BitVec %d)", w)
}

func constStr(t *Term) string {
	if t.W == 0 {
		if t.C == 1 {
			return "true"
		}
		return "false"
	}
	if t.W%4 == 0 {
		return fmt.Sprintf("#x%0*x", t.W/4, t.C)
	}
	return fmt.Sprintf("#b%0*b", t.W, t.C)
}

// SafeName makes an SMT symbol.
func SafeName(n string) string {
	return "|" + strings.NewReplacer("|", "_", "\\", "_").Replace(n) + "|"
}

// Ref returns the token used to refer to t inside other terms.
func Ref(t *Term) string {
	switch t.Op {
	case "c":
		return constStr(t)
	case "v":
		return SafeName(t.Name)
	}
	return "t" + strconv.Itoa(t.ID)
}

// Body renders the defining expression of a non-leaf term.
func Body(t *Term) string {
	var sb strings.Builder
	switch t.Op {
	case "uf":
		if len(t.Args) == 0 {
			return SafeName("uf_" + t.Name)
		}
		sb.WriteString("(" + SafeName("uf_"+t.Name))
	case "extract":
		sb.WriteString(fmt.Sprintf("((_ extract %d %d)", t.P1, t.P2))
	case "zext":
		sb.WriteString(fmt.Sprintf("((_ zero_extend %d)", t.P1))
	case "sext":
		sb.WriteString(fmt.Sprintf("((_ sign_extend %d)", t.P1))
	default:
		sb.WriteString("(" + t.Op)
	}
	for _, a := range t.Args {
		sb.WriteByte(' ')
		sb.WriteString(Ref(a))
	}
	sb.WriteByte(')')
	return sb.String()
}

func (t *Term) Sort() string { return sortStr(t.W) }

// String gives a compact human-readable rendering (for samples/diagnostics).
func (t *Term) String() string {
	return t.str(0)
}

func (t *Term) str(d int) string {
	switch t.Op {
	case "c":
		if t.W == 0 {
			return constStr(t)
		}
		return strconv.FormatInt(t.SVal(), 10)
	case "v":
		return t.Name
	}
	if d > 6 {
		return "…"
	}
	var sb strings.Builder
	sb.WriteByte('(')
	if t.Op == "uf" {
		sb.WriteString(t.Name)
	} else {
		sb.WriteString(t.Op)
	}
	for _, a := range t.Args {
		sb.WriteByte(' ')
		sb.WriteString(a.str(d + 1))
	}
	sb.WriteByte(')')
	return sb.String()
}

// SignExt interprets the low w bits of c as a signed value.
func SignExt(c uint64, w int) int64 { return sx(c&mask(w), w) }

// Mask returns the all-ones value of width w.
func Mask(w int) uint64 { return mask(w) }
