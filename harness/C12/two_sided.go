//verif:overlay internal/zzverif_h/iters/c12ts.go
package iters

import (
	"github.com/csgura/fp"
	zz "github.com/csgura/fp/internal/zzverif"
	"github.com/csgura/fp/iterator"
	"github.com/csgura/fp/list"
)

// Duplicate / Partition / Span hand out two iterators over one source. Whatever order the consumer pulls the two
// sides in (a symbolic interleaving, either side first, partially or completely), each side yields exactly the
// eager sequence.
func drainInterleaved(l, r fp.Iterator[int], steps int) ([]int, []int) {
	var gl, gr []int
	for s := 0; s < steps; s++ {
		if zz.Bool("left") {
			if l.HasNext() {
				gl = append(gl, l.Next())
			}
		} else {
			if r.HasNext() {
				gr = append(gr, r.Next())
			}
		}
	}
	for l.HasNext() {
		gl = append(gl, l.Next())
	}
	for r.HasNext() {
		gr = append(gr, r.Next())
	}
	return gl, gr
}

func VH_c12_two_sided_interleaved() {
	in := zz.SliceInt("in", zz.Bound("inlen12ts", 3, 4), 0, 0)
	p := ufP("p")
	steps := zz.Bound("ts.steps", 4, 5)
	switch zz.Choice("which", 3) {
	case 0:
		l, r := iterator.Duplicate(src(in))
		gl, gr := drainInterleaved(l, r, steps)
		zz.Assert(sliceEq(gl, in) && sliceEq(gr, in), "Duplicate: both copies yield the source sequence under any pull order")
	case 1:
		var yes, no []int
		for _, x := range in {
			if p(x) {
				yes = append(yes, x)
			} else {
				no = append(no, x)
			}
		}
		l, r := iterator.Partition(src(in), p)
		gl, gr := drainInterleaved(l, r, steps)
		zz.Assert(sliceEq(gl, yes) && sliceEq(gr, no), "Partition: matching / non-matching elements in source order under any pull order")
	case 2:
		k := 0
		for k < len(in) && p(in[k]) {
			k++
		}
		l, r := iterator.Span(src(in), p)
		gl, gr := drainInterleaved(l, r, steps)
		zz.Assert(sliceEq(gl, in[:k]) && sliceEq(gr, in[k:]), "Span: longest prefix / rest under any pull order")
	}
}

// A memoised list is a value that several goroutines may traverse: every cell is evaluated once (the single-pass
// source is pulled once per element) and every traversal sees the eager sequence.
func VH_c12_list_cells_shared_by_two_tasks() {
	zz.Config("preempt", zz.Bound("preempt.cells", 2, 3))
	in := zz.SliceInt("in", 2, 0, 0)
	pulls := 0
	i := 0
	it := fp.MakeIterator(func() bool { return i < len(in) }, func() int { pulls++; v := in[i]; i++; return v })
	l := list.Collect(it)
	var got [2][]int
	for t := 0; t < 2; t++ {
		t := t
		zz.Spawn(func() { got[t] = l.ToSeq() })
	}
	zz.Quiesce()
	zz.Assert(sliceEq(got[0], in) && sliceEq(got[1], in), "a memoised list traversed by two tasks: both see the eager sequence")
	zz.Assert(pulls == len(in), "a memoised list traversed by two tasks: every cell is evaluated once")
}
