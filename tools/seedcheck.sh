#!/bin/bash
# usage: seedcheck.sh <patch.diff> <check-id> [extra verif args...]
# Applies a seeded change to /repo, runs one check (quick), always restores /repo afterwards.
set -u
patch="$1"; id="$2"; shift 2
cd /repo || exit 9
if [ -n "$(git status --porcelain)" ]; then echo "REPO NOT CLEAN"; exit 9; fi
git apply "$patch" || { echo "PATCH DOES NOT APPLY"; exit 9; }
trap 'git -C /repo checkout -- . ; git -C /repo clean -fdq' EXIT
cd /verif && timeout 1500 ./bin/verif check "$id" --noevidence "$@" 2>&1 | grep -E "VIOLATION|UNCONFIRMED|INCONCLUSIVE|^  harness=|OK$|KNOWN" | head -12
echo "exit=${PIPESTATUS[0]}"
