//verif:overlay internal/zzverif_h/c11/merge.go
package c11

import (
	"github.com/csgura/fp"
	"github.com/csgura/fp/immutable"
	zz "github.com/csgura/fp/internal/zzverif"
	"github.com/csgura/fp/monoid"
	"github.com/csgura/fp/seq"
)

type smallH struct{}

func (smallH) Eqv(a, b int) bool { return a == b }
func (smallH) Hash(a int) uint32 { return uint32(a) & 1 }

// maps of 0..n symbolic entries, on the zero-value representation or on the immutable trie
func mkFpMap(name string, n int) (fp.Map[int, int], map[int]int) {
	var m fp.Map[int, int]
	if zz.Bool(name + ".trie") {
		m = immutable.Map[int, int](smallH{})
	}
	ref := map[int]int{}
	k := zz.Choice(name+".n", n+1)
	for i := 0; i < k; i++ {
		key, val := zz.Int(name+".k"+string(rune('0'+i))), zz.Int(name+".v"+string(rune('0'+i)))
		m = m.Updated(key, val)
		ref[key] = val
	}
	return m, ref
}

func agreesAt(m fp.Map[int, int], ref map[int]int, p int) bool {
	v, ok := ref[p]
	g := m.Get(p)
	return g.IsDefined() == ok && (!ok || g.Get() == v) && m.Size() == len(ref)
}

func union(a, b map[int]int) map[int]int {
	r := map[int]int{}
	for k, v := range a {
		r[k] = v
	}
	for k, v := range b {
		r[k] = v
	}
	return r
}

func VH_c11_merge_map() {
	zz.Config("mapperm", 0)
	a, ra := mkFpMap("a", 1)
	b, rb := mkFpMap("b", 2)
	p := zz.Int("probe")
	m := monoid.MergeMap[int, int]()
	zz.Assert(agreesAt(m.Combine(a, b), union(ra, rb), p), "MergeMap: union of the keys, the right operand wins on a common key")
	zz.Assert(agreesAt(m.Combine(b, a), union(rb, ra), p), "MergeMap: right bias also when the left map is the larger one")
	zz.Assert(agreesAt(m.Combine(m.Empty(), a), ra, p) && agreesAt(m.Combine(a, m.Empty()), ra, p), "MergeMap: Empty is an identity")
}

func VH_c11_merge_map_assoc_reduce() {
	zz.Config("mapperm", 0)
	a, ra := mkFpMap("a", 1)
	b, rb := mkFpMap("b", 1)
	c, rc := mkFpMap("c", 1)
	p := zz.Int("probe")
	m := monoid.MergeMap[int, int]()
	want := union(union(ra, rb), rc)
	zz.Assert(agreesAt(m.Combine(m.Combine(a, b), c), want, p), "MergeMap: (a+b)+c")
	zz.Assert(agreesAt(m.Combine(a, m.Combine(b, c)), want, p), "MergeMap: a+(b+c) (associativity)")
	zz.Assert(agreesAt(seq.Reduce(fp.Seq[fp.Map[int, int]]{a, b, c}, m), want, p), "seq.Reduce over MergeMap = left-to-right right-biased union")
}

func mkFpSet(name string, n int) (fp.Set[int], map[int]bool) {
	var s fp.Set[int]
	if zz.Bool(name + ".trie") {
		s = immutable.Set[int](smallH{})
	}
	ref := map[int]bool{}
	k := zz.Choice(name+".n", n+1)
	for i := 0; i < k; i++ {
		e := zz.Int(name + ".e" + string(rune('0'+i)))
		s = s.Incl(e)
		ref[e] = true
	}
	return s, ref
}

func VH_c11_merge_set() {
	zz.Config("mapperm", 0)
	a, ra := mkFpSet("a", 2)
	b, rb := mkFpSet("b", 1)
	c, rc := mkFpSet("c", 1)
	p := zz.Int("probe")
	m := monoid.MergeSet[int]()
	in := func(s fp.Set[int], refs ...map[int]bool) bool {
		want := false
		n := map[int]bool{}
		for _, r := range refs {
			if r[p] {
				want = true
			}
			for k := range r {
				n[k] = true
			}
		}
		return s.Contains(p) == want && s.Size() == len(n)
	}
	zz.Assert(in(m.Combine(a, b), ra, rb), "MergeSet: union")
	zz.Assert(in(m.Combine(m.Combine(a, b), c), ra, rb, rc) && in(m.Combine(a, m.Combine(b, c)), ra, rb, rc), "MergeSet: associative")
	zz.Assert(in(m.Combine(m.Empty(), a), ra) && in(m.Combine(a, m.Empty()), ra), "MergeSet: Empty is an identity")
}

// Which representative survives: with an equivalence coarser than identity (records compared by id) the union
// is right biased like the maps are - an element of the right operand replaces the equivalent element of the
// left one, whatever the sizes of the two sets and also when the right operand adds no new class.
type recT struct{ id, tag int }

type recH struct{}

func (recH) Eqv(a, b recT) bool { return a.id == b.id }
func (recH) Hash(a recT) uint32 { return uint32(a.id) & 1 }

func mkRecSet(name string, n int) (fp.Set[recT], map[int]int) {
	s := immutable.Set[recT](recH{})
	ref := map[int]int{}
	k := zz.Choice(name+".n", n+1)
	for i := 0; i < k; i++ {
		e := recT{zz.Int(name + ".id" + string(rune('0'+i))), zz.Int(name + ".tag" + string(rune('0'+i)))}
		s = s.Incl(e)
		ref[e.id] = e.tag
	}
	return s, ref
}

func recAgree(s fp.Set[recT], ref map[int]int) bool {
	n := 0
	ok := true
	s.Foreach(func(e recT) {
		n++
		t, has := ref[e.id]
		if !has || t != e.tag {
			ok = false
		}
	})
	return ok && n == len(ref) && s.Size() == len(ref)
}

func VH_c11_merge_set_representatives() {
	zz.Config("mapperm", 0)
	a, ra := mkRecSet("a", 2)
	b, rb := mkRecSet("b", 2)
	m := monoid.MergeSet[recT]()
	zz.Assert(recAgree(m.Combine(a, b), union(ra, rb)), "MergeSet: the right operand's element replaces an equivalent one of the left")
	zz.Assert(recAgree(m.Combine(m.Empty(), a), ra) && recAgree(m.Combine(a, m.Empty()), ra), "MergeSet: Empty is an identity, elements unchanged")
	c, rc := mkRecSet("c", 1)
	// (Reduce starts from Empty, the zero-value set that compares with Go ==, so it is not asked here.)
	zz.Assert(recAgree(m.Combine(m.Combine(a, b), c), union(union(ra, rb), rc)), "MergeSet: (a+b)+c, right bias at every step")
	zz.Assert(recAgree(m.Combine(a, m.Combine(b, c)), union(union(ra, rb), rc)), "MergeSet: a+(b+c), right bias at every step")
}
