package gosym

import "go/types"

type typesType = types.Type

func typesIdent(a, b types.Type) bool { return types.Identical(a, b) }
