// Command verif: solver-based checks of csgura/fp through a go/ssa symbolic executor.
package main

import (
	"crypto/sha1"
	"encoding/json"
	"flag"
	"fmt"
	"os"
	"os/exec"
	"path/filepath"
	"regexp"
	"runtime/debug"
	"runtime/pprof"
	"sort"
	"strconv"
	"strings"
	"sync"
	"time"

	"verif/engine/gosym"
	"verif/engine/hgen"
)

var verifDir = "/verif"
var repoDir = "/repo"

func main() {
	debug.SetGCPercent(200)
	if v := os.Getenv("VERIF_DIR"); v != "" {
		verifDir = v
	}
	if v := os.Getenv("VERIF_REPO"); v != "" {
		repoDir = v
	}
	setupGoCache()
	if len(os.Args) < 2 {
		fmt.Println("usage: verif check <Cxx> [--tier quick|thorough] | run <files...> | replay <dir> | selftest")
		os.Exit(2)
	}
	switch os.Args[1] {
	case "check":
		os.Exit(cmdCheck(os.Args[2:]))
	case "replay":
		os.Exit(cmdReplay(os.Args[2:]))
	case "selftest":
		os.Exit(cmdSelftest(os.Args[2:]))
	default:
		fmt.Println("unknown command", os.Args[1])
		os.Exit(2)
	}
}

type srcFile struct {
	Virtual string // path under repo
	Real    string // file on disk ("" = generated, Data holds the content)
	Data    []byte
}

var overlayRe = regexp.MustCompile(`(?m)^//verif:overlay\s+(\S+)`)
var whiteboxRe = regexp.MustCompile(`(?m)^//verif:whitebox`)
var tierRe = regexp.MustCompile(`(?m)^//verif:tier\s+(\S+)`)

// collect gathers harness sources for a property: static files under harness/<id>/ plus generated ones.
func collect(id, tier string) ([]srcFile, error) {
	var out []srcFile
	files, _ := filepath.Glob(filepath.Join(verifDir, "harness", id, "*.go"))
	sort.Strings(files)
	for _, f := range files {
		b, err := os.ReadFile(f)
		if err != nil {
			return nil, err
		}
		mm := overlayRe.FindSubmatch(b)
		if mm == nil {
			return nil, fmt.Errorf("%s: missing //verif:overlay header", f)
		}
		if t := tierRe.FindSubmatch(b); t != nil && string(t[1]) == "thorough" && tier != "thorough" {
			continue
		}
		out = append(out, srcFile{Virtual: string(mm[1]), Real: f, Data: b})
	}
	gen, err := hgen.Generate(id, tier, repoDir)
	if err != nil {
		return nil, err
	}
	for _, g := range gen {
		out = append(out, srcFile{Virtual: g.Virtual, Data: g.Data})
	}
	// shared preludes for the packages in use
	used := map[string]bool{}
	for _, s := range out {
		used[filepath.Dir(s.Virtual)] = true
	}
	pre, _ := filepath.Glob(filepath.Join(verifDir, "harness", "prelude", "*.go"))
	sort.Strings(pre)
	for _, f := range pre {
		b, err := os.ReadFile(f)
		if err != nil {
			return nil, err
		}
		mm := overlayRe.FindSubmatch(b)
		if mm != nil && used[filepath.Dir(string(mm[1]))] {
			out = append(out, srcFile{Virtual: string(mm[1]), Real: f, Data: b})
		}
	}
	return out, nil
}

type evidence struct {
	PropertyID  string                 `json:"property_id"`
	Tier        string                 `json:"tier"`
	Seed        int                    `json:"seed"`
	Level       string                 `json:"level"`
	Coverage    map[string]interface{} `json:"coverage"`
	Assumptions []string               `json:"assumptions"`
	WallS       float64                `json:"wall_s"`
	Violations  int                    `json:"violations"`
}

func cmdCheck(args []string) int {
	fs := flag.NewFlagSet("check", flag.ExitOnError)
	tier := fs.String("tier", "", "quick|thorough")
	only := fs.String("only", "", "regexp restricting harness names")
	workers := fs.Int("workers", 14, "parallel workers")
	verbose := fs.Bool("v", false, "verbose")
	noReplay := fs.Bool("noreplay", false, "skip native replay (debug only; never a pass)")
	noEvidence := fs.Bool("noevidence", false, "do not write the evidence file (debug)")
	cpuprof := fs.String("cpuprofile", "", "write a CPU profile (debug)")
	if len(args) < 1 {
		fmt.Println("check needs a property id")
		return 2
	}
	id := args[0]
	fs.Parse(args[1:])
	if *tier == "" {
		*tier = os.Getenv("VERIF_TIER")
		if *tier == "" {
			*tier = "quick"
		}
	}
	seed, _ := strconv.Atoi(os.Getenv("VERIF_SEED"))
	t0 := time.Now()
	if *cpuprof != "" {
		f, _ := os.Create(*cpuprof)
		pprof.StartCPUProfile(f)
		defer pprof.StopCPUProfile()
	}

	var sc *scratchCtx
	if progs := hgen.ScratchPrograms(id, *tier, seed); len(progs) > 0 {
		var code int
		sc, code = prepareScratch(id, *tier, progs)
		if sc == nil {
			return code
		}
		defer os.RemoveAll(sc.dir)
	}
	srcs, err := collect(id, *tier)
	if sc != nil {
		srcs, err = nil, nil
	}
	if err != nil {
		fmt.Println("INCONCLUSIVE: cannot collect harnesses:", err)
		return 2
	}
	if len(srcs) == 0 && sc == nil {
		fmt.Println("INCONCLUSIVE: no harnesses for", id)
		return 2
	}
	// generated sources are written to a scratch dir so that native replays can overlay them
	scratch, err := os.MkdirTemp("", "verif-"+id+"-")
	if err != nil {
		fmt.Println(err)
		return 2
	}
	defer os.RemoveAll(scratch)
	zz, err := os.ReadFile(filepath.Join(verifDir, "rt/zzverif/zzverif.go"))
	if err != nil {
		fmt.Println(err)
		return 2
	}
	var overlay map[string][]byte
	var patterns []string
	prepare := func() {
		overlay = map[string][]byte{}
		pkgDirs := map[string]bool{}
		overlay[filepath.Join(repoDir, "internal/zzverif/zzverif.go")] = zz
		for i := range srcs {
			s := &srcs[i]
			overlay[filepath.Join(repoDir, s.Virtual)] = s.Data
			pkgDirs["./"+filepath.Dir(s.Virtual)] = true
			if s.Real == "" {
				s.Real = filepath.Join(scratch, strings.ReplaceAll(s.Virtual, "/", "__"))
				os.WriteFile(s.Real, s.Data, 0o644)
			}
		}
		patterns = nil
		for d := range pkgDirs {
			patterns = append(patterns, d)
		}
		sort.Strings(patterns)
	}
	prepare()
	loadDir := repoDir
	if sc != nil {
		loadDir, overlay, patterns = sc.dir, nil, sc.patterns
	}
	var skippedWhitebox []string
	eng, err := gosym.Load(loadDir, overlay, patterns)
	if err != nil && sc == nil {
		// White-box harnesses (marked //verif:whitebox) name unexported identifiers of the library. If the tree was
		// refactored so that they no longer type-check, they are left out - stated in the output and the evidence -
		// and the check goes on with the harnesses that use the exported API only.
		var kept []srcFile
		for _, s := range srcs {
			if whiteboxRe.Match(s.Data) {
				skippedWhitebox = append(skippedWhitebox, s.Virtual)
			} else {
				kept = append(kept, s)
			}
		}
		if len(skippedWhitebox) > 0 && len(kept) > 0 {
			firstErr := err
			srcs = kept
			prepare()
			eng, err = gosym.Load(loadDir, overlay, patterns)
			if err == nil {
				fmt.Printf("NOTE: %d white-box harness file(s) do not type-check against the current tree and are skipped: %s\n  (%s)\n", len(skippedWhitebox), strings.Join(skippedWhitebox, ", "), strings.Join(strings.SplitN(firstErr.Error(), "\n", 3)[:min(2, len(strings.SplitN(firstErr.Error(), "\n", 3)))], " "))
			}
		}
	}
	if err != nil {
		fmt.Println("INCONCLUSIVE: load/type-check failed (harness does not fit the current tree?):")
		fmt.Println(err)
		return 2
	}
	eng.Tier = *tier
	eng.Workers = *workers
	eng.Verbose = *verbose
	if *tier == "thorough" {
		eng.TimeoutMs = 120000
		eng.MaxPaths = 400000
		if _, err := exec.LookPath("cvc5"); err == nil && os.Getenv("VERIF_NOMIRROR") == "" {
			// every check-sat is also decided by cvc5 on the same incremental session; two decided verdicts that
			// differ make the query inconclusive
			eng.MirrorBin = []string{"cvc5", "--incremental", "--tlimit-per=10000"}
		}
	}
	hs := eng.Harnesses()
	if *tier != "thorough" {
		// harnesses named *_thorough belong to the thorough tier only
		var f []*gosym.Harness
		for _, h := range hs {
			if !strings.HasSuffix(h.Name, "_thorough") {
				f = append(f, h)
			}
		}
		hs = f
	}
	if *only != "" {
		re := regexp.MustCompile(*only)
		var f []*gosym.Harness
		for _, h := range hs {
			if re.MatchString(h.Name) {
				f = append(f, h)
			}
		}
		hs = f
	}
	// heavier harnesses first is not known; shuffle deterministically by seed for load balance
	if seed != 0 {
		sort.SliceStable(hs, func(i, j int) bool {
			return sha(hs[i].Name, seed) < sha(hs[j].Name, seed)
		})
	}
	// translator validation: for a sample of harnesses one completed path is re-run natively from a model of its
	// path condition; the native run must pass every assertion as the symbolic run did
	nWit := 6
	if *tier == "thorough" {
		nWit = 30
	}
	if *noReplay {
		nWit = 0
	}
	witSet := map[string]bool{}
	{
		names := make([]string, 0, len(hs))
		for _, h := range hs {
			names = append(names, h.Name)
		}
		sort.Slice(names, func(i, j int) bool { return sha(names[i], seed+1) < sha(names[j], seed+1) })
		for i := 0; i < len(names) && i < nWit; i++ {
			witSet[names[i]] = true
		}
	}
	eng.WantWitness = func(h *gosym.Harness) bool { return witSet[h.Name] }
	fmt.Printf("%s tier=%s: %d harnesses in %d packages (load %.1fs)\n", id, *tier, len(hs), len(patterns), eng.LoadTime.Seconds())
	results := eng.RunAll(hs, func(r *gosym.HarnessResult) {
		if *verbose {
			fmt.Printf("  %-50s paths=%d asserts=%d/%d ends=%v wall=%.1fs\n", r.H.Name, r.Paths, r.Discharged, r.Asserts, r.Ends, r.Wall.Seconds())
		}
	})

	// ---- aggregate
	known := loadKnown(id)
	var (
		paths, steps, asserts, trivial, discharged, inconcl, queries int
		solverT                                                      time.Duration
		funcs                                                        = map[string]bool{}
		stubs                                                        = map[string]bool{}
		notes                                                        = map[string]bool{}
		bounds                                                       = map[string]int{}
		inconclusive                                                 []string
		samples                                                      []interface{}
		cexs                                                         []*gosym.Cex
		cexH                                                         = map[*gosym.Cex]*gosym.Harness{}
		ends                                                         = map[string]int{}
		switches                                                     int
	)
	for _, r := range results {
		paths += r.Paths
		steps += r.Steps
		asserts += r.Asserts
		trivial += r.Trivial
		discharged += r.Discharged
		inconcl += r.Inconcl
		queries += r.Queries
		solverT += r.SolverTime
		switches += r.Switches
		for k := range r.Funcs {
			funcs[k] = true
		}
		for k := range r.Stubs {
			stubs[k] = true
		}
		for k := range r.Notes {
			notes[k] = true
		}
		for k, v := range r.Bounds {
			if old, ok := bounds[k]; !ok || v > old {
				bounds[k] = v
			}
		}
		for k, v := range r.Ends {
			ends[k] += v
		}
		for k, n := range r.Unsupp {
			inconclusive = append(inconclusive, fmt.Sprintf("%s: %s (%d paths)", r.H.Name, k, n))
		}
		if r.Truncated {
			inconclusive = append(inconclusive, fmt.Sprintf("%s: path budget %d exhausted", r.H.Name, eng.MaxPaths))
		}
		if r.Inconcl > 0 {
			inconclusive = append(inconclusive, fmt.Sprintf("%s: %d assertion queries returned unknown", r.H.Name, r.Inconcl))
		}
		if r.Asserts == 0 && len(r.Cexs) == 0 {
			inconclusive = append(inconclusive, fmt.Sprintf("%s: vacuous (no assertion reached)", r.H.Name))
		}
		for _, c := range r.Cexs {
			cexs = append(cexs, c)
			cexH[c] = r.H
		}
		if len(samples) < 6 && r.SampleVec != nil {
			samples = append(samples, map[string]interface{}{"harness": r.H.Name, "decision_vector": r.SampleVec, "path_condition": r.SampleDesc, "paths": r.Paths, "assertions_discharged": r.Discharged})
		}
	}

	// ---- replay counterexamples natively
	type outcome struct {
		c      *gosym.Cex
		dir    string
		repro  bool
		detail string
	}
	var outs []*outcome
	var mu sync.Mutex
	var wg sync.WaitGroup
	sem := make(chan struct{}, 6)
	replayed := 0
	for _, c := range cexs {
		o := &outcome{c: c}
		outs = append(outs, o)
		if *noReplay {
			o.detail = "replay skipped"
			continue
		}
		replayed++
		wg.Add(1)
		go func(o *outcome) {
			defer wg.Done()
			sem <- struct{}{}
			defer func() { <-sem }()
			var dir, det string
			var rep bool
			if sc != nil {
				dir, rep, det = sc.replay(id, *tier, o.c, cexH[o.c])
			} else {
				dir, rep, det = replayCex(id, *tier, o.c, cexH[o.c], srcs)
			}
			mu.Lock()
			o.dir, o.repro, o.detail = dir, rep, det
			mu.Unlock()
		}(o)
	}
	wg.Wait()

	// native cross-validation of sampled passing paths
	witOK := 0
	var wmu sync.Mutex
	for _, r := range results {
		if r.Witness == nil {
			continue
		}
		r := r
		wg.Add(1)
		go func() {
			defer wg.Done()
			sem <- struct{}{}
			defer func() { <-sem }()
			var ok bool
			var det, dir string
			if sc != nil {
				dir, ok, det = sc.replay(id, *tier, r.Witness, r.H)
			} else {
				dir, ok, det = replayCex(id, *tier, r.Witness, r.H, srcs)
			}
			wmu.Lock()
			defer wmu.Unlock()
			if ok {
				witOK++
				os.RemoveAll(dir)
			} else {
				inconclusive = append(inconclusive, fmt.Sprintf("%s: a path that passes symbolically does not pass natively (%s) - executor/stub disagreement, see %s", r.H.Name, det, dir))
			}
		}()
	}
	wg.Wait()

	violations := 0
	knownHits := 0
	if sc != nil {
		for _, v := range sc.violations {
			violations++
			fmt.Printf("VIOLATION property=%s replay=%s\n  %s\n", id, v.dir, v.msg)
		}
	}
	for _, o := range outs {
		sig := o.c.Harness + " " + o.c.Kind + ":" + o.c.Label
		if !o.repro {
			inconclusive = append(inconclusive, fmt.Sprintf("%s: counterexample (%s) not reproduced natively: %s", o.c.Harness, sig, o.detail))
			fmt.Printf("UNCONFIRMED property=%s harness=%s %s:%s (%s) dir=%s\n", id, o.c.Harness, o.c.Kind, o.c.Label, o.detail, o.dir)
			continue
		}
		if k := matchKnown(known, o.c); k != "" {
			knownHits++
			fmt.Printf("KNOWN-FINDING: property=%s %s\n", id, k)
			continue
		}
		violations++
		fmt.Printf("VIOLATION property=%s replay=%s\n", id, o.dir)
		fmt.Printf("  harness=%s %s: %s\n  model=%s\n", o.c.Harness, o.c.Kind, o.c.Label+" "+o.c.Msg, shortModel(o.c.Model))
	}

	// ---- evidence
	fnames := make([]string, 0, len(funcs))
	nRepoFuncs := 0
	for k := range funcs {
		if strings.Contains(k, gosym.ModulePath) && !strings.Contains(k, "VH_") && !strings.Contains(k, "zzverif") {
			nRepoFuncs++
			fnames = append(fnames, k)
		}
	}
	sort.Strings(fnames)
	if len(fnames) > 400 {
		fnames = fnames[:400]
	}
	if len(samples) == 0 {
		samples = append(samples, map[string]interface{}{"note": "no completed path"})
	}
	for _, o := range outs {
		if len(samples) < 10 {
			samples = append(samples, map[string]interface{}{"counterexample": o.c.Harness, "kind": o.c.Kind, "label": o.c.Label, "model": o.c.Model, "reproduced": o.repro})
		}
	}
	ev := evidence{PropertyID: id, Tier: *tier, Seed: seed, Level: "model_checking", WallS: time.Since(t0).Seconds(), Violations: violations}
	if sc != nil {
		ev.Level = "translation_validation"
	}
	ev.Coverage = map[string]interface{}{
		"states":                                 paths,
		"transitions":                            steps,
		"traces_validated_against_impl":          replayed + witOK,
		"passing_paths_cross_validated_natively": witOK,
		"counterexamples_replayed_natively":      replayed,
		"samples":                                samples,
		"harnesses":                              len(hs),
		"functions_encoded":                      map[string]interface{}{"count": nRepoFuncs, "all_including_std": len(funcs), "names": fnames},
		"queries":                                map[string]interface{}{"total": queries, "assertions": asserts, "assertions_trivially_true_by_folding": trivial, "unsat": discharged, "unknown": inconcl},
		"solver_s":                               solverT.Seconds(),
		"second_solver":                          map[string]interface{}{"cmd": strings.Join(eng.MirrorBin, " "), "assertion_queries_cross_checked": eng.MirrorChecks, "assertion_queries_not_cross_checked_because_the_second_solver_was_the_bottleneck": eng.MirrorSkipped, "verdict_disagreements": eng.Disagreements, "sessions_lost": eng.MirrorLost},
		"path_ends":                              ends,
		"bounds":                                 bounds,
		"limits":                                 map[string]interface{}{"call_depth": eng.Defaults.MaxDepth, "loop_unwind": eng.Defaults.LoopBound, "steps_per_path": eng.Defaults.MaxSteps, "solver_timeout_ms": eng.TimeoutMs},
		"stubs_hit":                              keys(stubs),
		"inconclusive":                           inconclusive,
		"uncovered":                              hgen.UncoveredFor(id),
		"whitebox_harness_files_skipped":         skippedWhitebox,
		"family_members_decided_by_other_checks": hgen.Elsewhere[id],
		"known_findings_hit":                     knownHits,
		"task_switches":                          switches,
		"exhaustive":                             len(inconclusive) == 0,
		"explanation":                            "every feasible path of every harness within the stated bounds was executed symbolically over the SSA of the current /repo tree; each assertion was decided by z3 (unsat of path-condition ∧ ¬assertion)",
	}
	if sc != nil {
		ev.Coverage["programs"] = len(sc.progs)
		ev.Coverage["disagreements_checked"] = asserts
		ev.Coverage["generator"] = "cmd/gombok built from the current /repo tree and run on each scratch package; its output is type-checked, built and then executed symbolically with a harness generated from the same struct specification"
		ev.Coverage["program_samples"] = sc.samples
	}
	ev.Assumptions = append([]string{"go/ssa (x/tools v0.29.0) lowering and the executor's instruction semantics", "verdicts of the SMT solver ("+strings.Join(eng.SolverBin, " ")+": z3 5.1.0 when z3-new is on PATH, else z3 4.8.12; thorough tier: assertion queries cross-checked by cvc5)", "stubs listed under stubs_hit behave as modelled (DESIGN 2.6)", "sequential consistency; scheduling points only at sync/atomic, mutex, channel and spawn operations (sound for data-race-free code)"}, keys(notes)...)
	ev.Assumptions = append(ev.Assumptions, hgen.Assumptions(id)...)
	if !*noEvidence {
		os.MkdirAll(filepath.Join(verifDir, "evidence"), 0o755)
		b, _ := json.MarshalIndent(ev, "", " ")
		os.WriteFile(filepath.Join(verifDir, "evidence", id+".json"), b, 0o644)
	}

	fmt.Printf("%s: harnesses=%d paths=%d steps=%d assertions=%d (unsat %d, folded %d, unknown %d) queries=%d solver=%.1fs wall=%.1fs ends=%v\n",
		id, len(hs), paths, steps, asserts, discharged, trivial, inconcl, queries, solverT.Seconds(), time.Since(t0).Seconds(), ends)
	if eng.Disagreements > 0 {
		inconclusive = append(inconclusive, fmt.Sprintf("%d solver verdicts differ between %s and %s", eng.Disagreements, eng.SolverBin[0], eng.MirrorBin[0]))
	}
	if violations > 0 {
		return 1
	}
	if len(inconclusive) > 0 {
		fmt.Println("INCONCLUSIVE:")
		for _, s := range inconclusive {
			fmt.Println("  " + s)
		}
		return 2
	}
	fmt.Println("OK")
	return 0
}

func shortModel(m map[string]string) string {
	ks := make([]string, 0, len(m))
	for k := range m {
		ks = append(ks, k)
	}
	sort.Strings(ks)
	var sb strings.Builder
	for i, k := range ks {
		if i >= 16 {
			sb.WriteString(fmt.Sprintf(" … (%d more, see vector.json)", len(ks)-i))
			break
		}
		sb.WriteString(" " + k + "=" + m[k])
	}
	return sb.String()
}

func keys(m map[string]bool) []string {
	out := make([]string, 0, len(m))
	for k := range m {
		out = append(out, k)
	}
	sort.Strings(out)
	return out
}

func sha(s string, seed int) string {
	h := sha1.Sum([]byte(fmt.Sprint(seed) + s))
	return fmt.Sprintf("%x", h[:8])
}

// ---- known findings

type knownEntry struct {
	harness, label, text string
}

func loadKnown(id string) []knownEntry {
	b, err := os.ReadFile(filepath.Join(verifDir, "known_findings.txt"))
	if err != nil {
		return nil
	}
	var out []knownEntry
	for _, l := range strings.Split(string(b), "\n") {
		l = strings.TrimSpace(l)
		if !strings.HasPrefix(l, "known:") {
			continue
		}
		f := strings.Fields(l)
		e := knownEntry{text: l}
		ok := false
		for _, w := range f {
			if w == "property="+id {
				ok = true
			}
			if strings.HasPrefix(w, "harness=") {
				e.harness = strings.TrimPrefix(w, "harness=")
			}
			if strings.HasPrefix(w, "label=") {
				e.label = strings.TrimPrefix(w, "label=")
			}
		}
		if ok {
			out = append(out, e)
		}
	}
	return out
}

func matchKnown(ks []knownEntry, c *gosym.Cex) string {
	lab := strings.ReplaceAll(c.Kind+":"+c.Label, " ", "_")
	for _, k := range ks {
		if k.harness == c.Harness && (k.label == lab) {
			return strings.TrimPrefix(k.text, "known: ")
		}
	}
	return ""
}

// ---- native replay

type vectorFile struct {
	Harness  string            `json:"harness"`
	Pkg      string            `json:"pkg"`
	Tier     string            `json:"tier"`
	Property string            `json:"property"`
	Expect   map[string]string `json:"expect"`
	Decision []int             `json:"decisions"`
	Tape     []gosym.TapeValue `json:"tape"`
	Sched    []int             `json:"sched"`
	Model    map[string]string `json:"model"`
}

func replayCex(id, tier string, c *gosym.Cex, h *gosym.Harness, srcs []srcFile) (string, bool, string) {
	hsh := sha1.Sum([]byte(fmt.Sprint(c.Vec, c.Label, c.Kind)))
	dir := filepath.Join(verifDir, "replays", id, fmt.Sprintf("%s-%x", c.Harness, hsh[:4]))
	os.MkdirAll(dir, 0o755)
	vf := vectorFile{Harness: c.Harness, Pkg: h.PkgPath, Tier: tier, Property: id, Decision: c.Vec, Tape: c.Tape, Sched: c.Sched, Model: c.Model,
		Expect: map[string]string{"kind": c.Kind, "label": c.Label, "msg": c.Msg}}
	b, _ := json.MarshalIndent(vf, "", " ")
	os.WriteFile(filepath.Join(dir, "vector.json"), b, 0o644)
	// copy harness sources so that the replay directory is self-contained
	repl := map[string]string{}
	for _, s := range srcs {
		dst := filepath.Join(dir, "src__"+strings.ReplaceAll(s.Virtual, "/", "__"))
		os.WriteFile(dst, s.Data, 0o644)
		repl[s.Virtual] = dst
	}
	if len(c.Sched) > 0 {
		// concurrent counterexample: overlay instrumented copies of the current library files so that the native
		// run passes through the same scheduling points as the symbolic run
		for _, f := range instrumentForReplay() {
			dst := filepath.Join(dir, "src__"+strings.ReplaceAll(f.Virtual, "/", "__"))
			os.WriteFile(dst, f.Data, 0o644)
			repl[f.Virtual] = dst
		}
	}
	zz, _ := os.ReadFile(filepath.Join(verifDir, "rt/zzverif/zzverif.go"))
	os.WriteFile(filepath.Join(dir, "src__zzverif.go"), zz, 0o644)
	repl["internal/zzverif/zzverif.go"] = filepath.Join(dir, "src__zzverif.go")
	rel := strings.TrimPrefix(strings.TrimPrefix(h.PkgPath, gosym.ModulePath), "/")
	if rel == "" {
		rel = "."
	}
	test := fmt.Sprintf("package %s\n\nimport (\n\t\"testing\"\n\n\t\"github.com/csgura/fp/internal/zzverif\"\n)\n\nfunc TestZZReplay(t *testing.T) {\n\tif out := zzverif.RunReplay(%q, %s); out != \"ok\" {\n\t\tt.Fatalf(\"replay outcome: %%s\", out)\n\t}\n}\n", h.PkgName, c.Harness, c.Harness)
	os.WriteFile(filepath.Join(dir, "replay_test.go"), []byte(test), 0o644)
	repl[filepath.Join(rel, "zz_verif_replay_test.go")] = filepath.Join(dir, "replay_test.go")
	// overlay.json uses REPO placeholders resolved at replay time
	ob, _ := json.MarshalIndent(map[string]interface{}{"pkg": h.PkgPath, "replace": repl}, "", " ")
	os.WriteFile(filepath.Join(dir, "overlay.tmpl.json"), ob, 0o644)
	ok, detail := runReplay(dir)
	return dir, ok, detail
}

func runReplay(dir string) (bool, string) {
	if _, err := os.Stat(filepath.Join(dir, "scratch.json")); err == nil {
		return runScratchReplay(dir)
	}
	var vf vectorFile
	b, err := os.ReadFile(filepath.Join(dir, "vector.json"))
	if err != nil {
		return false, err.Error()
	}
	json.Unmarshal(b, &vf)
	var tm struct {
		Pkg     string            `json:"pkg"`
		Replace map[string]string `json:"replace"`
	}
	b, err = os.ReadFile(filepath.Join(dir, "overlay.tmpl.json"))
	if err != nil {
		return false, err.Error()
	}
	json.Unmarshal(b, &tm)
	rep := map[string]string{}
	for v, r := range tm.Replace {
		rep[filepath.Join(repoDir, v)] = filepath.Join(dir, filepath.Base(r))
	}
	tmp, _ := os.CreateTemp("", "verif-overlay-*.json")
	ob, _ := json.Marshal(map[string]interface{}{"Replace": rep})
	tmp.Write(ob)
	tmp.Close()
	defer os.Remove(tmp.Name())
	bin, _ := os.CreateTemp("", "verif-replay-*.test")
	bin.Close()
	defer os.Remove(bin.Name())
	env := append(os.Environ(), "GOFLAGS=-mod=mod", "GOPROXY=off", "GOSUMDB=off", "GOTOOLCHAIN=local", "ZZVERIF_TAPE="+filepath.Join(dir, "vector.json"))
	build := exec.Command("go", "test", "-c", "-vet=off", "-overlay", tmp.Name(), "-o", bin.Name(), tm.Pkg)
	build.Dir = repoDir
	build.Env = env
	out, err := build.CombinedOutput()
	if err != nil {
		os.WriteFile(filepath.Join(dir, "replay.log"), out, 0o644)
		return false, "native build failed: " + firstLine("", string(out))
	}
	cmd := exec.Command(bin.Name(), "-test.run", "^TestZZReplay$", "-test.timeout", "20s", "-test.v")
	cmd.Dir = dir
	cmd.Env = env
	out, _ = cmd.CombinedOutput()
	so := string(out)
	os.WriteFile(filepath.Join(dir, "replay.log"), out, 0o644)
	kind, label := vf.Expect["kind"], vf.Expect["label"]
	m := regexp.MustCompile(`ZZVERIF-OUTCOME \S+ (.*)`).FindStringSubmatch(so)
	got := ""
	if m != nil {
		got = strings.TrimSpace(m[1])
	}
	switch kind {
	case "witness":
		if got == "ok" {
			return true, "native run passes too"
		}
	case "assert":
		if got == "assert:"+label {
			return true, got
		}
		if strings.HasPrefix(label, "frozen[") && strings.HasPrefix(got, "assert:frozen[") {
			return true, got
		}
		if strings.HasPrefix(label, "stack:") && (strings.Contains(so, "stack overflow") || strings.Contains(so, "goroutine stack exceeds")) {
			return true, "native stack grows with the recursion depth: " + grepLine(so, "stack overflow|goroutine stack exceeds")
		}
	case "panic":
		if strings.HasPrefix(got, "panic:") || (got == "" && strings.Contains(so, "panic:")) {
			return true, firstLine(got, so)
		}
	case "bound":
		if strings.Contains(so, "stack overflow") || strings.Contains(so, "goroutine stack exceeds") || strings.Contains(so, "test timed out") || strings.Contains(so, "out of memory") {
			return true, "native run does not terminate: " + grepLine(so, "stack overflow|goroutine stack exceeds|test timed out|out of memory")
		}
	case "deadlock":
		if strings.Contains(so, "all goroutines are asleep") || strings.Contains(so, "test timed out") {
			return true, "native deadlock"
		}
	}
	if got == "" {
		got = firstLine("", so)
	}
	return false, "native outcome: " + got
}

func firstLine(a, so string) string {
	if a != "" {
		return a
	}
	for _, l := range strings.Split(so, "\n") {
		if strings.TrimSpace(l) != "" {
			return l
		}
	}
	return ""
}

func grepLine(s, re string) string {
	r := regexp.MustCompile(re)
	for _, l := range strings.Split(s, "\n") {
		if r.MatchString(l) {
			return strings.TrimSpace(l)
		}
	}
	return ""
}

func cmdReplay(args []string) int {
	if len(args) < 1 {
		fmt.Println("replay needs a directory")
		return 2
	}
	ok, detail := runReplay(args[0])
	fmt.Println(detail)
	if ok {
		fmt.Println("REPRODUCED")
		return 1
	}
	fmt.Println("NOT REPRODUCED")
	return 0
}

func cmdSelftest(args []string) int {
	return selftest()
}

var (
	reGo           = regexp.MustCompile(`^(\s*)go (.+)$`)
	reDeferUnl     = regexp.MustCompile(`^(\s*)defer ([\w\.]+)\.Unlock\(\)\s*$`)
	reLock         = regexp.MustCompile(`^(\s*)([\w\.]+)\.Lock\(\)\s*$`)
	reUnlock       = regexp.MustCompile(`^(\s*)([\w\.]+)\.Unlock\(\)\s*$`)
	reAtomic       = regexp.MustCompile(`atomic\.(Load|Store|CompareAndSwap|Swap|Add)\w*\(|\.value\.(Load|Store|CompareAndSwap)\(`)
	reAtomicM      = regexp.MustCompile(`\.(Load|Store|CompareAndSwap|Swap|Add)\(`)
	reOnce         = regexp.MustCompile(`\b(\w+)\.Do\(`)
	reIndent       = regexp.MustCompile(`^(\s*)(.*)$`)
	rePackage      = regexp.MustCompile(`(?m)^package \w+\s*$`)
	instrumentDirs = []string{".", "internal/atomic", "future", "mutable", "lazy", "promise", "iterator", "list", "seq", "fn1"}
)

// instrumentForReplay rewrites (line-wise) the synchronisation sites of the current library sources.
func instrumentForReplay() []srcFile {
	var out []srcFile
	for _, d := range instrumentDirs {
		files, _ := filepath.Glob(filepath.Join(repoDir, d, "*.go"))
		for _, f := range files {
			if strings.HasSuffix(f, "_test.go") || strings.Contains(filepath.Base(f), "zz_verif") {
				continue
			}
			b, err := os.ReadFile(f)
			if err != nil {
				continue
			}
			src := string(b)
			if !strings.Contains(src, "sync") {
				// only files that use sync / sync/atomic, or spawn goroutines
				if !regexp.MustCompile(`(?m)^\s*go \w`).MatchString(src) {
					continue
				}
			}
			lines := strings.Split(src, "\n")
			changed := false
			usesOnce := strings.Contains(src, "sync.Once")
			// files that import sync/atomic themselves may use the typed atomics (atomic.Bool, atomic.Value, ...)
			usesAtomicPkg := strings.Contains(src, "\"sync/atomic\"")
			for i, l := range lines {
				switch {
				case strings.HasPrefix(strings.TrimSpace(l), "//"):
				case reGo.MatchString(l):
					m := reGo.FindStringSubmatch(l)
					lines[i] = m[1] + "zzverif.Spawn(func() { " + m[2] + " })"
					changed = true
				case reDeferUnl.MatchString(l):
					m := reDeferUnl.FindStringSubmatch(l)
					lines[i] = m[1] + "defer zzverif.MutexUnlock(&" + m[2] + ")"
					changed = true
				case reLock.MatchString(l):
					m := reLock.FindStringSubmatch(l)
					lines[i] = m[1] + "zzverif.MutexLock(&" + m[2] + ")"
					changed = true
				case reUnlock.MatchString(l):
					m := reUnlock.FindStringSubmatch(l)
					lines[i] = m[1] + "zzverif.MutexUnlock(&" + m[2] + ")"
					changed = true
				case (reAtomic.MatchString(l) || (usesAtomicPkg && reAtomicM.MatchString(l))) && !strings.Contains(l, "import") && !strings.Contains(l, "\"sync/atomic\""):
					m := reIndent.FindStringSubmatch(l)
					if strings.HasPrefix(m[2], "if ") || strings.HasPrefix(m[2], "for ") || strings.HasPrefix(m[2], "}") {
						lines[i] = m[1] + "zzverif.SchedPoint(\"atomic\")\n" + l
					} else {
						lines[i] = m[1] + "zzverif.SchedPoint(\"atomic\"); " + m[2]
					}
					changed = true
				case usesOnce && reOnce.MatchString(l) && strings.Contains(l, "once"):
					lines[i] = reOnce.ReplaceAllString(l, "zzverif.OnceDo(&$1, ")
					changed = true
				}
			}
			if !changed {
				continue
			}
			res := strings.Join(lines, "\n")
			loc := rePackage.FindStringIndex(res)
			if loc == nil {
				continue
			}
			res = res[:loc[1]] + "\n\nimport zzverif \"github.com/csgura/fp/internal/zzverif\"\n" + res[loc[1]:]
			rel, _ := filepath.Rel(repoDir, f)
			out = append(out, srcFile{Virtual: rel, Data: []byte(res)})
		}
	}
	return out
}
