//verif:overlay immutable/zz_verif_prelude_sym.go
//verif:whitebox
package immutable

import (
	"math/bits"

	"github.com/csgura/fp"
	zz "github.com/csgura/fp/internal/zzverif"
)

// Symbolic valid tries for the inductive checks of C03/C04. The pre-state is built directly from the node
// types: its SHAPE is one of a catalogue, its keys, values and hashes are symbolic (the hash is an
// uninterpreted function of the key, so it agrees with Eqv by construction), and it is only assumed to satisfy
// the representation invariant. Everything in this file is written without branching on symbolic data
// (zz.BAnd/zz.Ite), so the only path splits are the ones made by the code under test.

type vhasher struct{}

func (vhasher) Eqv(a, b int) bool { return a == b }
func (vhasher) Hash(k int) uint32 { return uint32(zz.UFInt("h", k)) }

var vh fp.Hashable[int] = vhasher{}

func vhFrag(k int, shift uint) uint32 { return (vh.Hash(k) >> shift) & mapNodeMask }

type vhKV struct{ k, v int }

var vhKeys []vhKV // the abstract map of the pre-state

func vhReset() { vhKeys = nil }

func vhNewKey(name string) vhKV {
	e := vhKV{zz.Int(name + ".k"), zz.Int(name + ".v")}
	for _, o := range vhKeys {
		zz.Assume(o.k != e.k)
	}
	vhKeys = append(vhKeys, e)
	return e
}

func vhLeaf(e vhKV) mapNode[int, int] { return newMapValueNode(vh.Hash(e.k), e.k, e.v) }

type vhPfx struct {
	shift uint
	frag  uint32
}

func vhKeyOK(k int, pfx []vhPfx) bool {
	ok := true
	for _, p := range pfx {
		ok = zz.BAnd(ok, vhFrag(k, p.shift) == p.frag)
	}
	return ok
}

// some key stored below n (structure is concrete)
func vhRep(n mapNode[int, int]) (int, bool) {
	switch n := n.(type) {
	case *mapArrayNode[int, int]:
		if len(n.entries) > 0 {
			return n.entries[0].key, true
		}
	case *mapBitmapIndexedNode[int, int]:
		if len(n.nodes) > 0 && n.nodes[0] != nil {
			return vhRep(n.nodes[0])
		}
	case *mapHashArrayNode[int, int]:
		for _, c := range n.nodes {
			if c != nil {
				return vhRep(c)
			}
		}
	case *mapValueNode[int, int]:
		return n.key, true
	case *mapHashCollisionNode[int, int]:
		if len(n.entries) > 0 {
			return n.entries[0].key, true
		}
	}
	return 0, false
}

// vhWalk returns the number of entries below n and whether the representation invariant holds there:
// every key sits on the path its hash prescribes, bitmap bits and child order agree with the children,
// hash-array counts are exact, leaves store the key's hash, collision entries share one hash, keys are distinct.
var vhSeen []vhKV // entries met by the last vhValid walk, in structure order

func vhWalk(n mapNode[int, int], shift uint, root bool, pfx []vhPfx) (int, bool) {
	switch n := n.(type) {
	case *mapArrayNode[int, int]:
		if !root || len(n.entries) < 1 || len(n.entries) > maxArrayMapSize {
			return 0, false
		}
		ok := true
		for i := range n.entries {
			for j := 0; j < i; j++ {
				ok = zz.BAnd(ok, n.entries[i].key != n.entries[j].key)
			}
			vhSeen = append(vhSeen, vhKV{n.entries[i].key, n.entries[i].value})
		}
		return len(n.entries), ok
	case *mapBitmapIndexedNode[int, int]:
		if len(n.nodes) < 1 {
			return 0, false
		}
		ok := bits.OnesCount32(n.bitmap) == len(n.nodes)
		total := 0
		var last uint32
		for i, c := range n.nodes {
			if c == nil {
				return 0, false
			}
			if _, isArr := c.(*mapArrayNode[int, int]); isArr {
				return 0, false
			}
			rk, has := vhRep(c)
			if !has {
				return 0, false
			}
			f := vhFrag(rk, shift)
			ok = zz.BAnd(ok, (n.bitmap>>f)&1 == 1)
			if i > 0 {
				ok = zz.BAnd(ok, f > last)
			}
			last = f
			cnt, cok := vhWalk(c, shift+mapNodeBits, false, append(append([]vhPfx{}, pfx...), vhPfx{shift, f}))
			ok = zz.BAnd(ok, cok)
			total += cnt
		}
		return total, ok
	case *mapHashArrayNode[int, int]:
		ok := true
		total, cnt := 0, uint(0)
		for b := uint32(0); b < mapNodeSize; b++ {
			c := n.nodes[b]
			if c == nil {
				continue
			}
			if _, isArr := c.(*mapArrayNode[int, int]); isArr {
				return 0, false
			}
			cnt++
			x, cok := vhWalk(c, shift+mapNodeBits, false, append(append([]vhPfx{}, pfx...), vhPfx{shift, b}))
			ok = zz.BAnd(ok, cok)
			total += x
		}
		if cnt != n.count || cnt == 0 {
			return 0, false
		}
		return total, ok
	case *mapValueNode[int, int]:
		vhSeen = append(vhSeen, vhKV{n.key, n.value})
		return 1, zz.BAnd(n.keyHash == vh.Hash(n.key), vhKeyOK(n.key, pfx))
	case *mapHashCollisionNode[int, int]:
		if len(n.entries) < 2 {
			return 0, false
		}
		ok := true
		for i := range n.entries {
			ok = zz.BAnd(ok, zz.BAnd(vh.Hash(n.entries[i].key) == n.keyHash, vhKeyOK(n.entries[i].key, pfx)))
			for j := 0; j < i; j++ {
				ok = zz.BAnd(ok, n.entries[i].key != n.entries[j].key)
			}
			vhSeen = append(vhSeen, vhKV{n.entries[i].key, n.entries[i].value})
		}
		return len(n.entries), ok
	}
	return 0, false
}

func vhValid(m *hamt[int, int]) (int, bool) {
	vhSeen = nil
	if m.root == nil {
		return 0, true
	}
	return vhWalk(m.root, 0, true, nil)
}

// abstract lookup in the pre-state (no branching)
func vhAbsGet(k int) (int, bool) {
	v, ok := 0, false
	for _, e := range vhKeys {
		hit := e.k == k
		v = zz.Ite(hit, e.v, v)
		ok = zz.BOr(ok, hit)
	}
	return v, ok
}

type vhOp struct {
	del  bool
	k, v int
}

func vhNewOp(name string) vhOp {
	return vhOp{del: zz.Bool(name + ".delete"), k: zz.Int(name + ".k"), v: zz.Int(name + ".v")}
}

func (o vhOp) apply(m *hamt[int, int]) *hamt[int, int] {
	if o.del {
		return m.Removed(o.k).(*hamt[int, int])
	}
	return m.Updated(o.k, o.v).(*hamt[int, int])
}

// abstract lookup after applying ops to the pre-state
func vhAbsGetAfter(k int, ops ...vhOp) (int, bool) {
	v, ok := vhAbsGet(k)
	for _, o := range ops {
		hit := o.k == k
		if o.del {
			ok = zz.BAnd(ok, !hit)
		} else {
			v = zz.Ite(hit, o.v, v)
			ok = zz.BOr(ok, hit)
		}
	}
	return v, ok
}

func vhAbsSizeAfter(ops ...vhOp) int {
	// the number of distinct keys: pre-state keys still present plus new keys
	n := 0
	for _, e := range vhKeys {
		_, ok := vhAbsGetAfter(e.k, ops...)
		n += zz.Ite(ok, 1, 0)
	}
	for i, o := range ops {
		_, inPre := vhAbsGet(o.k)
		dup := false
		for _, p := range ops[:i] {
			dup = zz.BOr(dup, p.k == o.k)
		}
		_, ok := vhAbsGetAfter(o.k, ops...)
		n += zz.Ite(zz.BAnd(ok, zz.BAnd(!inPre, !dup)), 1, 0)
	}
	return n
}

// every listed entry is in the abstract map with that value, listed keys are pairwise distinct, and there are
// `want` of them: hence the list is exactly the abstract map, every entry once
func vhSameEntries(es []vhKV, want int, ops []vhOp) bool {
	ok := len(es) == want
	for i := range es {
		ev, eok := vhAbsGetAfter(es[i].k, ops...)
		ok = zz.BAnd(ok, zz.BAnd(eok, ev == es[i].v))
		for j := 0; j < i; j++ {
			ok = zz.BAnd(ok, es[i].k != es[j].k)
		}
	}
	return ok
}

// vhAgrees checks a concrete map against the abstract one: representation invariant, stored entries (read from
// the node fields), Size, and the Iterator. None of this branches on symbolic data.
func vhAgrees(m *hamt[int, int], l string, ops ...vhOp) {
	want := vhAbsSizeAfter(ops...)
	cnt, ok := vhValid(m)
	zz.Assert(zz.BAnd(ok, cnt == want), l+": representation invariant holds and the trie stores Size entries")
	zz.Assert(vhSameEntries(vhSeen, want, ops), l+": the trie stores exactly the abstract map")
	zz.Assert(m.Size() == want, l+": Size is the number of distinct keys")
	it := m.Iterator()
	var es []vhKV
	for n := 0; it.HasNext(); n++ {
		if n > len(vhKeys)+len(ops) {
			zz.Assert(false, l+": Iterator yields more entries than the map can hold")
			return
		}
		t := it.Next()
		es = append(es, vhKV{t.I1, t.I2})
	}
	zz.Assert(vhSameEntries(es, want, ops), l+": Iterator yields every entry exactly once with its latest value")
}

// vhLookup checks Get for one symbolic probe key (this forks inside the code under test)
func vhLookup(m *hamt[int, int], l string, ops ...vhOp) {
	probe := zz.Int("probe")
	wv, wok := vhAbsGetAfter(probe, ops...)
	g := m.Get(probe)
	gok, gv := g.IsDefined(), 0
	if gok {
		gv = g.Get()
	}
	zz.Assert(zz.BAnd(gok == wok, zz.BOr(!wok, gv == wv)), l+": lookup returns the last value written or nothing")
}

// ---- the catalogue of shapes

// spare capacity everywhere: the persistent path must never write into it
func vhEntries(es ...vhKV) []mapEntry[int, int] {
	out := make([]mapEntry[int, int], 0, len(es)+1)
	for _, e := range es {
		out = append(out, mapEntry[int, int]{e.k, e.v})
	}
	return out
}

func vhNodes(ns ...mapNode[int, int]) []mapNode[int, int] {
	out := make([]mapNode[int, int], 0, len(ns)+1)
	return append(out, ns...)
}

// array root with n entries; the last `pinned` of them have fixed keys and hashes
func vhArrayRoot(n, pinned int) *hamt[int, int] {
	var es []vhKV
	for i := 0; i < n-pinned; i++ {
		es = append(es, vhNewKey("e"+string(rune('0'+i))))
	}
	for i := 0; i < pinned; i++ {
		e := vhKV{10000 + i, zz.Int("fv" + string(rune('a'+i)))}
		zz.Assume(vh.Hash(e.k) == uint32(i))
		for _, o := range vhKeys {
			zz.Assume(o.k != e.k)
		}
		vhKeys = append(vhKeys, e)
		es = append(es, e)
	}
	return vhMap(&mapArrayNode[int, int]{entries: vhEntries(es...)})
}

func vhMap(root mapNode[int, int]) *hamt[int, int] {
	return &hamt[int, int]{size: len(vhKeys), root: root, hasher: vh}
}

func vhCollision(name string, n int) (*mapHashCollisionNode[int, int], vhKV) {
	var es []vhKV
	for i := 0; i < n; i++ {
		e := vhNewKey(name + string(rune('0'+i)))
		if i > 0 {
			zz.Assume(vh.Hash(e.k) == vh.Hash(es[0].k))
		}
		es = append(es, e)
	}
	return &mapHashCollisionNode[int, int]{keyHash: vh.Hash(es[0].k), entries: vhEntries(es...)}, es[0]
}

// bitmap node at the given shift whose children are the given nodes (each with a representative key), assumed
// to be in fragment order and to share the prefix of the first one above this level
func vhBitmap(shift uint, children ...mapNode[int, int]) *mapBitmapIndexedNode[int, int] {
	var bm uint32
	var last uint32
	for i, c := range children {
		rk, _ := vhRep(c)
		f := vhFrag(rk, shift)
		if i > 0 {
			zz.Assume(f > last)
		}
		last = f
		bm |= 1 << f
	}
	return &mapBitmapIndexedNode[int, int]{bitmap: bm, nodes: vhNodes(children...)}
}

// hash-array node at shift 0 with `fixed` value leaves at fragments 0..fixed-1 (their hashes are pinned) and the
// given extra children at symbolic fragments >= fixed (pairwise different)
func vhHashArray(fixed int, extra ...mapNode[int, int]) *mapHashArrayNode[int, int] {
	n := &mapHashArrayNode[int, int]{}
	for i := 0; i < fixed; i++ {
		e := vhKV{10000 + i, zz.Int("fv" + string(rune('a'+i)))}
		zz.Assume(vh.Hash(e.k) == uint32(i))
		vhKeys = append(vhKeys, e)
		n.nodes[i] = vhLeaf(e)
		n.count++
	}
	for i, c := range extra {
		rk, _ := vhRep(c)
		f := vhFrag(rk, 0)
		// concrete slot, symbolic below: the slot index is chosen, the fragment is assumed
		slot := uint32(fixed + i)
		zz.Assume(f == slot)
		n.nodes[slot] = c
		n.count++
	}
	return n
}
