//verif:overlay internal/zzverif_h/c02/instances.go
package c02

import (
	"github.com/csgura/fp"
	zz "github.com/csgura/fp/internal/zzverif"
	"github.com/csgura/fp/iterator"
	"github.com/csgura/fp/list"
	"github.com/csgura/fp/monoid"
	"github.com/csgura/fp/seq"
)

// Typeclass instances that combine Try operands are Try combinators too: monoid.Try(m).Combine(a, b) and the
// Reduce/FoldMap folds built on it report the first failing operand's own error in left-to-right order and never
// call the inner Combine once an operand has failed.
func VH_c02_monoid_try_first_failure() {
	errs := []error{eA, eB, eC}
	var ts [3]fp.Try[int]
	first := -1
	for i := range ts {
		if zz.Bool("ok" + string(rune('1'+i))) {
			ts[i] = fp.Success(zz.Int("v" + string(rune('1'+i))))
		} else {
			ts[i] = fp.Failure[int](errs[i])
			if first < 0 {
				first = i
			}
		}
	}
	calls := 0
	m := monoid.Try(monoid.New(func() int { return 0 }, func(x, y int) int { calls++; return x + y }))
	check := func(r fp.Try[int], n int, l string) {
		f := -1
		for i := 0; i < n; i++ {
			if ts[i].IsFailure() && f < 0 {
				f = i
			}
		}
		if f >= 0 {
			zz.Assert(r.IsFailure() && r.Failed().Get() == errs[f], l+": the first failing operand's own error")
		} else {
			zz.Assert(r.IsSuccess(), l+": all operands succeeded")
		}
	}
	calls = 0
	ab := m.Combine(ts[0], ts[1])
	check(ab, 2, "monoid.Try.Combine")
	if ts[0].IsFailure() || ts[1].IsFailure() {
		zz.Assert(calls == 0, "monoid.Try.Combine: the inner Combine is not called when an operand failed")
	}
	xs := fp.Seq[fp.Try[int]]{ts[0], ts[1], ts[2]}
	check(seq.Reduce(xs, m), 3, "seq.Reduce over monoid.Try")
	check(iterator.Reduce(iterator.FromSeq(xs), m), 3, "iterator.Reduce over monoid.Try")
	check(list.Reduce(list.FromSeq(xs), m), 3, "list.Reduce over monoid.Try")
	check(seq.FoldMap(fp.Seq[int]{0, 1, 2}, m, func(i int) fp.Try[int] { return ts[i] }), 3, "seq.FoldMap over monoid.Try")
}
