// Package zzverif holds the verification intrinsics.
//
// Under the symbolic executor (/verif/engine) every function here is intercepted by name and given its
// symbolic meaning. The bodies below are the *native* meaning, used only when a counterexample found by the
// solver is replayed against the real build: nondeterministic values are read, in call order, from the tape
// that the engine extracted from the solver's model (env ZZVERIF_TAPE).
package zzverif

import (
	"encoding/json"
	"fmt"
	"os"
	"reflect"
	"runtime"
	"runtime/debug"
	"sort"
	"strings"
	"sync"
	"time"
)

type tapeValue struct {
	Kind string   `json:"kind"`
	Name string   `json:"name"`
	Val  uint64   `json:"val"`
	W    int      `json:"w"`
	Args []uint64 `json:"args,omitempty"`
}

type vector struct {
	Harness string      `json:"harness"`
	Tier    string      `json:"tier"`
	Tape    []tapeValue `json:"tape"`
	Sched   []int       `json:"sched"`
}

var (
	mu     sync.Mutex
	vec    vector
	pos    int
	loaded bool
)

// AssertFailed is the panic value raised by a failing Assert.
type AssertFailed struct{ Label string }

func (a AssertFailed) Error() string { return "ZZVERIF assertion failed: " + a.Label }

// Desync is raised when the native run asks for values in a different order than the symbolic run did.
type Desync struct{ Msg string }

func (d Desync) Error() string { return "ZZVERIF tape desync: " + d.Msg }

func load() {
	if loaded {
		return
	}
	loaded = true
	p := os.Getenv("ZZVERIF_TAPE")
	if p == "" {
		panic("ZZVERIF_TAPE not set: harnesses only run natively as a counterexample replay")
	}
	b, err := os.ReadFile(p)
	if err != nil {
		panic(err)
	}
	if err := json.Unmarshal(b, &vec); err != nil {
		panic(err)
	}
}

var ufTab map[string]uint64

func ufKey(name string, args []uint64) string { return fmt.Sprint(name, args) }

func next(kind string) tapeValue {
	mu.Lock()
	defer mu.Unlock()
	load()
	// "uf" entries are looked up by argument, "env" entries belong to environment stubs (encoding/json) that run
	// for real natively
	for pos < len(vec.Tape) && (vec.Tape[pos].Kind == "uf" || vec.Tape[pos].Kind == "env") {
		pos++
	}
	if pos >= len(vec.Tape) {
		panic(Desync{fmt.Sprintf("tape exhausted at %d asking for %s", pos, kind)})
	}
	t := vec.Tape[pos]
	pos++
	if t.Kind != kind {
		panic(Desync{fmt.Sprintf("tape[%d] is %s(%s), native run asked for %s", pos-1, t.Kind, t.Name, kind)})
	}
	return t
}

// uf looks the application up in the table extracted from the solver's model; applications the symbolic run
// never made are unconstrained and answer 0.
func uf(name string, args []int) uint64 {
	mu.Lock()
	defer mu.Unlock()
	load()
	if ufTab == nil {
		ufTab = map[string]uint64{}
		for _, t := range vec.Tape {
			if t.Kind == "uf" {
				ufTab[ufKey(t.Name, t.Args)] = t.Val
			}
		}
	}
	a := make([]uint64, len(args))
	for i, x := range args {
		a[i] = uint64(x)
	}
	return ufTab[ufKey(name, a)]
}

func Int(name string) int       { return int(int64(next("int").Val)) }
func Uint32(name string) uint32 { return uint32(next("u32").Val) }
func Uint64(name string) uint64 { return next("u64").Val }
func Byte(name string) byte     { return byte(next("byte").Val) }
func Bool(name string) bool     { return next("bool").Val != 0 }

func IntIn(name string, lo, hi int) int { return Int(name) }

// Time returns an arbitrary wall-clock instant without monotonic reading (UTC): seconds in +-2^40 around the
// Unix epoch, nanoseconds in [0, 1e9).
func Time(name string) time.Time {
	sec := Int(name + ".sec")
	nsec := Int(name + ".nsec")
	return time.Unix(int64(sec), int64(nsec)).UTC()
}

func Choice(name string, n int) int { return int(next("choice").Val) }

func Str(name string, maxLen int) string {
	n := Choice(name+".len", maxLen+1)
	b := make([]byte, n)
	for i := range b {
		b[i] = Byte("")
	}
	return string(b)
}

// SliceInt returns a slice with nondeterministic length (or nil), spare capacity and offset into a larger array.
func SliceInt(name string, maxLen, maxSpare, maxOff int) []int {
	n := Choice(name+".len", maxLen+2) - 1
	if n < 0 {
		return nil
	}
	spare := Choice(name+".spare", maxSpare+1)
	off := Choice(name+".off", maxOff+1)
	arr := make([]int, off+n+spare)
	for i := range arr {
		arr[i] = Int("")
	}
	return arr[off : off+n : off+n+spare]
}

func UFInt(name string, args ...int) int   { return int(int64(uf(name, args))) }
func UFBool(name string, args ...int) bool { return uf(name, args) != 0 }

func Assume(c bool) {
	if !c {
		panic(Desync{"assumption false in native run"})
	}
}

func Assert(c bool, label string) {
	if !c {
		panic(AssertFailed{label})
	}
}

// Non-forking boolean/integer combinators: under the engine they build one term instead of branching.
func BAnd(a, b bool) bool { return a && b }
func BOr(a, b bool) bool  { return a || b }
func BNot(a bool) bool    { return !a }
func Ite(c bool, a, b int) int {
	if c {
		return a
	}
	return b
}
func BIte(c, a, b bool) bool {
	if c {
		return a
	}
	return b
}
func Eq(a, b int) bool { return a == b }

func Reach(tag string) {}

func Bound(name string, quick, thorough int) int {
	load()
	if vec.Tier == "thorough" {
		return thorough
	}
	return quick
}

func Config(key string, v int) {}

// Freeze/CheckFrozen: natively a canonical deep rendering of everything reachable (following pointers,
// interfaces, slices over their whole backing array, maps; unexported fields included), compared later.
type snap struct {
	label string
	vals  []reflect.Value
	repr  []string
}

var snaps []snap

func Freeze(label string, vs ...any) {
	s := snap{label: label}
	for _, v := range vs {
		rv := reflect.ValueOf(v)
		s.vals = append(s.vals, rv)
		s.repr = append(s.repr, deepRepr(rv))
	}
	snaps = append(snaps, s)
}

func deepRepr(v reflect.Value) string {
	var sb strings.Builder
	seen := map[uintptr]int{}
	render(&sb, v, seen, 0)
	return sb.String()
}

func render(sb *strings.Builder, v reflect.Value, seen map[uintptr]int, d int) {
	if !v.IsValid() {
		sb.WriteString("<invalid>")
		return
	}
	if d > 200 {
		sb.WriteString("<deep>")
		return
	}
	switch v.Kind() {
	case reflect.Bool:
		fmt.Fprint(sb, v.Bool())
	case reflect.Int, reflect.Int8, reflect.Int16, reflect.Int32, reflect.Int64:
		fmt.Fprint(sb, v.Int())
	case reflect.Uint, reflect.Uint8, reflect.Uint16, reflect.Uint32, reflect.Uint64, reflect.Uintptr:
		fmt.Fprint(sb, v.Uint())
	case reflect.Float32, reflect.Float64:
		fmt.Fprint(sb, v.Float())
	case reflect.String:
		fmt.Fprintf(sb, "%q", v.String())
	case reflect.Ptr:
		if v.IsNil() {
			sb.WriteString("nil")
			return
		}
		if id, ok := seen[v.Pointer()]; ok {
			fmt.Fprintf(sb, "@%d", id)
			return
		}
		seen[v.Pointer()] = len(seen)
		sb.WriteString("&")
		render(sb, v.Elem(), seen, d+1)
	case reflect.Interface:
		if v.IsNil() {
			sb.WriteString("nil")
			return
		}
		sb.WriteString(v.Elem().Type().String() + ":")
		render(sb, v.Elem(), seen, d+1)
	case reflect.Slice:
		if v.IsNil() {
			sb.WriteString("nilslice")
			return
		}
		fmt.Fprintf(sb, "[len=%d cap=%d:", v.Len(), v.Cap())
		full := v.Slice3(0, v.Cap(), v.Cap())
		for i := 0; i < full.Len(); i++ {
			render(sb, full.Index(i), seen, d+1)
			sb.WriteByte(',')
		}
		sb.WriteByte(']')
	case reflect.Array:
		sb.WriteByte('[')
		for i := 0; i < v.Len(); i++ {
			render(sb, v.Index(i), seen, d+1)
			sb.WriteByte(',')
		}
		sb.WriteByte(']')
	case reflect.Struct:
		sb.WriteByte('{')
		for i := 0; i < v.NumField(); i++ {
			render(sb, v.Field(i), seen, d+1)
			sb.WriteByte(';')
		}
		sb.WriteByte('}')
	case reflect.Map:
		if v.IsNil() {
			sb.WriteString("nilmap")
			return
		}
		var ents []string
		it := v.MapRange()
		for it.Next() {
			var e strings.Builder
			render(&e, it.Key(), seen, d+1)
			e.WriteByte(':')
			render(&e, it.Value(), seen, d+1)
			ents = append(ents, e.String())
		}
		sort.Strings(ents)
		sb.WriteString("map" + strings.Join(ents, ",") + "]")
	case reflect.Func:
		if v.IsNil() {
			sb.WriteString("nilfunc")
		} else {
			sb.WriteString("func")
		}
	default:
		sb.WriteString(v.Kind().String())
	}
}

func CheckFrozen(label string) {
	for _, s := range snaps {
		if label != "" && s.label != label {
			continue
		}
		for i, v := range s.vals {
			if deepRepr(v) != s.repr[i] {
				panic(AssertFailed{"frozen[" + s.label + "] changed"})
			}
		}
	}
}

// Disjoint: no pointer target, non-empty slice backing array or Go map reachable from both values.
func Disjoint(a, b any) bool {
	sa, sb := &memSet{seen: map[uintptr]bool{}}, &memSet{seen: map[uintptr]bool{}}
	collect(reflect.ValueOf(a), sa, 0)
	collect(reflect.ValueOf(b), sb, 0)
	for _, x := range sa.iv {
		for _, y := range sb.iv {
			if x.lo < y.hi && y.lo < x.hi {
				return false
			}
		}
	}
	return true
}

// memSet: the mutable memory reachable from a value as address intervals - a pointer target, a slice's whole
// capacity range (so two windows of one backing array overlap whatever their offsets), a map header
type memIv struct{ lo, hi uintptr }

type memSet struct {
	seen map[uintptr]bool
	iv   []memIv
}

func (m *memSet) add(p, size uintptr) {
	if size == 0 {
		size = 1
	}
	m.iv = append(m.iv, memIv{p, p + size})
}

func collect(v reflect.Value, set *memSet, d int) {
	if !v.IsValid() || d > 50 {
		return
	}
	switch v.Kind() {
	case reflect.Ptr:
		if v.IsNil() || set.seen[v.Pointer()] {
			return
		}
		set.seen[v.Pointer()] = true
		set.add(v.Pointer(), v.Type().Elem().Size())
		collect(v.Elem(), set, d+1)
	case reflect.Slice:
		if v.IsNil() || v.Cap() == 0 {
			return
		}
		set.add(v.Pointer(), uintptr(v.Cap())*v.Type().Elem().Size())
		// the elements between len and cap are reachable by reslicing
		full := v.Slice3(0, v.Cap(), v.Cap())
		for i := 0; i < full.Len(); i++ {
			collect(full.Index(i), set, d+1)
		}
	case reflect.Map:
		if v.IsNil() {
			return
		}
		set.add(v.Pointer(), 1)
		it := v.MapRange()
		for it.Next() {
			collect(it.Key(), set, d+1)
			collect(it.Value(), set, d+1)
		}
	case reflect.Interface:
		if !v.IsNil() {
			collect(v.Elem(), set, d+1)
		}
	case reflect.Struct:
		for i := 0; i < v.NumField(); i++ {
			collect(v.Field(i), set, d+1)
		}
	case reflect.Array:
		for i := 0; i < v.Len(); i++ {
			collect(v.Index(i), set, d+1)
		}
	}
}

// DeepEq: content equality following references; nil and empty slices/maps are equal.
func DeepEq(a, b any) bool { return deepEq(reflect.ValueOf(a), reflect.ValueOf(b), 0) }

func deepEq(a, b reflect.Value, d int) bool {
	if !a.IsValid() || !b.IsValid() {
		return a.IsValid() == b.IsValid()
	}
	if a.Type() != b.Type() || d > 50 {
		return false
	}
	switch a.Kind() {
	case reflect.Ptr:
		if a.IsNil() || b.IsNil() {
			return a.IsNil() && b.IsNil()
		}
		return deepEq(a.Elem(), b.Elem(), d+1)
	case reflect.Slice:
		if a.Len() != b.Len() {
			return false
		}
		for i := 0; i < a.Len(); i++ {
			if !deepEq(a.Index(i), b.Index(i), d+1) {
				return false
			}
		}
		return true
	case reflect.Map:
		if a.Len() != b.Len() {
			return false
		}
		used := map[int]bool{}
		var bk, bv []reflect.Value // b's entries once, in one order (every range over a map starts somewhere else)
		for jt := b.MapRange(); jt.Next(); {
			bk, bv = append(bk, jt.Key()), append(bv, jt.Value())
		}
		it := a.MapRange()
		for it.Next() {
			// keys are matched structurally (a cloned pointer key is a different pointer, a NaN key matches a NaN
			// key); every entry of b is matched at most once
			found := false
			for j := range bk {
				if !used[j] && deepEq(it.Key(), bk[j], d+1) && deepEq(it.Value(), bv[j], d+1) {
					used[j] = true
					found = true
					break
				}
			}
			if !found {
				return false
			}
		}
		return true
	case reflect.Float32, reflect.Float64:
		x, y := a.Float(), b.Float()
		return x == y || (x != x && y != y)
	case reflect.Interface:
		if a.IsNil() || b.IsNil() {
			return a.IsNil() && b.IsNil()
		}
		return deepEq(a.Elem(), b.Elem(), d+1)
	case reflect.Struct:
		for i := 0; i < a.NumField(); i++ {
			if !deepEq(a.Field(i), b.Field(i), d+1) {
				return false
			}
		}
		return true
	case reflect.Array:
		for i := 0; i < a.Len(); i++ {
			if !deepEq(a.Index(i), b.Index(i), d+1) {
				return false
			}
		}
		return true
	case reflect.Func:
		return a.IsNil() == b.IsNil()
	}
	if a.CanInterface() && b.CanInterface() {
		return a.Interface() == b.Interface()
	}
	switch a.Kind() {
	case reflect.Bool:
		return a.Bool() == b.Bool()
	case reflect.Int, reflect.Int8, reflect.Int16, reflect.Int32, reflect.Int64:
		return a.Int() == b.Int()
	case reflect.Uint, reflect.Uint8, reflect.Uint16, reflect.Uint32, reflect.Uint64, reflect.Uintptr:
		return a.Uint() == b.Uint()
	case reflect.String:
		return a.String() == b.String()
	}
	return false
}

func StackMark()     {}
func PeakDepth() int { return 0 }

// ---- cooperative scheduler (native side of a concurrent counterexample replay)
//
// When the vector carries a schedule, every scheduling point of the symbolic run (spawn, atomic operation, mutex
// lock/unlock, once, task end, quiesce) has one entry naming the task that ran next. The instrumented library
// copies call SchedPoint at the same places, so the native run follows exactly that interleaving.

type ntask struct {
	id   int
	wake chan struct{}
	done bool
}

var (
	ntasks []*ntask
	ncur   *ntask
	spos   int

	fallbackSwitches int
)

func scheduled() bool { load(); return len(vec.Sched) > 0 }

func ensureMain() {
	if ncur == nil {
		ncur = &ntask{id: 0, wake: make(chan struct{})}
		ntasks = []*ntask{ncur}
	}
}

func nextSched() int {
	if spos >= len(vec.Sched) {
		return -1
	}
	v := vec.Sched[spos]
	spos++
	return v
}

func switchTo(t *ntask) {
	me := ncur
	ncur = t
	t.wake <- struct{}{}
	<-me.wake
	ncur = me
}

func Spawn(f func()) {
	if !scheduled() {
		go f()
		return
	}
	ensureMain()
	t := &ntask{id: len(ntasks), wake: make(chan struct{})}
	ntasks = append(ntasks, t)
	go func() {
		<-t.wake
		ncur = t
		defer func() {
			t.done = true
			if r := recover(); r != nil {
				fmt.Printf("ZZVERIF-OUTCOME goroutine panic:%v\n", r)
				os.Exit(3)
			}
			next := nextSched()
			if next < 0 || next >= len(ntasks) || ntasks[next].done {
				next = 0
			}
			ncur = ntasks[next]
			ntasks[next].wake <- struct{}{}
		}()
		f()
	}()
	SchedPoint("spawn")
}

// SchedPoint hands control to the task recorded for this point.
func SchedPoint(kind string) {
	if !scheduled() {
		runtime.Gosched()
		return
	}
	ensureMain()
	if len(ntasks) <= 1 {
		return
	}
	next := nextSched()
	if next < 0 && kind == "blocked" && ncur.id != 0 && !ntasks[0].done {
		// beyond the recorded schedule and unable to proceed: give control back to the main task
		switchTo(ntasks[0])
		return
	}
	if next < 0 || next == ncur.id || next >= len(ntasks) || ntasks[next].done {
		return
	}
	switchTo(ntasks[next])
}

func Yield() { SchedPoint("yield") }

func othersAlive() bool {
	for _, t := range ntasks {
		if t != ncur && !t.done {
			return true
		}
	}
	return false
}

// Quiesce lets all other tasks run (in recorded order) until none is left.
func Quiesce() {
	if !scheduled() {
		for i := 0; i < 200; i++ {
			runtime.Gosched()
			time.Sleep(time.Millisecond)
		}
		return
	}
	ensureMain()
	for othersAlive() {
		next := nextSched()
		if next < 0 {
			// the recorded schedule is used up although tasks are still alive (the symbolic run ended here, e.g. at
			// a failed assertion of another task): let the remaining tasks run on in task order, so that "not
			// completed" is only ever observed when a task really cannot finish
			fallbackSwitches++
			if fallbackSwitches > 2000 {
				break // the remaining tasks are blocked for good
			}
			for i := range ntasks {
				t := ntasks[(i+fallbackSwitches)%len(ntasks)]
				if t != ncur && !t.done {
					next = t.id
					break
				}
			}
			if next < 0 {
				break
			}
		}
		if next != ncur.id && next < len(ntasks) && !ntasks[next].done {
			switchTo(ntasks[next])
		}
	}
}

// MutexLock/MutexUnlock/OnceDo mirror the executor's model of sync.Mutex and sync.Once.
func MutexLock(mu *sync.Mutex) {
	if !scheduled() {
		mu.Lock()
		return
	}
	SchedPoint("mutex lock")
	for !mu.TryLock() {
		SchedPoint("blocked")
	}
}

func MutexUnlock(mu *sync.Mutex) {
	mu.Unlock()
	if scheduled() {
		SchedPoint("mutex unlock")
	}
}

var onceState = map[*sync.Once]int{}

func OnceDo(o *sync.Once, f func()) {
	if !scheduled() {
		o.Do(f)
		return
	}
	SchedPoint("once")
	switch onceState[o] {
	case 2:
		return
	case 1:
		for onceState[o] != 2 {
			SchedPoint("blocked")
		}
		return
	}
	onceState[o] = 1
	defer func() { onceState[o] = 2 }()
	f()
	onceState[o] = 2
	SchedPoint("once done")
}

func Replaying() bool { return true }

// RunReplay runs a harness natively and reports how it ended on stdout in a fixed format.
func RunReplay(name string, h func()) (outcome string) {
	defer func() {
		if r := recover(); r != nil {
			switch x := r.(type) {
			case AssertFailed:
				outcome = "assert:" + x.Label
			case Desync:
				outcome = "desync:" + x.Msg
			default:
				outcome = fmt.Sprintf("panic:%v", r)
			}
		}
		fmt.Printf("ZZVERIF-OUTCOME %s %s\n", name, outcome)
	}()
	debug.SetMaxStack(256 << 20)
	h()
	return "ok"
}
