package gosym

import (
	"fmt"
	"go/types"
	"os"
	"os/exec"
	"sort"
	"strings"
	"sync"
	"time"

	"golang.org/x/tools/go/packages"
	"golang.org/x/tools/go/ssa"
	"golang.org/x/tools/go/ssa/ssautil"

	"verif/engine/sym"
)

const ModulePath = "github.com/csgura/fp"

type Engine struct {
	Prog          *ssa.Program
	Pkgs          []*packages.Package
	Sizes         types.Sizes
	Tier          string
	RepoDir       string
	SolverBin     []string
	TimeoutMs     int
	MaxPaths      int
	MaxCex        int
	Workers       int
	runtimeErrT   types.Type
	LoadTime      time.Duration
	Defaults      Limits
	Verbose       bool
	WantWitness   func(h *Harness) bool
	MirrorBin     []string
	Disagreements int
	MirrorLost    int
	MirrorChecks  int
	MirrorSkipped int
}

func boolInt(b bool) int {
	if b {
		return 1
	}
	return 0
}

type Harness struct {
	Name    string
	Fn      *ssa.Function
	PkgPath string
	PkgName string
	Overlay string // virtual path under RepoDir
	Real    string // real file with the harness source
}

type HarnessResult struct {
	H          *Harness
	Paths      int
	Steps      int
	Ends       map[string]int
	Asserts    int
	Trivial    int
	Discharged int
	Inconcl    int
	Cexs       []*Cex
	Reached    map[string]bool
	Bounds     map[string]int
	Funcs      map[string]bool
	Stubs      map[string]bool
	Notes      map[string]bool
	Unsupp     map[string]int
	BoundMsgs  map[string]int
	Truncated  bool
	Queries    int
	SolverTime time.Duration
	Wall       time.Duration
	SampleVec  []int
	SampleDesc string
	Switches   int
	Witness    *Cex // a completed path with a model of its path condition, for native cross-validation
}

var stdInitWhitelist = map[string]bool{
	"math/bits": true, "io": true, "sort": true, "unicode/utf8": true, "strconv": true,
	"math": true, "slices": true, "cmp": true, "iter": true, "maps": true, "strings": true, "bytes": true,
	"hash/fnv": true, "hash": true, "time": false,
}

type fnInfo struct {
	idx map[ssa.Value]int
	n   int
}

var fnInfos sync.Map

func (e *Engine) fnInfo(fn *ssa.Function) *fnInfo {
	if v, ok := fnInfos.Load(fn); ok {
		return v.(*fnInfo)
	}
	fi := &fnInfo{idx: map[ssa.Value]int{}}
	add := func(v ssa.Value) {
		fi.idx[v] = fi.n
		fi.n++
	}
	for _, p := range fn.Params {
		add(p)
	}
	for _, fv := range fn.FreeVars {
		add(fv)
	}
	for _, b := range fn.Blocks {
		for _, in := range b.Instrs {
			if v, ok := in.(ssa.Value); ok {
				add(v)
			}
		}
	}
	v, _ := fnInfos.LoadOrStore(fn, fi)
	return v.(*fnInfo)
}

func (e *Engine) shouldInit(p *ssa.Package) bool {
	path := p.Pkg.Path()
	if strings.HasPrefix(path, ModulePath+"/internal/zzverif") && !strings.Contains(path, "zzverif_h") {
		return false
	}
	if path == ModulePath || strings.HasPrefix(path, ModulePath+"/") {
		return true
	}
	if strings.HasPrefix(path, "scratchmod/") {
		return !strings.HasSuffix(path, "/zzverif")
	}
	return stdInitWhitelist[path]
}

// Load type-checks and builds SSA for the given package patterns with the overlay applied.
func Load(repo string, overlay map[string][]byte, patterns []string) (*Engine, error) {
	t0 := time.Now()
	env := append(os.Environ(), "GOFLAGS=-mod=mod", "GOPROXY=off", "GOSUMDB=off", "GOTOOLCHAIN=local")
	cfg := &packages.Config{
		Mode:    packages.LoadAllSyntax,
		Dir:     repo,
		Overlay: overlay,
		Env:     env,
	}
	pkgs, err := packages.Load(cfg, patterns...)
	if err != nil {
		return nil, err
	}
	var errs []string
	packages.Visit(pkgs, nil, func(p *packages.Package) {
		for _, e := range p.Errors {
			errs = append(errs, e.Error())
		}
	})
	if len(errs) > 0 {
		if len(errs) > 30 {
			errs = errs[:30]
		}
		return nil, fmt.Errorf("package errors:\n%s", strings.Join(errs, "\n"))
	}
	prog, _ := ssautil.AllPackages(pkgs, ssa.InstantiateGenerics)
	prog.Build()
	e := &Engine{Prog: prog, Pkgs: pkgs, RepoDir: repo, Sizes: types.SizesFor("gc", "amd64"),
		SolverBin: []string{solverBin(), "-in"}, TimeoutMs: 20000, MaxPaths: 50000, MaxCex: 2, Workers: 8,
		Defaults: Limits{MaxDepth: 400, LoopBound: 64, MaxSteps: 2000000, MapPermMax: 3, Preempt: -1}}
	if rp := prog.ImportedPackage("runtime"); rp != nil {
		if t := rp.Type("errorString"); t != nil {
			e.runtimeErrT = t.Type()
		}
	}
	e.LoadTime = time.Since(t0)
	return e, nil
}

// Harnesses lists VH_* functions of the loaded root packages.
func (e *Engine) Harnesses() []*Harness {
	var hs []*Harness
	for _, p := range e.Pkgs {
		sp := e.Prog.Package(p.Types)
		if sp == nil {
			continue
		}
		var names []string
		for n, mem := range sp.Members {
			if f, ok := mem.(*ssa.Function); ok && strings.HasPrefix(n, "VH_") && f.Signature.Params().Len() == 0 {
				names = append(names, n)
			}
		}
		sort.Strings(names)
		for _, n := range names {
			f := sp.Func(n)
			pos := e.Prog.Fset.Position(f.Pos())
			hs = append(hs, &Harness{Name: n, Fn: f, PkgPath: p.PkgPath, PkgName: p.Name, Overlay: pos.Filename})
		}
	}
	return hs
}

func (e *Engine) newMachine(h *Harness, z *sym.Solver, item WorkItem) *Machine {
	return &Machine{E: e, S: sym.NewStore(), Z: z, H: h, Vec: append([]int(nil), item.Vec...), verify: item.Verify,
		Lim: e.Defaults, hints: item.Hints, globals: map[*ssa.Global]*Object{}, inited: map[*ssa.Package]bool{},
		nameCount: map[string]int{}, Reached: map[string]bool{}, Bounds: map[string]int{},
		StubsHit: map[string]bool{}, FuncsSeen: map[*ssa.Function]bool{}}
}

// runPath executes one path; returns how it ended.
func (e *Engine) runPath(h *Harness, z *sym.Solver, item WorkItem) (m *Machine, end PathEnd) {
	m = e.newMachine(h, z, item)
	z.BeginPath()
	defer z.EndPath()
	defer m.killTasks()
	defer func() {
		r := recover()
		if r == nil {
			return
		}
		switch x := r.(type) {
		case PathEnd:
			end = x
		case targetPanic:
			end = PathEnd{"panic", "uncaught panic: " + Describe(x.v)}
		case engineBug:
			end = PathEnd{"enginebug", x.msg}
			if e.Verbose {
				fmt.Printf("ENGINE BUG in %s: %s\n%s", h.Name, x.msg, x.trace)
			}
		default:
			end = PathEnd{"enginebug", fmt.Sprint(r)}
			if e.Verbose {
				fmt.Printf("ENGINE BUG in %s: %v\n", h.Name, r)
			}
		}
		if end.Kind == "panic" || end.Kind == "bound" || end.Kind == "deadlock" {
			if m.Cex == nil {
				if z.Check(m.S, nil, nil) != sym.Unsat {
					m.Cex = m.buildCex(end.Kind, end.Kind, end.Msg)
				} else {
					end = PathEnd{"infeasible", "path condition unsat at " + end.Kind}
				}
			}
		}
	}()
	m.callSSA(nil, h.Fn, nil, nil)
	if e.WantWitness != nil && e.WantWitness(h) {
		if z.Check(m.S, nil, nil) == sym.Sat {
			m.Witness = m.buildCex("witness", "ok", "completed path")
		}
	}
	return m, PathEnd{"done", ""}
}

func newResult(h *Harness) *HarnessResult {
	return &HarnessResult{H: h, Ends: map[string]int{}, Reached: map[string]bool{}, Bounds: map[string]int{},
		Funcs: map[string]bool{}, Stubs: map[string]bool{}, Notes: map[string]bool{}, Unsupp: map[string]int{}, BoundMsgs: map[string]int{}}
}

// absorb merges the outcome of one path into the harness result (caller holds the lock).
func (res *HarnessResult) absorb(e *Engine, m *Machine, end PathEnd) {
	if end.Kind == "infeasible" {
		res.Ends["infeasible"]++
		return
	}
	res.Paths++
	res.Steps += m.Steps
	res.Ends[end.Kind]++
	res.Asserts += m.Asserts
	res.Trivial += m.Trivial
	res.Discharged += m.Discharged
	res.Inconcl += m.Inconcl
	for k := range m.Reached {
		res.Reached[k] = true
	}
	for k, v := range m.Bounds {
		res.Bounds[k] = v
	}
	for f := range m.FuncsSeen {
		res.Funcs[f.String()] = true
	}
	for k := range m.StubsHit {
		if !strings.HasPrefix(k, ZZ) {
			res.Stubs[k] = true
		}
	}
	for _, n := range m.Notes {
		res.Notes[n] = true
	}
	if m.sched != nil {
		res.Switches += m.sched.switches
	}
	switch end.Kind {
	case "unsupported", "enginebug":
		res.Unsupp[end.Kind+": "+end.Msg]++
	case "bound":
		res.BoundMsgs[end.Msg]++
	}
	if m.Witness != nil && res.Witness == nil {
		res.Witness = m.Witness
	}
	if m.Cex != nil && len(res.Cexs) < e.MaxCex {
		res.Cexs = append(res.Cexs, m.Cex)
	}
	if end.Kind == "done" && (res.SampleVec == nil || len(m.Vec) > len(res.SampleVec)) && len(res.SampleDesc) < 2000 {
		res.SampleVec = append([]int(nil), m.Vec...)
		var sb strings.Builder
		for i, c := range m.PC {
			if i > 5 {
				sb.WriteString(" ∧ …")
				break
			}
			if i > 0 {
				sb.WriteString(" ∧ ")
			}
			s := c.String()
			if len(s) > 160 {
				s = s[:160] + "…"
			}
			sb.WriteString(s)
		}
		res.SampleDesc = sb.String()
	}
}

type job struct {
	hi   int
	item WorkItem
}

// RunAll explores all harnesses on a worker pool; paths of one harness are spread over all workers.
func (e *Engine) RunAll(hs []*Harness, progress func(*HarnessResult)) []*HarnessResult {
	out := make([]*HarnessResult, len(hs))
	pending := make([]int, len(hs)) // jobs queued or running per harness
	started := make([]time.Time, len(hs))
	var mu sync.Mutex
	cond := sync.NewCond(&mu)
	var queue []job
	for i, h := range hs {
		out[i] = newResult(h)
		pending[i] = 1
	}
	// seed in reverse so that harness 0 starts first (LIFO queue)
	for i := len(hs) - 1; i >= 0; i-- {
		queue = append(queue, job{i, WorkItem{}})
	}
	inflight := len(queue)
	var wg sync.WaitGroup
	for w := 0; w < e.Workers; w++ {
		wg.Add(1)
		go func() {
			defer wg.Done()
			z := sym.NewSolver(e.SolverBin, e.TimeoutMs)
			if len(e.MirrorBin) > 0 {
				z.Mirror = sym.NewSolver(e.MirrorBin, e.TimeoutMs)
			}
			defer func() {
				mu.Lock()
				e.Disagreements += z.Disagree
				e.MirrorChecks += z.MirrorChecks
				e.MirrorSkipped += z.MirrorSkipped
				e.MirrorLost += boolInt(len(e.MirrorBin) > 0 && z.Mirror == nil)
				mu.Unlock()
				z.Close()
			}()
			for {
				mu.Lock()
				for len(queue) == 0 && inflight > 0 {
					cond.Wait()
				}
				if len(queue) == 0 {
					mu.Unlock()
					cond.Broadcast()
					return
				}
				j := queue[len(queue)-1]
				queue = queue[:len(queue)-1]
				res := out[j.hi]
				if started[j.hi].IsZero() {
					started[j.hi] = time.Now()
				}
				skip := res.Truncated || len(res.Cexs) >= e.MaxCex
				if !skip && res.Paths >= e.MaxPaths {
					res.Truncated = true
					skip = true
				}
				mu.Unlock()
				var m *Machine
				var end PathEnd
				q0, t0 := z.Queries, z.Time
				if !skip {
					m, end = e.runPath(hs[j.hi], z, j.item)
				}
				mu.Lock()
				if !skip {
					res.absorb(e, m, end)
					res.Queries += z.Queries - q0
					res.SolverTime += z.Time - t0
					for _, nw := range m.NewWork {
						queue = append(queue, job{j.hi, nw})
						pending[j.hi]++
						inflight++
					}
				}
				pending[j.hi]--
				inflight--
				if pending[j.hi] == 0 {
					res.Wall = time.Since(started[j.hi])
					if progress != nil {
						progress(res)
					}
				}
				mu.Unlock()
				cond.Broadcast()
			}
		}()
	}
	wg.Wait()
	return out
}

// solverBin: z3 5.1.0 (z3-new) is preferred - z3 4.8.12 needs seconds for trivial UF+BV64 queries in long
// incremental sessions; VERIF_SOLVER overrides.
func solverBin() string {
	if v := os.Getenv("VERIF_SOLVER"); v != "" {
		return v
	}
	if _, err := exec.LookPath("z3-new"); err == nil {
		return "z3-new"
	}
	return "z3"
}
