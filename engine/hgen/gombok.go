package hgen

import (
	"fmt"
	"math/rand"
	"strings"
)

// C07: scratch programs for gombok @fp.Value. The generator under test (gombok) is run as a program on each
// scratch package; its OUTPUT is then executed symbolically together with a harness that is generated here from
// the same struct specification.

type Program struct {
	Pkg      string            // package (directory) name inside the scratch module
	Files    map[string][]byte // user sources (types.go) - gombok input
	Harness  map[string][]byte // harness files added after generation
	Desc     string
	NoGombok bool // support package: written as is, the generator is not run on it
}

type fieldKind int

const (
	kInt fieldKind = iota
	kString
	kBool
	kNamed
	kPtr
	kSlice
	kArray
	kMap
	kFunc
	kChan
	kAny
	kOption
	kTypeParam
	kOptionPtr // fp.Option[*int]: Some(nil) is a defined value
	nKinds
	// embedded struct fields (not drawn at random by index; added explicitly)
	kEmbedPriv  fieldKind = 100 // embedded struct whose fields are all private
	kEmbedPub   fieldKind = 101 // embedded struct with public fields
	kEmbedEmpty fieldKind = 102 // embedded empty struct: not part of tuples
)

var kindType = map[fieldKind]string{
	kInt: "int", kString: "string", kBool: "bool", kNamed: "MyInt", kPtr: "*int", kSlice: "[]int", kArray: "[2]int",
	kMap: "map[string]int", kFunc: "func()", kChan: "chan int", kAny: "any", kOption: "fp.Option[int]", kTypeParam: "T", kOptionPtr: "fp.Option[*int]",
	kEmbedPriv: "EmbP", kEmbedPub: "EmbQ", kEmbedEmpty: "EmbE",
}

type fieldSpec struct {
	name string
	kind fieldKind
	tag  string
}

func (f fieldSpec) embedded() bool   { return f.kind >= kEmbedPriv }
func (f fieldSpec) private() bool    { return f.name[0] >= 'a' && f.name[0] <= 'z' }
func (f fieldSpec) underscore() bool { return f.name[0] == '_' }
func (f fieldSpec) public() bool     { return f.name[0] >= 'A' && f.name[0] <= 'Z' }

func capName(n string) string { return strings.ToUpper(n[:1]) + n[1:] }

type structSpec struct {
	name     string
	fields   []fieldSpec
	json     bool
	labelled bool
	generic  bool   // one type parameter T, instantiated with int in the harness
	constr   string // constraint of T ("" = any): comparable, a union, a named constraint interface
}

func (s structSpec) typ() string {
	if s.generic {
		return s.name + "[int]"
	}
	return s.name
}

func (s structSpec) builder() string {
	if s.generic {
		return s.name + "Builder[int]"
	}
	return s.name + "Builder"
}

// fields that take part in tuples/maps/mutable (everything except _underscore fields)
func (s structSpec) visible() []fieldSpec {
	var out []fieldSpec
	for _, f := range s.fields {
		if !f.underscore() && f.kind != kEmbedEmpty {
			out = append(out, f)
		}
	}
	return out
}

func (s structSpec) source() string {
	var sb strings.Builder
	sb.WriteString("// @fp.Value\n")
	if s.json {
		sb.WriteString("// @fp.Json\n")
	}
	if s.labelled {
		sb.WriteString("// @fp.GenLabelled\n")
	}
	tp := ""
	if s.generic {
		c := s.constr
		if c == "" {
			c = "any"
		}
		tp = "[T " + c + "]"
	}
	sb.WriteString(fmt.Sprintf("type %s%s struct {\n", s.name, tp))
	for _, f := range s.fields {
		tag := ""
		if f.tag != "" {
			tag = " `" + f.tag + "`"
		}
		if f.embedded() {
			sb.WriteString(fmt.Sprintf("\t%s\n", kindType[f.kind]))
			continue
		}
		sb.WriteString(fmt.Sprintf("\t%s %s%s\n", f.name, kindType[f.kind], tag))
	}
	sb.WriteString("}\n\n")
	return sb.String()
}

func fieldType(f fieldSpec) string {
	if f.kind == kTypeParam {
		return "int"
	}
	return kindType[f.kind]
}

// expression producing a symbolic value of the field's kind
func mkExpr(f fieldSpec, tag string) string {
	n := fmt.Sprintf("%q", tag+"."+f.name)
	switch f.kind {
	case kInt, kTypeParam:
		return "zz.Int(" + n + ")"
	case kString:
		return "zz.Str(" + n + ", 2)"
	case kBool:
		return "zz.Bool(" + n + ")"
	case kNamed:
		return "MyInt(zz.Int(" + n + "))"
	case kPtr:
		return "vhPtr(" + n + ")"
	case kSlice:
		return "zz.SliceInt(" + n + ", 1, 0, 0)"
	case kArray:
		return "[2]int{zz.Int(" + n + "+\".0\"), zz.Int(" + n + "+\".1\")}"
	case kMap:
		return "vhMap(" + n + ")"
	case kFunc:
		return "vhFn(" + n + ")"
	case kChan:
		return "vhCh(" + n + ")"
	case kAny:
		return "vhAny(" + n + ")"
	case kOption:
		return "vhOpt(" + n + ")"
	case kOptionPtr:
		return "vhOptP(" + n + ")"
	case kEmbedPriv:
		return "EmbP{p1: zz.Int(" + n + "+\".p1\"), p2: zz.Str(" + n + "+\".p2\", 1)}"
	case kEmbedPub:
		return "EmbQ{Q1: zz.Int(" + n + "+\".q1\")}"
	case kEmbedEmpty:
		return "EmbE{}"
	}
	return "nil"
}

// somePayload: the value handed to WithSomeF / builder SomeF (a possibly nil pointer for Option[*int]); it is
// a format string with the two %d of the original (variable index, name index)
func somePayload(f fieldSpec) string {
	if f.kind == kOptionPtr {
		return "vhPtr(\"some%[2]d\")"
	}
	return "zz.Int(\"some%[2]d\")"
}

func eqExpr(f fieldSpec, a, b string) string {
	switch f.kind {
	case kSlice:
		return fmt.Sprintf("vhEqSlice(%s, %s)", a, b)
	case kMap:
		return fmt.Sprintf("vhEqMap(%s, %s)", a, b)
	case kFunc:
		return fmt.Sprintf("((%s == nil) == (%s == nil))", a, b)
	case kOption:
		return fmt.Sprintf("vhEqOpt(%s, %s)", a, b)
	case kOptionPtr:
		return fmt.Sprintf("vhEqOptP(%s, %s)", a, b)
	}
	return fmt.Sprintf("(%s == %s)", a, b)
}

const gombokHarnessPrelude = `
func vhPtr(n string) *int {
	if zz.Bool(n + ".nil") {
		return nil
	}
	v := zz.Int(n + ".v")
	return &v
}

func vhMap(n string) map[string]int {
	if zz.Bool(n + ".nil") {
		return nil
	}
	return map[string]int{"k": zz.Int(n + ".k")}
}

func vhFn(n string) func() {
	if zz.Bool(n + ".nil") {
		return nil
	}
	return func() {}
}

func vhCh(n string) chan int {
	if zz.Bool(n + ".nil") {
		return nil
	}
	return make(chan int, 1)
}

func vhAny(n string) any {
	switch zz.Choice(n+".shape", 3) {
	case 1:
		return zz.Int(n + ".i")
	case 2:
		return zz.Bool(n + ".b")
	}
	return nil
}

func vhOptP(n string) fp.Option[*int] {
	if zz.Bool(n + ".some") {
		return fp.Some(vhPtr(n + ".p"))
	}
	return fp.None[*int]()
}

func vhEqOptP(a, b fp.Option[*int]) bool {
	if a.IsDefined() != b.IsDefined() {
		return false
	}
	return a.IsEmpty() || a.Get() == b.Get()
}

func vhOpt(n string) fp.Option[int] {
	if zz.Bool(n + ".some") {
		return fp.Some(zz.Int(n + ".v"))
	}
	return fp.None[int]()
}

func vhEqSlice(a, b []int) bool {
	if len(a) != len(b) || (a == nil) != (b == nil) {
		return false
	}
	for i := range a {
		if a[i] != b[i] {
			return false
		}
	}
	return true
}

func vhEqMap(a, b map[string]int) bool {
	if len(a) != len(b) || (a == nil) != (b == nil) {
		return false
	}
	for k, v := range a {
		if w, ok := b[k]; !ok || w != v {
			return false
		}
	}
	return true
}

func vhEqOpt(a, b fp.Option[int]) bool {
	if a.IsDefined() != b.IsDefined() {
		return false
	}
	return a.IsEmpty() || a.Get() == b.Get()
}
`

func (s structSpec) harness(pkg string) string {
	var sb strings.Builder
	T := s.typ()
	// constructor of a symbolic instance and the field-wise equality
	sb.WriteString(fmt.Sprintf("func vhMk%s(tag string) %s {\n\treturn %s{\n", s.name, T, T))
	for _, f := range s.fields {
		sb.WriteString(fmt.Sprintf("\t\t%s: %s,\n", f.name, strings.ReplaceAll(mkExpr(f, "TAG"), "\"TAG.", "tag+\".")))
	}
	sb.WriteString("\t}\n}\n\n")
	sb.WriteString(fmt.Sprintf("func vhEq%s(x, y %s, except string) bool {\n\tok := true\n", s.name, T))
	for _, f := range s.fields {
		sb.WriteString(fmt.Sprintf("\tif except != %q {\n\t\tok = ok && %s\n\t}\n", f.name, eqExpr(f, "x."+f.name, "y."+f.name)))
	}
	sb.WriteString("\treturn ok\n}\n\n")
	// equality ignoring _underscore fields (they are not part of tuples / mutable twins)
	sb.WriteString(fmt.Sprintf("func vhEqVis%s(x, y %s) bool {\n\tok := true\n", s.name, T))
	for _, f := range s.visible() {
		sb.WriteString(fmt.Sprintf("\tok = ok && %s\n", eqExpr(f, "x."+f.name, "y."+f.name)))
	}
	sb.WriteString("\treturn ok\n}\n\n")

	h := func(name, body string) {
		sb.WriteString(fmt.Sprintf("func VH_c07_%s_%s_%s() {\n\tzz.Config(\"mapperm\", 0)\n%s}\n\n", pkg, s.name, name, body))
	}
	// getters and With
	var b strings.Builder
	b.WriteString(fmt.Sprintf("\tx := vhMk%s(\"x\")\n\tx0 := x\n\tzz.Assert(vhEq%s(x, x0, \"\"), \"copy equals original\")\n", s.name, s.name))
	for _, f := range s.fields {
		if !f.private() {
			continue
		}
		b.WriteString(fmt.Sprintf("\tzz.Assert(%s, %q)\n", eqExpr(f, "x."+capName(f.name)+"()", "x."+f.name), "getter "+capName(f.name)+" returns its field"))
	}
	for i, f := range s.fields {
		if !f.private() {
			continue
		}
		v := fmt.Sprintf("v%d", i)
		b.WriteString(fmt.Sprintf("\t%s := %s\n\ty%d := x.With%s(%s)\n", v, mkExpr(f, "new"), i, capName(f.name), v))
		b.WriteString(fmt.Sprintf("\tzz.Assert(%s, %q)\n", eqExpr(f, fmt.Sprintf("y%d.%s", i, f.name), v), "With"+capName(f.name)+" replaces the field"))
		b.WriteString(fmt.Sprintf("\tzz.Assert(vhEq%s(y%d, x, %q), %q)\n", s.name, i, f.name, "With"+capName(f.name)+" changes nothing else"))
		b.WriteString(fmt.Sprintf("\tzz.Assert(vhEq%s(x, x0, \"\"), %q)\n", s.name, "With"+capName(f.name)+" leaves the receiver unchanged"))
		if f.kind == kOption || f.kind == kOptionPtr {
			b.WriteString(fmt.Sprintf("\tw%d := "+somePayload(f)+"\n\ts%d := x.WithSome%s(w%d)\n\tzz.Assert(s%d.%s.IsDefined() && s%d.%s.Get() == w%d && vhEq%s(s%d, x, %q), %q)\n",
				i, i, i, capName(f.name), i, i, f.name, i, f.name, i, s.name, i, f.name, "WithSome"+capName(f.name)))
			b.WriteString(fmt.Sprintf("\tn%d := x.WithNone%s()\n\tzz.Assert(n%d.%s.IsEmpty() && vhEq%s(n%d, x, %q), %q)\n", i, capName(f.name), i, f.name, s.name, i, f.name, "WithNone"+capName(f.name)))
		}
	}
	h("getters_with", b.String())

	// builder
	b.Reset()
	b.WriteString(fmt.Sprintf("\tx := vhMk%s(\"x\")\n\tzz.Assert(vhEq%s(x.Builder().Build(), x, \"\"), %q)\n", s.name, s.name, "Builder().Build() is the identity"))
	chain := "x.Builder()"
	for i, f := range s.fields {
		if !f.private() {
			continue
		}
		b.WriteString(fmt.Sprintf("\tv%d := %s\n", i, mkExpr(f, "new")))
		chain += fmt.Sprintf(".%s(v%d)", capName(f.name), i)
	}
	b.WriteString("\ty := " + chain + ".Build()\n")
	for i, f := range s.fields {
		if f.private() {
			b.WriteString(fmt.Sprintf("\tzz.Assert(%s, %q)\n", eqExpr(f, "y."+f.name, fmt.Sprintf("v%d", i)), "builder setter "+capName(f.name)))
		} else {
			b.WriteString(fmt.Sprintf("\tzz.Assert(%s, %q)\n", eqExpr(f, "y."+f.name, "x."+f.name), "builder keeps "+f.name))
		}
	}
	for i, f := range s.fields {
		if f.private() && (f.kind == kOption || f.kind == kOptionPtr) {
			b.WriteString(fmt.Sprintf("\tw%d := "+somePayload(f)+"\n\tbs%d := x.Builder().Some%s(w%d).Build()\n\tzz.Assert(bs%d.%s.IsDefined() && bs%d.%s.Get() == w%d && vhEq%s(bs%d, x, %q), %q)\n",
				i, i, i, capName(f.name), i, i, f.name, i, f.name, i, s.name, i, f.name, "builder Some"+capName(f.name)))
			b.WriteString(fmt.Sprintf("\tbn%d := x.Builder().None%s().Build()\n\tzz.Assert(bn%d.%s.IsEmpty() && vhEq%s(bn%d, x, %q), %q)\n", i, capName(f.name), i, f.name, s.name, i, f.name, "builder None"+capName(f.name)))
		}
	}
	h("builder", b.String())

	// tuple / unapply / apply
	vis := s.visible()
	b.Reset()
	b.WriteString(fmt.Sprintf("\tx := vhMk%s(\"x\")\n\tt := x.AsTuple()\n", s.name))
	for i, f := range vis {
		b.WriteString(fmt.Sprintf("\tzz.Assert(%s, %q)\n", eqExpr(f, fmt.Sprintf("t.I%d", i+1), "x."+f.name), fmt.Sprintf("AsTuple position %d is field %s (declaration order)", i+1, f.name)))
	}
	b.WriteString(fmt.Sprintf("\tzz.Assert(vhEqVis%s(%s{}.FromTuple(t).Build(), x), %q)\n", s.name, s.builder(), "FromTuple(AsTuple(x)) = x"))
	us := make([]string, len(vis))
	for i := range vis {
		us[i] = fmt.Sprintf("u%d", i+1)
	}
	if len(vis) > 0 {
		b.WriteString(fmt.Sprintf("\t%s := x.Unapply()\n", strings.Join(us, ", ")))
		for i, f := range vis {
			b.WriteString(fmt.Sprintf("\tzz.Assert(%s, %q)\n", eqExpr(f, us[i], "x."+f.name), fmt.Sprintf("Unapply result %d is field %s", i+1, f.name)))
		}
		b.WriteString(fmt.Sprintf("\tzz.Assert(vhEqVis%s(%s{}.Apply(%s).Build(), x), %q)\n", s.name, s.builder(), strings.Join(us, ", "), "Apply(Unapply(x)) = x"))
	}
	if len(vis) < 22 { // max.Product: wider structs have no tuple form (AsTuple/FromTuple/Unapply/Apply are not generated)
		h("tuple", b.String())
	}

	// mutable twin
	b.Reset()
	b.WriteString(fmt.Sprintf("\tx := vhMk%s(\"x\")\n\tm := x.AsMutable()\n", s.name))
	for _, f := range vis {
		b.WriteString(fmt.Sprintf("\tzz.Assert(%s, %q)\n", eqExpr(f, "m."+capName(f.name), "x."+f.name), "AsMutable copies "+f.name))
	}
	b.WriteString(fmt.Sprintf("\tzz.Assert(vhEqVis%s(m.AsImmutable(), x), %q)\n", s.name, "AsImmutable(AsMutable(x)) = x"))
	h("mutable", b.String())

	// map
	b.Reset()
	b.WriteString(fmt.Sprintf("\tx := vhMk%s(\"x\")\n\tmp := x.AsMap()\n\tzz.Assert(vhEqVis%s(%s{}.FromMap(mp).Build(), x), %q)\n", s.name, s.name, s.builder(), "FromMap(AsMap(x)) = x"))
	h("asmap", b.String())

	if s.labelled {
		b.Reset()
		b.WriteString(fmt.Sprintf("\tx := vhMk%s(\"x\")\n\tl := x.AsLabelled()\n\tzz.Assert(vhEqVis%s(%s{}.FromLabelled(l).Build(), x), %q)\n", s.name, s.name, s.builder(), "FromLabelled(AsLabelled(x)) = x"))
		for i, f := range vis {
			b.WriteString(fmt.Sprintf("\tzz.Assert(%s, %q)\n", eqExpr(f, fmt.Sprintf("l.I%d.Value()", i+1), "x."+f.name), fmt.Sprintf("AsLabelled position %d is field %s", i+1, f.name)))
		}
		h("labelled", b.String())
	}
	return sb.String()
}

func mkProgram(pkg string, structs []structSpec, desc string) Program {
	var src strings.Builder
	src.WriteString("package " + pkg + "\n\nimport \"github.com/csgura/fp\"\n\n//go:generate gombok\n\nvar _ fp.Unit\n\ntype MyInt int\n\ntype Num interface {\n\t~int | ~int64\n}\n\ntype EmbP struct {\n\tp1 int\n\tp2 string\n}\n\ntype EmbQ struct {\n\tQ1 int\n}\n\ntype EmbE struct{}\n\n")
	for _, s := range structs {
		src.WriteString(s.source())
	}
	var hs strings.Builder
	hs.WriteString("package " + pkg + "\n\nimport (\n\t\"github.com/csgura/fp\"\n\tzz \"scratchmod/zzverif\"\n)\n\nvar _ fp.Unit\n" + gombokHarnessPrelude + "\n")
	for _, s := range structs {
		hs.WriteString(s.harness(pkg))
	}
	return Program{Pkg: pkg, Files: map[string][]byte{"types.go": []byte(src.String())}, Harness: map[string][]byte{"zz_verif_harness.go": []byte(hs.String())}, Desc: desc}
}

func fixedPrograms() [][]structSpec {
	all := []fieldSpec{{"a", kInt, ""}, {"b", kString, ""}, {"Pub", kBool, ""}, {"_hid", kInt, ""}, {"opt", kOption, ""}, {"optp", kOptionPtr, ""}, {"ptr", kPtr, ""}, {"sl", kSlice, ""}, {"arr", kArray, ""}, {"m", kMap, ""}, {"fn", kFunc, ""}, {"ch", kChan, ""}, {"an", kAny, ""}, {"nm", kNamed, ""}}
	return [][]structSpec{
		{{name: "One", fields: []fieldSpec{{"a", kInt, ""}}}},
		{{name: "Two", fields: []fieldSpec{{"a", kInt, ""}, {"b", kString, ""}}}, {name: "Pubs", fields: []fieldSpec{{"A", kInt, ""}, {"b", kBool, ""}, {"C", kString, ""}}}},
		{{name: "KindsA", fields: all[:7]}, {name: "KindsB", fields: append(append([]fieldSpec{}, all[7:]...), fieldSpec{"z", kInt, ""})}},
		{{name: "KindsJson", fields: all[:6], json: true}, {name: "KindsJson2", fields: all[5:10], json: true}},
		{{name: "Lab", fields: []fieldSpec{{"first", kInt, ""}, {"second", kString, ""}, {"Third", kBool, ""}}, labelled: true}},
		{{name: "Gen", fields: []fieldSpec{{"x", kTypeParam, ""}, {"n", kInt, ""}, {"o", kOption, ""}}, generic: true}},
		{{name: "Tagged", fields: []fieldSpec{{"a", kInt, `json:"alpha"`}, {"b", kString, `json:"beta,omitempty"`}, {"c", kOption, `json:"gamma"`}}, json: true}},
		{{name: "Under", fields: []fieldSpec{{"_x", kInt, ""}, {"y", kInt, ""}, {"_z", kString, ""}, {"w", kPtr, ""}}}},
		{{name: "Opts", fields: []fieldSpec{{"o1", kOption, ""}, {"o2", kOption, ""}, {"k", kInt, ""}}, json: true}},
		{{name: "Same", fields: []fieldSpec{{"a1", kInt, ""}, {"a2", kInt, ""}, {"a3", kInt, ""}, {"a4", kInt, ""}, {"a5", kInt, ""}, {"a6", kInt, ""}}}},
		{{name: "Refs", fields: []fieldSpec{{"p", kPtr, ""}, {"q", kPtr, ""}, {"s", kSlice, ""}, {"t", kSlice, ""}, {"m", kMap, ""}}}},
		{{name: "Wide", fields: wideFields(21)}},
		{{name: "Wider", fields: wideFields(23), json: true}},
		{{name: "Mixed", fields: []fieldSpec{{"Id", kInt, ""}, {"name", kString, ""}, {"_c", kBool, ""}, {"Data", kSlice, ""}, {"cb", kFunc, ""}}, json: true, labelled: false}},
		// field names that coincide with identifiers the generator uses itself (receiver r, parameters t/m/v, ok)
		{{name: "Names", fields: []fieldSpec{{"r", kInt, ""}, {"t", kString, ""}, {"m", kInt, ""}, {"v", kOption, ""}, {"ok", kBool, ""}}}},
		{{name: "Emb", fields: []fieldSpec{{"title", kString, ""}, {"EmbP", kEmbedPriv, ""}, {"EmbQ", kEmbedPub, ""}, {"EmbE", kEmbedEmpty, ""}, {"n", kInt, ""}}}},
		{{name: "EmbJson", fields: []fieldSpec{{"EmbQ", kEmbedPub, ""}, {"k", kInt, ""}, {"EmbP", kEmbedPriv, ""}}, json: true}},
		{{name: "GenRefs", fields: []fieldSpec{{"v", kTypeParam, ""}, {"p", kPtr, ""}, {"w", kTypeParam, ""}}, generic: true}},
		{{name: "GenCmp", fields: []fieldSpec{{"x", kTypeParam, ""}, {"o", kOption, ""}}, generic: true, constr: "comparable"}},
		{{name: "GenUnion", fields: []fieldSpec{{"x", kTypeParam, ""}, {"n", kInt, ""}}, generic: true, constr: "~int | ~int64"}},
		{{name: "GenNamed", fields: []fieldSpec{{"x", kTypeParam, ""}, {"s", kSlice, ""}}, generic: true, constr: "Num"}},
	}
}

func wideFields(n int) []fieldSpec {
	var fs []fieldSpec
	for i := 1; i <= n; i++ {
		k := kInt
		if i%5 == 0 {
			k = kString
		}
		if i%7 == 0 {
			k = kBool
		}
		fs = append(fs, fieldSpec{fmt.Sprintf("f%d", i), k, ""})
	}
	return fs
}

func randomStruct(r *rand.Rand, name string) structSpec {
	n := 1 + r.Intn(6)
	s := structSpec{name: name}
	generic := r.Intn(5) == 0
	s.generic = generic
	s.json = !generic && r.Intn(3) == 0
	s.labelled = !generic && r.Intn(4) == 0
	used := map[string]bool{}
	for i := 0; i < n; i++ {
		k := fieldKind(r.Intn(int(nKinds)))
		if k == kTypeParam && !generic {
			k = kInt
		}
		if s.labelled && (k == kFunc || k == kChan) {
			k = kString
		}
		base := fmt.Sprintf("f%c", 'a'+i)
		switch r.Intn(6) {
		case 0:
			base = capName(base)
		case 1:
			base = "_" + base
		}
		if used[strings.ToLower(strings.TrimPrefix(base, "_"))] {
			continue
		}
		used[strings.ToLower(strings.TrimPrefix(base, "_"))] = true
		tag := ""
		if s.json && r.Intn(3) == 0 && base[0] != '_' {
			tag = fmt.Sprintf("`json:\"j%d\"`", i)
			tag = strings.Trim(tag, "`")
		}
		s.fields = append(s.fields, fieldSpec{base, k, tag})
	}
	if !s.labelled && r.Intn(4) == 0 {
		k := []fieldKind{kEmbedPriv, kEmbedPub, kEmbedEmpty}[r.Intn(3)]
		s.fields = append(s.fields, fieldSpec{kindType[k], k, ""})
	}
	// at least one visible field
	vis := false
	for _, f := range s.fields {
		if !f.underscore() {
			vis = true
		}
	}
	if !vis {
		s.fields = append(s.fields, fieldSpec{"z", kInt, ""})
	}
	if generic {
		s.constr = []string{"", "", "comparable", "~int | ~int64", "Num"}[r.Intn(5)]
		has := false
		for _, f := range s.fields {
			if f.kind == kTypeParam {
				has = true
			}
		}
		if !has {
			s.fields = append(s.fields, fieldSpec{"tp", kTypeParam, ""})
		}
	}
	return s
}


// embedded types whose (promoted) hand-written methods are named like members gombok generates for the outer
// struct: the outer struct still gets its own getter/With for its own field (a promoted method is not a method
// declared on the outer type).
const embMethodsTypes = `package vm1

import "github.com/csgura/fp"

//go:generate gombok

var _ fp.Unit

type Base struct {
	label string
}

func (b Base) Label() string { return "base" }

func (b Base) WithLabel(v string) Base {
	b.label = v
	return b
}

type Source interface {
	Name() string
}

type FixedSource int

func (s FixedSource) Name() string { return "source" }

// @fp.Value
type Person struct {
	Base
	label string
	age   int
}

// @fp.Value
type Job struct {
	Source
	name string
	prio int
}
`

const embMethodsHarness = `package vm1

import (
	zz "scratchmod/zzverif"
)

func VH_c07_vm1_promoted_method_named_like_getter() {
	l, a := zz.Str("l", 1), zz.Int("a")
	p := Person{Base: Base{label: zz.Str("bl", 1)}, label: l, age: a}
	zz.Assert(p.Label() == l, "getter Label() returns the struct's own field label, not the promoted method of the embedded Base")
	nl := zz.Str("nl", 1)
	var q Person = p.WithLabel(nl)
	zz.Assert(q.label == nl && q.age == a && q.Base == p.Base, "WithLabel replaces field label of the Person and nothing else")
	zz.Assert(p.label == l, "WithLabel leaves the receiver alone")
	zz.Assert(p.Age() == a && p.WithAge(a+1).age == a+1 && p.WithAge(a+1).label == l, "getter/With of the other field")
}

func VH_c07_vm1_embedded_interface_method_named_like_getter() {
	n, pr := zz.Str("n", 1), zz.Int("p")
	j := Job{Source: FixedSource(1), name: n, prio: pr}
	zz.Assert(j.Name() == n, "getter Name() returns the struct's own field name, not the embedded interface's method")
	nn := zz.Str("nn", 1)
	var k Job = j.WithName(nn)
	zz.Assert(k.name == nn && k.prio == pr && k.Source == j.Source, "WithName replaces field name and nothing else")
}
`

func embMethodsProgram() Program {
	return Program{Pkg: "vm1", Files: map[string][]byte{"types.go": []byte(embMethodsTypes)}, Harness: map[string][]byte{"zz_verif_harness.go": []byte(embMethodsHarness)}, Desc: "fixed: embedded types with methods named like generated members"}
}

// Option fields over directional channel types (and a plain receive-only channel field): the payload type is
// rendered from go/types (direction included) in WithSomeF/WithNoneF, the builder's SomeF/NoneF and FromMap.
const chanDirTypes = `package vc1

import "github.com/csgura/fp"

//go:generate gombok

var _ fp.Unit

// @fp.Value
type Pipes struct {
	in   fp.Option[<-chan int]
	out  fp.Option[chan<- int]
	both fp.Option[chan int]
	raw  <-chan int
	n    int
}
`

const chanDirHarness = `package vc1

import (
	"github.com/csgura/fp"
	zz "scratchmod/zzverif"
)

func VH_c07_vc1_option_of_directional_channels() {
	c1, c2 := make(chan int, 1), make(chan int, 1)
	var r <-chan int = c1
	var w chan<- int = c2
	n := zz.Int("n")
	x := Pipes{raw: r, n: n}
	a := x.WithSomeIn(r)
	zz.Assert(a.in.IsDefined() && a.in.Get() == r && a.out.IsEmpty() && a.both.IsEmpty() && a.n == n && a.raw == r, "WithSomeIn sets the receive-only channel and nothing else")
	b := a.WithSomeOut(w).WithSomeBoth(c1)
	zz.Assert(b.out.IsDefined() && b.out.Get() == w && b.both.IsDefined() && b.both.Get() == c1 && b.in.Get() == r, "WithSomeOut / WithSomeBoth")
	c := b.WithNoneIn().WithNoneOut()
	zz.Assert(c.in.IsEmpty() && c.out.IsEmpty() && c.both.IsDefined() && c.n == n, "WithNoneIn / WithNoneOut")
	var o fp.Option[<-chan int] = b.In()
	zz.Assert(o.IsDefined() && o.Get() == r && b.Raw() == r, "getters return the fields")
	d := x.Builder().SomeIn(r).SomeOut(w).NoneBoth().Build()
	zz.Assert(d.in.Get() == r && d.out.Get() == w && d.both.IsEmpty() && d.n == n && d.raw == r, "builder SomeIn/SomeOut/NoneBoth")
	e := PipesBuilder{}.FromMap(b.AsMap()).Build()
	zz.Assert(e.in.IsDefined() && e.in.Get() == r && e.out.Get() == w && e.both.Get() == c1 && e.n == n && e.raw == r, "FromMap(AsMap(x)) = x")
}
`

func chanDirProgram() Program {
	return Program{Pkg: "vc1", Files: map[string][]byte{"types.go": []byte(chanDirTypes)}, Harness: map[string][]byte{"zz_verif_harness.go": []byte(chanDirHarness)}, Desc: "fixed: Option fields over directional channel types"}
}

// ValuePrograms returns the scratch programs of C07 for the tier and seed.
func ValuePrograms(tier string, seed int) []Program {
	var out []Program
	for i, ss := range fixedPrograms() {
		out = append(out, mkProgram(fmt.Sprintf("v%02d", i), ss, "fixed"))
	}
	out = append(out, embMethodsProgram(), chanDirProgram())
	nrand := 10
	if tier == "thorough" {
		nrand = 60
	}
	r := rand.New(rand.NewSource(int64(seed) + 7))
	for i := 0; i < nrand; i++ {
		pkg := fmt.Sprintf("r%02d", i)
		n := 1 + r.Intn(2)
		var ss []structSpec
		for j := 0; j < n; j++ {
			ss = append(ss, randomStruct(r, fmt.Sprintf("R%d", j)))
		}
		out = append(out, mkProgram(pkg, ss, fmt.Sprintf("random seed=%d", seed)))
	}
	return out
}
