package gosym

import (
	"fmt"
	"go/token"
	"go/types"
	"math"
	"unicode/utf8"

	"golang.org/x/tools/go/ssa"

	"verif/engine/sym"
)

func (m *Machine) unop(fr *frame, in *ssa.UnOp, x Value) Value {
	switch in.Op {
	case token.MUL: // load
		return m.Load(x.(PtrV))
	case token.NOT:
		return m.S.Not(x.(*sym.Term))
	case token.SUB:
		if f, ok := x.(FloatV); ok {
			return -f
		}
		return m.S.BvNeg(x.(*sym.Term))
	case token.XOR:
		return m.S.BvNot(x.(*sym.Term))
	case token.ARROW:
		v, ok := m.chanRecv(fr, x.(ChanV))
		if in.CommaOk {
			return TupleV{v, m.S.Bool(ok)}
		}
		return v
	}
	m.unsupported("unop " + in.Op.String())
	return nil
}

func (m *Machine) binop(op token.Token, tx, ty types.Type, x, y Value) Value {
	switch op {
	case token.EQL:
		return m.eqAny(tx, ty, x, y)
	case token.NEQ:
		return m.S.Not(m.eqAny(tx, ty, x, y))
	}
	switch a := x.(type) {
	case FloatV:
		b := y.(FloatV)
		switch op {
		case token.ADD:
			return a + b
		case token.SUB:
			return a - b
		case token.MUL:
			return a * b
		case token.QUO:
			return a / b
		case token.LSS:
			return m.S.Bool(a < b)
		case token.LEQ:
			return m.S.Bool(a <= b)
		case token.GTR:
			return m.S.Bool(a > b)
		case token.GEQ:
			return m.S.Bool(a >= b)
		}
		m.unsupported("float op " + op.String())
	case StrV:
		b := y.(StrV)
		switch op {
		case token.ADD:
			if a.Conc && b.Conc {
				return StrV{C: a.C + b.C, Conc: true}
			}
			ab, bb := m.sb(a), m.sb(b)
			nb := make([]*sym.Term, 0, len(ab)+len(bb))
			nb = append(nb, ab...)
			nb = append(nb, bb...)
			return StrV{B: nb}
		case token.LSS:
			return m.strLess(a, b)
		case token.GTR:
			return m.strLess(b, a)
		case token.LEQ:
			return m.S.Not(m.strLess(b, a))
		case token.GEQ:
			return m.S.Not(m.strLess(a, b))
		}
		m.unsupported("string op " + op.String())
	case *sym.Term:
		b := y.(*sym.Term)
		if a.W == 0 {
			switch op {
			case token.LAND, token.AND:
				return m.S.And(a, b)
			case token.LOR, token.OR:
				return m.S.Or(a, b)
			}
			m.unsupported("bool op " + op.String())
		}
		_, signed, _ := intInfo(tx)
		switch op {
		case token.ADD:
			return m.S.Bin("bvadd", a, b)
		case token.SUB:
			return m.S.Bin("bvsub", a, b)
		case token.MUL:
			return m.S.Bin("bvmul", a, b)
		case token.AND:
			return m.S.Bin("bvand", a, b)
		case token.OR:
			return m.S.Bin("bvor", a, b)
		case token.XOR:
			return m.S.Bin("bvxor", a, b)
		case token.AND_NOT:
			return m.S.Bin("bvand", a, m.S.BvNot(b))
		case token.QUO, token.REM:
			if m.Branch(m.S.Eq(b, m.S.Const(b.W, 0))) {
				m.runtimePanic("runtime error: integer divide by zero")
			}
			if op == token.QUO {
				if signed {
					return m.S.Bin("bvsdiv", a, b)
				}
				return m.S.Bin("bvudiv", a, b)
			}
			if signed {
				return m.S.Bin("bvsrem", a, b)
			}
			return m.S.Bin("bvurem", a, b)
		case token.SHL, token.SHR:
			_, ysigned, _ := intInfo(ty)
			if ysigned {
				if m.Branch(m.S.Cmp("bvslt", b, m.S.Const(b.W, 0))) {
					m.runtimePanic("runtime error: negative shift amount")
				}
			}
			// bring the count to a's width, saturating
			var cnt *sym.Term
			if b.W == a.W {
				cnt = b
			} else if b.W < a.W {
				cnt = m.S.Resize(b, a.W, false)
			} else {
				big := m.S.Cmp("bvule", m.S.Const(b.W, uint64(a.W)), b)
				cnt = m.S.Ite(big, m.S.Const(a.W, uint64(a.W)), m.S.Resize(b, a.W, false))
			}
			if op == token.SHL {
				return m.S.Bin("bvshl", a, cnt)
			}
			if signed {
				return m.S.Bin("bvashr", a, cnt)
			}
			return m.S.Bin("bvlshr", a, cnt)
		case token.LSS:
			if signed {
				return m.S.Cmp("bvslt", a, b)
			}
			return m.S.Cmp("bvult", a, b)
		case token.LEQ:
			if signed {
				return m.S.Cmp("bvsle", a, b)
			}
			return m.S.Cmp("bvule", a, b)
		case token.GTR:
			if signed {
				return m.S.Cmp("bvslt", b, a)
			}
			return m.S.Cmp("bvult", b, a)
		case token.GEQ:
			if signed {
				return m.S.Cmp("bvsle", b, a)
			}
			return m.S.Cmp("bvule", b, a)
		}
	}
	m.unsupported(fmt.Sprintf("binop %s on %T", op, x))
	return nil
}

func (m *Machine) eqAny(tx, ty types.Type, x, y Value) *sym.Term {
	// comparisons where one side is an interface and the other is not are made uniform by the SSA builder
	// (MakeInterface), so both static types agree except for nil constants.
	t := tx
	if _, ok := under(tx).(*types.Basic); ok && under(tx).(*types.Basic).Kind() == types.UntypedNil {
		t = ty
	}
	return m.Equal(t, x, y)
}

// ---- conversions

func (m *Machine) conv(dst, src types.Type, x Value) Value {
	ud, us := under(dst), under(src)
	switch us := us.(type) {
	case *types.Pointer:
		return x // to unsafe.Pointer or identical underlying
	case *types.Slice:
		if isString(ud) {
			s := x.(SliceV)
			el := m.sliceElems(s)
			if w, _, ok := intInfo(us.Elem()); ok && w == 8 {
				b := make([]*sym.Term, len(el))
				for i, e := range el {
					m.onAccess(PtrV{s.Arr, []int{s.Off + i}}, false)
					b[i] = e.(*sym.Term)
				}
				return StrV{B: b}
			}
			// []rune -> string: concrete only
			var out []byte
			for _, e := range el {
				t := e.(*sym.Term)
				if !t.IsConst() {
					m.unsupported("string([]rune) with symbolic runes")
				}
				out = utf8.AppendRune(out, rune(t.SVal()))
			}
			return m.MkStr(string(out))
		}
		return x
	case *types.Basic:
		if us.Kind() == types.UnsafePointer {
			return x
		}
		if us.Info()&types.IsString != 0 {
			if sl, ok := ud.(*types.Slice); ok {
				s := x.(StrV)
				if w, _, _ := intInfo(sl.Elem()); w == 8 {
					sbs := m.sb(s)
					arr := make(ArrayV, len(sbs))
					for i, b := range sbs {
						arr[i] = b
					}
					if len(arr) == 0 {
						return SliceV{Arr: m.newObj(arr, "bytes of empty string", sl.Elem()), Len: 0, Cap: 0}
					}
					return SliceV{Arr: m.newObj(arr, "bytes of string", sl.Elem()), Len: len(arr), Cap: len(arr)}
				}
				cs, ok := m.ConcreteStr(s)
				if !ok {
					m.unsupported("[]rune(string) with symbolic bytes")
				}
				rs := []rune(cs)
				arr := make(ArrayV, len(rs))
				for i, r := range rs {
					arr[i] = m.S.Const(32, uint64(r))
				}
				return SliceV{Arr: m.newObj(arr, "runes of string", sl.Elem()), Len: len(arr), Cap: len(arr)}
			}
			return x
		}
		if f, ok := x.(FloatV); ok {
			if w, signed, ok := intInfo(ud); ok {
				if signed {
					return m.S.Const(w, uint64(int64(f)))
				}
				return m.S.Const(w, uint64(f))
			}
			if isFloat(ud) {
				if b := ud.(*types.Basic); b.Kind() == types.Float32 {
					return FloatV(float32(f))
				}
				return f
			}
		}
		if t, ok := x.(*sym.Term); ok && t.W > 0 {
			_, ssigned, _ := intInfo(us)
			if w, _, ok := intInfo(ud); ok {
				return m.S.Resize(t, w, ssigned)
			}
			if isString(ud) {
				if !t.IsConst() {
					// string(rune): fork on ASCII
					if m.Branch(m.S.Cmp("bvult", t, m.S.Const(t.W, 0x80))) {
						return StrV{B: []*sym.Term{m.S.Resize(t, 8, false)}}
					}
					m.unsupported("string(rune) with symbolic non-ASCII rune")
				}
				return m.MkStr(string(rune(t.SVal())))
			}
			if isFloat(ud) {
				if !t.IsConst() {
					m.unsupported("int to float conversion of symbolic value")
				}
				if ssigned {
					return FloatV(float64(t.SVal()))
				}
				return FloatV(float64(t.C))
			}
		}
		if t, ok := x.(*sym.Term); ok && t.W == 0 && isBool(ud) {
			return x
		}
	default:
		return x
	}
	m.unsupported(fmt.Sprintf("conversion %v -> %v", src, dst))
	return nil
}

// ---- builtins

func (m *Machine) callBuiltin(caller *frame, b *ssa.Builtin, args []Value, pos token.Pos) Value {
	switch b.Name() {
	case "append":
		return m.appendOp(b, args)
	case "copy":
		dst := args[0].(SliceV)
		var src []Value
		switch s := args[1].(type) {
		case SliceV:
			src = m.sliceElems(s)
			for i := range src {
				m.onAccess(PtrV{s.Arr, []int{s.Off + i}}, false)
			}
		case StrV:
			for _, t := range m.sb(s) {
				src = append(src, t)
			}
		}
		n := dst.Len
		if len(src) < n {
			n = len(src)
		}
		if n > 0 {
			arr := dst.Arr.Val.(ArrayV)
			na := make(ArrayV, len(arr))
			copy(na, arr)
			tmp := make([]Value, n)
			copy(tmp, src[:n])
			for i := 0; i < n; i++ {
				m.onAccess(PtrV{dst.Arr, []int{dst.Off + i}}, true)
				na[dst.Off+i] = tmp[i]
			}
			dst.Arr.Val = na
		}
		return m.S.Const(64, uint64(n))
	case "len":
		switch x := args[0].(type) {
		case StrV:
			return m.S.Const(64, uint64(x.Len()))
		case SliceV:
			return m.S.Const(64, uint64(x.Len))
		case ArrayV:
			return m.S.Const(64, uint64(len(x)))
		case PtrV:
			at := under(under(b.Type().(*types.Signature).Params().At(0).Type()).(*types.Pointer).Elem()).(*types.Array)
			return m.S.Const(64, uint64(at.Len()))
		case MapV:
			if x.M == nil {
				return m.S.Const(64, 0)
			}
			return m.S.Const(64, uint64(len(x.M.Entries)))
		case ChanV:
			if x.C == nil {
				return m.S.Const(64, 0)
			}
			return m.S.Const(64, uint64(len(x.C.Buf)))
		}
	case "cap":
		switch x := args[0].(type) {
		case SliceV:
			return m.S.Const(64, uint64(x.Cap))
		case ArrayV:
			return m.S.Const(64, uint64(len(x)))
		case ChanV:
			if x.C == nil {
				return m.S.Const(64, 0)
			}
			return m.S.Const(64, uint64(x.C.Cap))
		}
	case "delete":
		m.mapDelete(args[0].(MapV), args[1])
		return nil
	case "clear":
		switch x := args[0].(type) {
		case MapV:
			if x.M != nil {
				x.M.Entries = nil
			}
			return nil
		case SliceV:
			if x.Len > 0 {
				et := under(b.Type().(*types.Signature).Params().At(0).Type()).(*types.Slice).Elem()
				arr := x.Arr.Val.(ArrayV)
				na := make(ArrayV, len(arr))
				copy(na, arr)
				for i := 0; i < x.Len; i++ {
					na[x.Off+i] = m.Zero(et)
				}
				x.Arr.Val = na
			}
			return nil
		}
	case "print", "println":
		return nil
	case "panic":
		panic(targetPanic{args[0]})
	case "recover":
		return m.doRecover(caller)
	case "close":
		c := args[0].(ChanV)
		if c.C == nil {
			m.runtimePanic("close of nil channel")
		}
		if c.C.Closed {
			m.runtimePanic("close of closed channel")
		}
		c.C.Closed = true
		m.schedPoint("chan close")
		return nil
	case "min", "max":
		r := args[0]
		sig := b.Type().(*types.Signature)
		t := sig.Params().At(0).Type()
		for _, a := range args[1:] {
			var lt *sym.Term
			if b.Name() == "min" {
				lt = m.binop(token.LSS, t, t, a, r).(*sym.Term)
			} else {
				lt = m.binop(token.LSS, t, t, r, a).(*sym.Term)
			}
			if ta, ok := a.(*sym.Term); ok {
				r = m.S.Ite(lt, ta, r.(*sym.Term))
			} else if m.Branch(lt) {
				r = a
			}
		}
		return r
	case "SliceData": // unsafe.SliceData: pointer to the first element of the backing window
		s := args[0].(SliceV)
		if s.Arr == nil {
			return PtrV{}
		}
		return PtrV{s.Arr, []int{s.Off}}
	case "String": // unsafe.String(ptr *byte, len): the bytes ptr[0:len] as a string (strings.Builder.String)
		p := args[0].(PtrV)
		n, ok := args[1].(*sym.Term)
		if !ok || !n.IsConst() {
			m.unsupported("unsafe.String with symbolic length")
		}
		ln := int(n.C)
		if ln == 0 {
			return StrV{Conc: true}
		}
		if p.Obj == nil || len(p.Path) != 1 {
			m.unsupported("unsafe.String of a pointer that is not a slice element")
		}
		arr, ok := p.Obj.Val.(ArrayV)
		if !ok || p.Path[0]+ln > len(arr) {
			m.unsupported("unsafe.String beyond its backing array")
		}
		bs := make([]*sym.Term, ln)
		for i := 0; i < ln; i++ {
			m.onAccess(PtrV{p.Obj, []int{p.Path[0] + i}}, false)
			bs[i] = arr[p.Path[0]+i].(*sym.Term)
		}
		return StrV{B: bs}
	case "ssa:wrapnilchk":
		p := args[0].(PtrV)
		if p.Obj == nil {
			m.runtimePanic("value method called using nil pointer")
		}
		return p
	}
	m.unsupported("builtin " + b.Name())
	return nil
}

func (m *Machine) doRecover(caller *frame) Value {
	if caller != nil && caller.caller != nil && caller.caller.panicking {
		caller.caller.panicking = false
		p := caller.caller.panicV
		caller.caller.panicV = nil
		if tp, ok := p.(targetPanic); ok {
			if tp.v == nil {
				return IfaceV{}
			}
			return tp.v
		}
		panic(p)
	}
	return IfaceV{}
}

// ---- append with the runtime's growth rule

var sizeClasses = []int{0, 8, 16, 24, 32, 48, 64, 80, 96, 112, 128, 144, 160, 176, 192, 208, 224, 240, 256, 288, 320, 352, 384, 416, 448, 480, 512, 576, 640, 704, 768, 896, 1024, 1152, 1280, 1408, 1536, 1792, 2048, 2304, 2688, 3072, 3200, 3456, 4096, 4864, 5120, 5376, 6144, 6528, 6784, 6912, 8192, 9472, 9728, 10240, 10880, 12288, 13568, 14336, 16384, 18432, 19072, 20480, 21760, 24576, 27264, 28672, 32768}

func roundupsize(size int, noscan bool) int {
	if size <= 32768-8 {
		reqSize := size
		if !noscan && reqSize > 512 {
			reqSize += 8
		}
		for _, c := range sizeClasses {
			if c >= reqSize {
				return c - (reqSize - size)
			}
		}
	}
	// large: round up to page size
	const page = 8192
	return (size + page - 1) / page * page
}

// GrowCap mirrors runtime.growslice's capacity computation (Go 1.20+).
func GrowCap(oldCap, newLen, elemSize int, noscan bool) int {
	newcap := oldCap
	doublecap := newcap + newcap
	if newLen > doublecap {
		newcap = newLen
	} else {
		const threshold = 256
		if oldCap < threshold {
			newcap = doublecap
		} else {
			for {
				newcap += (newcap + 3*threshold) >> 2
				if uint(newcap) >= uint(newLen) {
					break
				}
			}
		}
	}
	if elemSize == 0 {
		return newcap
	}
	mem := roundupsize(newcap*elemSize, noscan)
	return mem / elemSize
}

func hasPointers(t types.Type) bool {
	switch u := under(t).(type) {
	case *types.Basic:
		return u.Kind() == types.String || u.Kind() == types.UnsafePointer
	case *types.Struct:
		for i := 0; i < u.NumFields(); i++ {
			if hasPointers(u.Field(i).Type()) {
				return true
			}
		}
		return false
	case *types.Array:
		return u.Len() > 0 && hasPointers(u.Elem())
	}
	return true
}

func (m *Machine) appendOp(b *ssa.Builtin, args []Value) Value {
	s := args[0].(SliceV)
	var add []Value
	switch a := args[1].(type) {
	case SliceV:
		add = m.sliceElems(a)
		for i := range add {
			m.onAccess(PtrV{a.Arr, []int{a.Off + i}}, false)
		}
	case StrV:
		for _, t := range m.sb(a) {
			add = append(add, t)
		}
	}
	if len(add) == 0 {
		return s
	}
	et := under(b.Type().(*types.Signature).Params().At(0).Type()).(*types.Slice).Elem()
	newLen := s.Len + len(add)
	if newLen <= s.Cap {
		arr := s.Arr.Val.(ArrayV)
		na := make(ArrayV, len(arr))
		copy(na, arr)
		for i, v := range add {
			m.onAccess(PtrV{s.Arr, []int{s.Off + s.Len + i}}, true)
			na[s.Off+s.Len+i] = v
		}
		s.Arr.Val = na
		return SliceV{Arr: s.Arr, Off: s.Off, Len: newLen, Cap: s.Cap}
	}
	esz := int(m.E.Sizes.Sizeof(et))
	nc := GrowCap(s.Cap, newLen, esz, !hasPointers(et))
	if nc < newLen {
		nc = newLen
	}
	if nc > 8192 {
		m.end("bound", "append grows beyond 8192 elements")
	}
	na := make(ArrayV, nc)
	old := m.sliceElems(s)
	for i := range old {
		m.onAccess(PtrV{s.Arr, []int{s.Off + i}}, false)
	}
	copy(na, old)
	copy(na[s.Len:], add)
	if nc > newLen {
		z := m.Zero(et)
		for i := newLen; i < nc; i++ {
			na[i] = z
		}
	}
	return SliceV{Arr: m.newObj(na, "grown backing array", et), Off: 0, Len: newLen, Cap: nc}
}

var _ = math.MaxInt
