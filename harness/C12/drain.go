//verif:overlay internal/zzverif_h/iters/c12.go
package iters

import (
	zz "github.com/csgura/fp/internal/zzverif"
)

// drain: the iterator yields exactly the eager result, in order, and terminates
func drain(p prod) {
	n := zz.Bound("inlen12", 3, 4)
	in := zz.SliceInt("in", n, 0, 0)
	it, exp := p.mk(in)
	var got []int
	for it.HasNext() {
		got = append(got, it.Next())
	}
	zz.Assert(sliceEq(got, exp), p.name+": same elements in the same order as the eager computation")
	zz.Assert(!it.HasNext(), p.name+": stays exhausted")
}

func VH_c12_drain_FromSeq()         { drain(find("FromSeq")) }
func VH_c12_drain_FromSlice()       { drain(find("FromSlice")) }
func VH_c12_drain_Of()              { drain(find("Of")) }
func VH_c12_drain_IteratorOfSeq()   { drain(find("IteratorOfSeq")) }
func VH_c12_drain_Empty()           { drain(find("Empty")) }
func VH_c12_drain_ReverseSeq()      { drain(find("ReverseSeq")) }
func VH_c12_drain_ReverseSlice()    { drain(find("ReverseSlice")) }
func VH_c12_drain_FromOption()      { drain(find("FromOption")) }
func VH_c12_drain_FromPtr()         { drain(find("FromPtr")) }
func VH_c12_drain_FromList()        { drain(find("FromList")) }
func VH_c12_drain_List()            { drain(find("List")) }
func VH_c12_drain_ToList_FromList() { drain(find("ToList_FromList")) }
func VH_c12_drain_Take()            { drain(find("Take")) }
func VH_c12_drain_Drop()            { drain(find("Drop")) }
func VH_c12_drain_TakeWhile()       { drain(find("TakeWhile")) }
func VH_c12_drain_DropWhile()       { drain(find("DropWhile")) }
func VH_c12_drain_Filter()          { drain(find("Filter")) }
func VH_c12_drain_FilterNot()       { drain(find("FilterNot")) }
func VH_c12_drain_TapEach()         { drain(find("TapEach")) }
func VH_c12_drain_Appended()        { drain(find("Appended")) }
func VH_c12_drain_MethodConcat()    { drain(find("MethodConcat")) }
func VH_c12_drain_MethodConcat3()   { drain(find("MethodConcat3")) }
func VH_c12_drain_MethodMap()       { drain(find("MethodMap")) }
func VH_c12_drain_MethodFlatMap()   { drain(find("MethodFlatMap")) }
func VH_c12_drain_Map()             { drain(find("Map")) }
func VH_c12_drain_Lift()            { drain(find("Lift")) }
func VH_c12_drain_FlatMap()         { drain(find("FlatMap")) }
func VH_c12_drain_Flatten()         { drain(find("Flatten")) }
func VH_c12_drain_FilterMap()       { drain(find("FilterMap")) }
func VH_c12_drain_Compose()         { drain(find("Compose")) }
func VH_c12_drain_ComposePure()     { drain(find("ComposePure")) }
func VH_c12_drain_Concat()          { drain(find("Concat")) }
func VH_c12_drain_Ap()              { drain(find("Ap")) }
func VH_c12_drain_FlapMap_Method1() { drain(find("FlapMap_Method1")) }
func VH_c12_drain_Flap()            { drain(find("Flap")) }
func VH_c12_drain_Zip()             { drain(find("Zip")) }
func VH_c12_drain_ZipWithIndex()    { drain(find("ZipWithIndex")) }
func VH_c12_drain_Zip3()            { drain(find("Zip3")) }
func VH_c12_drain_Scan()            { drain(find("Scan")) }
func VH_c12_drain_Range()           { drain(find("Range")) }
func VH_c12_drain_RangeClosed()     { drain(find("RangeClosed")) }
func VH_c12_drain_GenerateTake()    { drain(find("GenerateTake")) }
func VH_c12_drain_SeqMethods()      { drain(find("SeqMethods")) }

func VH_c12_drain_Concat_MethodMap_Concat()    { drain(find("Concat_MethodMap_Concat")) }
func VH_c12_drain_Concat_MethodFilter_Concat() { drain(find("Concat_MethodFilter_Concat")) }
