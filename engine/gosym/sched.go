package gosym

import (
	"fmt"
)

// Cooperative task scheduler. Every task runs on its own goroutine, but only one is ever awake; control is
// handed over explicitly at scheduling points, and the choice of the next task is a decision of the path.

type task struct {
	id      int
	wake    chan struct{}
	done    bool
	started bool
	cond    func() bool // non-nil: blocked until cond() is true
	fn      FuncV
	args    []Value
	name    string
}

type scheduler struct {
	tasks    []*task
	cur      *task
	trace    []int
	abort    interface{} // PathEnd or engine panic raised in a non-main task
	dying    bool
	switches int
	preempt  int // preemptive switches so far
	maxPre   int // -1 unbounded
}

func (m *Machine) ensureSched() *scheduler {
	if m.sched == nil {
		main := &task{id: 0, wake: make(chan struct{}), started: true, name: "main"}
		m.sched = &scheduler{tasks: []*task{main}, cur: main, maxPre: m.Lim.Preempt}
	}
	return m.sched
}

func (m *Machine) spawn(fr *frame, fn FuncV, args []Value) {
	s := m.ensureSched()
	t := &task{id: len(s.tasks), wake: make(chan struct{}), fn: fn, args: args}
	if fn.Fn != nil {
		t.name = fn.Fn.Name()
	}
	s.tasks = append(s.tasks, t)
	if len(s.tasks) > 64 {
		m.end("bound", "more than 64 tasks")
	}
	go m.taskMain(t)
	m.schedPoint("spawn")
}

func (m *Machine) taskMain(t *task) {
	s := m.sched
	<-t.wake
	if s.dying {
		return
	}
	t.started = true
	defer func() {
		r := recover()
		t.done = true
		if r != nil {
			if pe, ok := r.(PathEnd); ok && pe.Kind == "killed" {
				return
			}
			if tp, ok := r.(targetPanic); ok {
				r = PathEnd{"panic", "uncaught panic in goroutine " + t.name + ": " + Describe(tp.v)}
			}
			if s.abort == nil {
				s.abort = r
			}
		}
		if s.dying {
			return
		}
		// hand control to somebody else
		if s.abort != nil {
			main := s.tasks[0]
			s.cur = main
			main.wake <- struct{}{}
			return
		}
		func() {
			defer func() {
				if r2 := recover(); r2 != nil {
					if s.abort == nil {
						s.abort = r2
					}
					main := s.tasks[0]
					s.cur = main
					main.wake <- struct{}{}
				}
			}()
			en := m.enabled(nil)
			if len(en) == 0 {
				m.end("deadlock", "all tasks blocked")
			}
			k := m.Choose(len(en))
			next := en[k]
			s.trace = append(s.trace, next.id)
			s.cur = next
			next.wake <- struct{}{}
		}()
	}()
	m.depth = 0
	m.callSSA(nil, t.fn.Fn, t.args, t.fn.Env)
}

// enabled returns runnable tasks; `first` (if runnable) is placed first so that alternative 0 means "continue".
func (m *Machine) enabled(first *task) []*task {
	s := m.sched
	var en []*task
	if first != nil && !first.done && (first.cond == nil || first.cond()) {
		en = append(en, first)
	}
	for _, t := range s.tasks {
		if t == first || t.done {
			continue
		}
		if t.cond == nil || t.cond() {
			en = append(en, t)
		}
	}
	return en
}

func (m *Machine) switchTo(next *task) {
	s := m.sched
	prev := s.cur
	if next == prev {
		return
	}
	s.switches++
	s.cur = next
	savedDepth := m.depth
	next.wake <- struct{}{}
	<-prev.wake
	m.depth = savedDepth
	if s.dying {
		panic(PathEnd{"killed", ""})
	}
	if s.abort != nil && prev.id == 0 {
		a := s.abort
		panic(a)
	}
}

// schedPoint lets the scheduler pick any runnable task (the current one included).
func (m *Machine) schedPoint(what string) {
	s := m.sched
	if s == nil || len(s.tasks) == 1 || m.noSched > 0 {
		return
	}
	cur := s.cur
	en := m.enabled(cur)
	if len(en) <= 1 {
		if len(en) == 1 && en[0] != cur {
			s.trace = append(s.trace, en[0].id)
			m.switchTo(en[0])
		} else {
			s.trace = append(s.trace, cur.id)
		}
		return
	}
	n := len(en)
	if s.maxPre >= 0 && s.preempt >= s.maxPre && en[0] == cur {
		n = 1 // preemption budget used up: current task continues
	}
	k := m.Choose(n)
	s.trace = append(s.trace, en[k].id)
	if en[k] != cur {
		if en[0] == cur {
			s.preempt++
		}
		m.switchTo(en[k])
	}
}

// blockOn suspends the current task until cond holds.
func (m *Machine) blockOn(cond func() bool, what string) {
	s := m.ensureSched()
	cur := s.cur
	for !cond() {
		cur.cond = cond
		en := m.enabled(nil)
		// cur is not enabled (cond false)
		if len(en) == 0 {
			cur.cond = nil
			m.end("deadlock", "all tasks blocked ("+what+")")
		}
		k := m.Choose(len(en))
		s.trace = append(s.trace, en[k].id)
		m.switchTo(en[k])
		cur.cond = nil
	}
}

// Quiesce runs all other tasks until none of them can make progress.
func (m *Machine) Quiesce() {
	s := m.sched
	if s == nil {
		return
	}
	cur := s.cur
	for {
		others := 0
		for _, t := range m.enabled(nil) {
			if t != cur {
				others++
			}
		}
		if others == 0 {
			return
		}
		cur.cond = func() bool {
			for _, t := range s.tasks {
				if t != cur && !t.done && (t.cond == nil || t.cond()) {
					return false
				}
			}
			return true
		}
		en := m.enabled(nil)
		k := m.Choose(len(en))
		s.trace = append(s.trace, en[k].id)
		m.switchTo(en[k])
		cur.cond = nil
	}
}

// killTasks releases every parked goroutine at the end of a path.
func (m *Machine) killTasks() {
	s := m.sched
	if s == nil {
		return
	}
	s.dying = true
	for _, t := range s.tasks {
		if t.id != 0 && !t.done && t != s.cur {
			select {
			case t.wake <- struct{}{}:
			default:
				// task is not parked on wake (should not happen); leave it
			}
		}
	}
}

func (m *Machine) onAccess(p PtrV, write bool) {}

// ---- channels (buffered queues; unbuffered channels are modelled as capacity-1 rendezvous-free queues)

func (m *Machine) chanSend(fr *frame, c ChanV, v Value) {
	if c.C == nil {
		m.blockOn(func() bool { return false }, "send on nil channel")
	}
	if c.C.Closed {
		m.runtimePanic("send on closed channel")
	}
	cp := c.C.Cap
	if cp == 0 {
		cp = 1
		m.note("unbuffered channels are modelled as buffered with capacity 1")
	}
	m.schedPoint("chan send")
	m.blockOn(func() bool { return len(c.C.Buf) < cp || c.C.Closed }, "chan send")
	if c.C.Closed {
		m.runtimePanic("send on closed channel")
	}
	c.C.Buf = append(c.C.Buf, v)
	m.schedPoint("chan sent")
}

func (m *Machine) chanRecv(fr *frame, c ChanV) (Value, bool) {
	if c.C == nil {
		m.blockOn(func() bool { return false }, "receive on nil channel")
	}
	m.schedPoint("chan recv")
	m.blockOn(func() bool { return len(c.C.Buf) > 0 || c.C.Closed }, "chan recv")
	if len(c.C.Buf) > 0 {
		v := c.C.Buf[0]
		c.C.Buf = c.C.Buf[1:]
		return v, true
	}
	return m.Zero(c.C.ElemT), false
}

var _ = fmt.Sprint
