// Package hgen generates harness sources from the current /repo tree.
package hgen

type File struct {
	Virtual string
	Data    []byte
}

type genFn func(tier, repo string) ([]File, error)

var generators = map[string][]genFn{}
var assumptions = map[string][]string{
	"C09": {"instances are called from one goroutine at a time: 'Hash is a deterministic function' is decided sequentially; an instance that keeps unsynchronised shared state (seeded change C09_i: hash.Bytes on one package-level FNV state) misbehaves only under a data race, which the scheduler does not explore (DESIGN section 6) - not caught"},
}

func Generate(id, tier, repo string) ([]File, error) {
	var out []File
	for _, g := range generators[id] {
		fs, err := g(tier, repo)
		if err != nil {
			return nil, err
		}
		out = append(out, fs...)
	}
	return out, nil
}

func Assumptions(id string) []string { return assumptions[id] }

// ScratchPrograms returns generator-input programs for properties checked by translation validation.
func ScratchPrograms(id, tier string, seed int) []Program {
	switch id {
	case "C07":
		return ValuePrograms(tier, seed)
	case "C08":
		return DerivePrograms(tier, seed)
	case "C15":
		return JsonPrograms(tier, seed)
	}
	return nil
}
