//verif:overlay internal/zzverif_h/iters/c12c.go
package iters

import (
	"errors"

	"github.com/csgura/fp"
	zz "github.com/csgura/fp/internal/zzverif"
	"github.com/csgura/fp/iterator"
	"github.com/csgura/fp/lazy"
	"github.com/csgura/fp/list"
	"github.com/csgura/fp/seq"
)

var errA, errB = errors.New("A"), errors.New("B")

func inp() []int { return zz.SliceInt("in", zz.Bound("inlen12", 3, 4), 0, 0) }

// ---- folds: iterator, list and seq against the plain left fold

func VH_c12_fold() {
	in := inp()
	f := ufF2("f")
	z := zz.Int("z")
	want := z
	for _, x := range in {
		want = f(want, x)
	}
	zz.Assert(iterator.Fold(src(in), z, f) == want, "iterator.Fold")
	zz.Assert(list.Fold(lsrc(in), z, f) == want, "list.Fold")
	zz.Assert(list.FoldLeft(lsrc(in), z, f) == want, "list.FoldLeft")
	zz.Assert(seq.Fold(fp.Seq[int](in), z, f) == want, "seq.Fold")
}

func tryUF(name string, a, b int) fp.Try[int] {
	if zz.UFBool(name+".ok", a, b) {
		return fp.Success(zz.UFInt(name+".v", a, b))
	}
	if zz.UFBool(name+".errA", a, b) {
		return fp.Failure[int](errA)
	}
	return fp.Failure[int](errB)
}

func tryEq(a, b fp.Try[int]) bool {
	if a.IsSuccess() != b.IsSuccess() {
		return false
	}
	if a.IsSuccess() {
		return a.Get() == b.Get()
	}
	return a.Failed().Get() == b.Failed().Get()
}

func VH_c12_fold_try() {
	in := inp()
	z := zz.Int("z")
	calls := 0
	f := func(b, a int) fp.Try[int] { calls++; return tryUF("f", b, a) }
	want := fp.Success(z)
	steps := 0
	for _, x := range in {
		steps++
		want = tryUF("f", want.Get(), x)
		if want.IsFailure() {
			break
		}
	}
	calls = 0
	zz.Assert(tryEq(iterator.FoldTry(src(in), z, f), want) && calls == steps, "iterator.FoldTry stops at the first failure")
	calls = 0
	zz.Assert(tryEq(list.FoldTry(lsrc(in), z, f), want) && calls == steps, "list.FoldTry stops at the first failure")
	calls = 0
	zz.Assert(tryEq(seq.FoldTry(fp.Seq[int](in), z, f), want) && calls == steps, "seq.FoldTry stops at the first failure")
}

func optUF(name string, a, b int) fp.Option[int] {
	if zz.UFBool(name+".some", a, b) {
		return fp.Some(zz.UFInt(name+".v", a, b))
	}
	return fp.None[int]()
}

func optEq(a, b fp.Option[int]) bool {
	if a.IsDefined() != b.IsDefined() {
		return false
	}
	return a.IsEmpty() || a.Get() == b.Get()
}

func VH_c12_fold_option() {
	in := inp()
	z := zz.Int("z")
	calls := 0
	f := func(b, a int) fp.Option[int] { calls++; return optUF("f", b, a) }
	want := fp.Some(z)
	steps := 0
	for _, x := range in {
		steps++
		want = optUF("f", want.Get(), x)
		if want.IsEmpty() {
			break
		}
	}
	calls = 0
	zz.Assert(optEq(iterator.FoldOption(src(in), z, f), want) && calls == steps, "iterator.FoldOption")
	calls = 0
	zz.Assert(optEq(seq.FoldOption(fp.Seq[int](in), z, f), want) && calls == steps, "seq.FoldOption")
	calls = 0
	zz.Assert(optEq(list.FoldOption(lsrc(in), z, f), want) && calls == steps, "list.FoldOption")
}

func VH_c12_fold_error() {
	in := inp()
	calls := 0
	f := func(a int) error {
		calls++
		if zz.UFBool("f.ok", a) {
			return nil
		}
		if zz.UFBool("f.errA", a) {
			return errA
		}
		return errB
	}
	var want error
	steps := 0
	for _, x := range in {
		steps++
		if !zz.UFBool("f.ok", x) {
			want = errB
			if zz.UFBool("f.errA", x) {
				want = errA
			}
			break
		}
	}
	calls = 0
	zz.Assert(iterator.FoldError(src(in), f) == want && calls == steps, "iterator.FoldError")
	calls = 0
	zz.Assert(list.FoldError(lsrc(in), f) == want && calls == steps, "list.FoldError")
	calls = 0
	zz.Assert(seq.FoldError(fp.Seq[int](in), f) == want && calls == steps, "seq.FoldError")
}

func VH_c12_fold_right() {
	in := inp()
	g := ufF2("g")
	z := zz.Int("z")
	want := z
	for i := len(in) - 1; i >= 0; i-- {
		want = g(in[i], want)
	}
	f := func(a int, b lazy.Eval[int]) lazy.Eval[int] {
		return b.Map(func(v int) int { return g(a, v) })
	}
	zz.Assert(iterator.FoldRight(src(in), z, f).Get() == want, "iterator.FoldRight")
	zz.Assert(list.FoldRight(lsrc(in), z, f).Get() == want, "list.FoldRight")
	zz.Assert(seq.FoldRight(fp.Seq[int](in), z, f).Get() == want, "seq.FoldRight")
}

// the combining function may look at the lazily evaluated rest of the fold any number of times: peeking at it
// and then returning it must neither change the value nor re-run the fold of the rest
func VH_c12_fold_right_tail_demanded_twice() {
	in := inp()
	g := ufF2("g")
	z := zz.Int("z")
	want := z
	for i := len(in) - 1; i >= 0; i-- {
		want = g(in[i], want)
	}
	calls := 0
	f := func(a int, b lazy.Eval[int]) lazy.Eval[int] {
		calls++
		peek := b.Get()
		return b.Map(func(v int) int { return g(a, v) + (peek - v) })
	}
	calls = 0
	zz.Assert(iterator.FoldRight(src(in), z, f).Get() == want && calls == len(in), "iterator.FoldRight: rest of the fold demanded twice")
	calls = 0
	zz.Assert(list.FoldRight(lsrc(in), z, f).Get() == want && calls == len(in), "list.FoldRight: rest of the fold demanded twice")
	calls = 0
	zz.Assert(seq.FoldRight(fp.Seq[int](in), z, f).Get() == want && calls == len(in), "seq.FoldRight: rest of the fold demanded twice")
}

func VH_c12_groupby_gomap_goset() {
	zz.Config("mapperm", 0)
	in := inp()
	k := ufF("key")
	probe := zz.Int("probe")
	var want []int
	for _, x := range in {
		if k(x) == probe {
			want = append(want, x)
		}
	}
	zz.Assert(sliceEq(iterator.GroupBy(src(in), k)[probe], want), "iterator.GroupBy keeps order inside each group")
	zz.Assert(sliceEq(list.GroupBy(lsrc(in), k)[probe], want), "list.GroupBy")
	zz.Assert(sliceEq(seq.GroupBy(fp.Seq[int](in), k)[probe], want), "seq.GroupBy")
	// ToGoMap: last value per key wins; ToGoSet: membership
	var pairs []fp.Tuple2[int, int]
	lastV, has := 0, false
	for _, x := range in {
		pairs = append(pairs, fp.Tuple2[int, int]{I1: k(x), I2: x})
		if k(x) == probe {
			lastV, has = x, true
		}
	}
	check := func(m map[int]int, l string) {
		v, ok := m[probe]
		zz.Assert(ok == has && (!has || v == lastV), l+": last value written per key")
	}
	check(iterator.ToGoMap(iterator.FromSeq(pairs)), "iterator.ToGoMap")
	check(list.ToGoMap(list.FromSeq(pairs)), "list.ToGoMap")
	check(seq.ToGoMap(fp.Seq[fp.Tuple2[int, int]](pairs)), "seq.ToGoMap")
	mem := false
	for _, x := range in {
		if x == probe {
			mem = true
		}
	}
	zz.Assert(iterator.ToGoSet(src(in)).Contains(probe) == mem, "iterator.ToGoSet")
	zz.Assert(list.ToGoSet(lsrc(in)).Contains(probe) == mem, "list.ToGoSet")
	zz.Assert(seq.ToGoSet(fp.Seq[int](in)).Contains(probe) == mem, "seq.ToGoSet")
}

func VH_c12_iterator_consumers() {
	in := inp()
	p := ufP("p")
	cnt, firstIdx := 0, -1
	all := true
	for i, x := range in {
		if p(x) {
			cnt++
			if firstIdx < 0 {
				firstIdx = i
			}
		} else {
			all = false
		}
	}
	zz.Assert(src(in).Count() == len(in), "Count")
	zz.Assert(sliceEq(src(in).ToSeq(), in) && sliceEq(iterator.ToSeq(src(in)), in) && sliceEq(iterator.ToSlice(src(in)), in), "ToSeq/ToSlice")
	zz.Assert(src(in).Exists(p) == (cnt > 0) && src(in).ForAll(p) == all, "Exists/ForAll")
	f := src(in).Find(p)
	zz.Assert(f.IsDefined() == (firstIdx >= 0) && (firstIdx < 0 || f.Get() == in[firstIdx]), "Find returns the first match")
	var fe []int
	src(in).Foreach(func(v int) { fe = append(fe, v) })
	zz.Assert(sliceEq(fe, in), "Foreach")
	no := src(in).NextOption()
	zz.Assert(no.IsDefined() == (len(in) > 0) && (len(in) == 0 || no.Get() == in[0]), "NextOption")
	zz.Assert(src(in).IsEmpty() == (len(in) == 0) && src(in).NonEmpty() == (len(in) > 0), "IsEmpty/NonEmpty")
	zz.Assert(sliceEq(seq.Collect(src(in)), in), "seq.Collect")
}

// ---- fp.Seq methods and seq functions against plain loops

func VH_c12_seq_methods() {
	in := inp()
	s := fp.Seq[int](in)
	p, f := ufP("p"), ufF("f")
	n := zz.IntIn("n", 0, len(in)+1) // negative counts panic in the eager Seq itself: outside
	zz.Assert(sliceEq(s.Take(n), in[:clampN(n, len(in))]), "Seq.Take")
	zz.Assert(sliceEq(s.Drop(n), in[clampN(n, len(in)):]), "Seq.Drop")
	var fl, fn, mp, rv []int
	for _, x := range in {
		if p(x) {
			fl = append(fl, x)
		} else {
			fn = append(fn, x)
		}
		mp = append(mp, f(x))
	}
	for i := len(in) - 1; i >= 0; i-- {
		rv = append(rv, in[i])
	}
	zz.Assert(sliceEq(s.Filter(p), fl) && sliceEq(s.FilterNot(p), fn), "Seq.Filter/FilterNot")
	zz.Assert(sliceEq(s.Map(f), mp) && sliceEq(seq.Map(s, f), mp), "Seq.Map")
	zz.Assert(sliceEq(s.Reverse(), rv), "Seq.Reverse")
	zz.Assert(s.Size() == len(in) && s.IsEmpty() == (len(in) == 0), "Seq.Size/IsEmpty")
	g := s.Get(n)
	zz.Assert(g.IsDefined() == (n >= 0 && n < len(in)) && (g.IsEmpty() || g.Get() == in[n]), "Seq.Get")
	h, l := s.Head(), s.Last()
	zz.Assert(h.IsDefined() == (len(in) > 0) && (h.IsEmpty() || h.Get() == in[0]), "Seq.Head")
	zz.Assert(l.IsDefined() == (len(in) > 0) && (l.IsEmpty() || l.Get() == in[len(in)-1]), "Seq.Last")
	if len(in) > 0 {
		zz.Assert(sliceEq(s.Tail(), in[1:]) && sliceEq(s.Init(), in[:len(in)-1]), "Seq.Tail/Init")
	} else {
		zz.Assert(len(s.Tail()) == 0 && len(s.Init()) == 0, "Seq.Tail/Init of empty")
	}
	e := zz.Int("e")
	zz.Assert(sliceEq(s.Add(e), append(append([]int{}, in...), e)), "Seq.Add")
	zz.Assert(sliceEq(s.Append(e, e), append(append([]int{}, in...), e, e)), "Seq.Append")
	zz.Assert(sliceEq(s.Concat(s), append(append([]int{}, in...), in...)), "Seq.Concat")
	var fm []int
	for _, x := range in {
		fm = append(fm, ufSlice("k", x)...)
	}
	zz.Assert(sliceEq(s.FlatMap(func(x int) fp.Seq[int] { return ufSlice("k", x) }), fm), "Seq.FlatMap")
	zz.Assert(sliceEq(seq.FlatMap(s, func(x int) fp.Seq[int] { return ufSlice("k", x) }), fm), "seq.FlatMap")
}

func VH_c12_seq_functions() {
	in := inp()
	s := fp.Seq[int](in)
	p, f2 := ufP("p"), ufF2("f")
	z := zz.Int("z")
	sc := []int{z}
	acc := z
	for _, x := range in {
		acc = f2(acc, x)
		sc = append(sc, acc)
	}
	zz.Assert(sliceEq(seq.Scan(s, z, f2), sc), "seq.Scan")
	k := 0
	for k < len(in) && p(in[k]) {
		k++
	}
	l, r := seq.Span(s, p)
	zz.Assert(sliceEq(l, in[:k]) && sliceEq(r, in[k:]), "seq.Span")
	var yes, no []int
	for _, x := range in {
		if p(x) {
			yes = append(yes, x)
		} else {
			no = append(no, x)
		}
	}
	y, n := seq.Partition(s, p)
	zz.Assert(sliceEq(y, yes) && sliceEq(n, no), "seq.Partition")
	var ds []int
	for i, x := range in {
		dup := false
		for j := 0; j < i; j++ {
			if in[j] == x {
				dup = true
			}
		}
		if !dup {
			ds = append(ds, x)
		}
	}
	zz.Assert(sliceEq(seq.Distinct(s), ds), "seq.Distinct keeps first occurrences in order")
	zi := seq.ZipWithIndex(s)
	ok := len(zi) == len(in)
	for i := range zi {
		if ok && (zi[i].I1 != i || zi[i].I2 != in[i]) {
			ok = false
		}
	}
	zz.Assert(ok, "seq.ZipWithIndex")
	zp := seq.Zip(s, s.Reverse())
	ok = len(zp) == len(in)
	for i := range zp {
		if ok && (zp[i].I1 != in[i] || zp[i].I2 != in[len(in)-1-i]) {
			ok = false
		}
	}
	zz.Assert(ok, "seq.Zip")
	// operands of different lengths: the shorter decides, in either position
	ka, kb := zz.IntIn("zip.la", 0, len(in)), zz.IntIn("zip.lb", 0, len(in))
	zq := seq.Zip(s.Take(ka), s.Take(kb))
	ok = len(zq) == ka || len(zq) == kb
	ok = ok && len(zq) <= ka && len(zq) <= kb
	for i := range zq {
		if ok && (zq[i].I1 != in[i] || zq[i].I2 != in[i]) {
			ok = false
		}
	}
	zz.Assert(ok, "seq.Zip: length of the shorter operand")
	m2 := seq.Map2(s.Take(2), s.Drop(2), f2)
	var e2 []int
	for _, a := range s.Take(2) {
		for _, b := range s.Drop(2) {
			e2 = append(e2, f2(a, b))
		}
	}
	zz.Assert(sliceEq(m2, e2), "seq.Map2 is the cross product in row-major order")
}

// ---- Min / Max / Sort under an order that is coarser than identity (elements compared by a key, so that
// distinguishable elements tie) and under a relation that is no order at all (incomparable elements, as NaN is
// for floats): the iterator and the list give the element the eager fp.Seq computation gives.

func VH_c12_min_max_by_key() {
	in := zz.SliceInt("in", zz.Bound("inlen12m", 3, 4), 0, 0)
	var ord fp.Ord[int]
	var less func(a, b int) bool
	lawful := zz.Bool("lawful")
	if lawful {
		key := func(x int) int { return zz.UFInt("key", x) }
		less = func(a, b int) bool { return key(a) < key(b) }
	} else {
		less = func(a, b int) bool { return zz.UFBool("less", a, b) }
	}
	if zz.Bool("lessfunc") {
		ord = fp.LessFunc[int](less)
	} else {
		ord = fp.CompareFunc[int](func(a, b int) int {
			if less(a, b) {
				return -1
			}
			if less(b, a) {
				return 1
			}
			return 0
		})
	}
	same := func(o fp.Option[int], v int, ok bool) bool {
		return o.IsDefined() == ok && (!ok || o.Get() == v)
	}
	// the eager fp.Seq computation is the reference; of seq.Max/Min themselves only what their names say is asked
	// (an element of the input that no element beats - under the lawful order), not which of several tied ones
	smax, smin := seq.Max(fp.Seq[int](in), ord), seq.Min(fp.Seq[int](in), ord)
	zz.Assert(smax.IsDefined() == (len(in) > 0) && smin.IsDefined() == (len(in) > 0), "seq.Max/Min: defined exactly on non-empty input")
	if lawful && len(in) > 0 {
		isIn := func(v int) bool {
			for _, x := range in {
				if x == v {
					return true
				}
			}
			return false
		}
		zz.Assert(isIn(smax.Get()) && isIn(smin.Get()), "seq.Max/Min: an element of the input")
		for _, x := range in {
			zz.Assert(!less(smax.Get(), x), "seq.Max: no element is greater")
			zz.Assert(!less(x, smin.Get()), "seq.Min: no element is smaller")
		}
	}
	sameO := func(o, w fp.Option[int]) bool { return same(o, w.OrZero(), w.IsDefined()) }
	zz.Assert(sameO(iterator.Max(src(in), ord), smax), "iterator.Max = seq.Max, also among tied elements")
	zz.Assert(sameO(list.Max(lsrc(in), ord), smax), "list.Max = seq.Max, also among tied elements")
	zz.Assert(sameO(iterator.Min(src(in), ord), smin), "iterator.Min = seq.Min, also among tied elements")
	zz.Assert(sameO(list.Min(lsrc(in), ord), smin), "list.Min = seq.Min, also among tied elements")
}

func VH_c12_sort_by_key() {
	in := zz.SliceInt("in", zz.Bound("inlen12s", 3, 4), 0, 0)
	key := func(x int) int { return zz.UFInt("key", x) }
	ord := fp.LessFunc[int](func(a, b int) bool { return key(a) < key(b) })
	keep := append([]int(nil), in...)
	want := seq.Sort(fp.Seq[int](in), ord)
	zz.Assert(len(want) == len(in), "seq.Sort: length")
	for i := 1; i < len(want); i++ {
		zz.Assert(key(want[i-1]) <= key(want[i]), "seq.Sort: ascending by the order")
	}
	for i := range in {
		zz.Assert(in[i] == keep[i], "seq.Sort leaves its argument alone")
	}
	eqs := func(a fp.Seq[int]) bool {
		if len(a) != len(want) {
			return false
		}
		for i := range a {
			if a[i] != want[i] {
				return false
			}
		}
		return true
	}
	zz.Assert(eqs(iterator.Sort(src(in), ord)), "iterator.Sort = seq.Sort, tied elements in the same order")
	zz.Assert(eqs(list.Sort(lsrc(in), ord)), "list.Sort = seq.Sort, tied elements in the same order")
}

// A list is a value: whatever consumer ran over it (Sort, Min/Max, a ToSeq whose result the caller then
// writes into), the same list yields the same elements in the same order again.
func VH_c12_list_reobserved_after_consumers() {
	in := zz.SliceInt("in", zz.Bound("inlen12r", 3, 4), 0, 0)
	var l fp.List[int]
	switch zz.Choice("repr", 3) {
	case 0:
		l = list.FromSeq(append([]int{}, in...))
	case 1:
		l = list.Of(append([]int{}, in...)...)
	case 2:
		l = list.Empty[int]()
		for i := len(in) - 1; i >= 0; i-- {
			l = list.Concat(in[i], l)
		}
	}
	key := func(x int) int { return zz.UFInt("key", x) }
	ord := fp.LessFunc[int](func(a, b int) bool { return key(a) < key(b) })
	switch zz.Choice("consumer", 4) {
	case 0:
		list.Sort(l, ord)
	case 1:
		s := l.ToSeq()
		for i := range s {
			s[i] = s[i] + 1
		}
	case 2:
		list.Min(l, ord)
		list.Max(l, ord)
	case 3:
		t := l.Tail().ToSeq()
		if len(t) > 0 {
			t[0]++
		}
	}
	zz.Assert(sliceEq(l.ToSeq(), in), "the list yields the same elements after a consumer ran over it (ToSeq)")
	var walked []int
	for c := l; c.NonEmpty(); c = c.Tail() {
		walked = append(walked, c.Head())
	}
	zz.Assert(sliceEq(walked, in), "the list yields the same elements after a consumer ran over it (Head/Tail)")
}
