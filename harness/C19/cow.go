//verif:overlay internal/zzverif_h/c19/h.go
package c19

import (
	"github.com/csgura/fp"
	zz "github.com/csgura/fp/internal/zzverif"
	"github.com/csgura/fp/mutable"
)

const (
	opGet = iota
	opSize
	opUpdated
	opRemoved
	opUpdatedWith // remap: present -> v+arg ... modelled as "set to UF(old)" / insert arg when absent
	opCIA         // ComputeIfAbsent(k, func() arg)
	opIter        // snapshot of both keys through Iterator
	opComputeIf   // ComputeIf(k, pred = (v == arg2), func() arg)
	opRemovedBoth // Removed(0, 1): one atomic step
)

type op struct {
	kind, key int
	arg, arg2 int
	// results
	call, ret int
	rb        bool
	rv        int
	snapP     [2]bool
	snapV     [2]int
	fcalls    int
}

var clock int

func tick() int { clock++; return clock }

func run(m *mutable.CopyOnWriteMap[int, int], o *op) {
	o.call = tick()
	switch o.kind {
	case opGet:
		g := m.Get(o.key)
		o.rb = g.IsDefined()
		if o.rb {
			o.rv = g.Get()
		}
	case opSize:
		o.rv = m.Size()
	case opUpdated:
		m.Updated(o.key, o.arg)
	case opRemoved:
		m.Removed(o.key)
	case opRemovedBoth:
		m.Removed(0, 1)
	case opUpdatedWith:
		m.UpdatedWith(o.key, func(old fp.Option[int]) fp.Option[int] {
			o.fcalls++
			if old.IsDefined() {
				return fp.Some(zz.UFInt("inc", old.Get()))
			}
			return fp.Some(o.arg)
		})
	case opCIA:
		o.rv = m.ComputeIfAbsent(o.key, func() int { o.fcalls++; return o.arg })
	case opComputeIf:
		o.rv = m.ComputeIf(o.key, func(v int) bool { return v == o.arg2 }, func() int { o.fcalls++; return o.arg })
	case opIter:
		for it := m.Iterator(); it.HasNext(); {
			e := it.Next()
			if e.I1 == 0 || e.I1 == 1 {
				o.snapP[e.I1] = true
				o.snapV[e.I1] = e.I2
			}
		}
	}
	o.ret = tick()
}

// sequential specification over keys {0,1}; presence flags and values are (symbolic) terms
type spec struct {
	p [2]bool
	v [2]int
}

// apply returns the next state and whether the recorded results of o are explained by running o on st
func apply(st spec, o *op) (spec, bool) {
	k := o.key
	switch o.kind {
	case opGet:
		ok := zz.BAnd(o.rb == st.p[k], zz.BOr(zz.BNot(st.p[k]), zz.Eq(o.rv, st.v[k])))
		return st, ok
	case opSize:
		n := zz.Ite(st.p[0], 1, 0) + zz.Ite(st.p[1], 1, 0)
		return st, zz.Eq(o.rv, n)
	case opUpdated:
		st.p[k], st.v[k] = true, o.arg
		return st, true
	case opRemoved:
		st.p[k] = false
		return st, true
	case opRemovedBoth:
		st.p[0], st.p[1] = false, false
		return st, true
	case opUpdatedWith:
		nv := zz.Ite(st.p[k], zz.UFInt("inc", st.v[k]), o.arg)
		st.p[k], st.v[k] = true, nv
		return st, true
	case opCIA:
		res := zz.Ite(st.p[k], st.v[k], o.arg)
		st.v[k] = res
		st.p[k] = true
		return st, zz.Eq(o.rv, res)
	case opComputeIf:
		keep := zz.BAnd(st.p[k], zz.BNot(zz.Eq(st.v[k], o.arg2)))
		res := zz.Ite(keep, st.v[k], o.arg)
		st.v[k] = res
		st.p[k] = true
		return st, zz.Eq(o.rv, res)
	case opIter:
		ok := zz.BAnd(o.snapP[0] == st.p[0], o.snapP[1] == st.p[1])
		ok = zz.BAnd(ok, zz.BOr(zz.BNot(st.p[0]), zz.Eq(o.snapV[0], st.v[0])))
		ok = zz.BAnd(ok, zz.BOr(zz.BNot(st.p[1]), zz.Eq(o.snapV[1], st.v[1])))
		return st, ok
	}
	return st, false
}

// linearizable: some total order consistent with real-time order explains every result
func linearizable(ops []*op, init spec) bool {
	n := len(ops)
	used := make([]bool, n)
	var rec func(st spec, done int, ok bool) bool
	rec = func(st spec, done int, ok bool) bool {
		if done == n {
			return ok
		}
		any := false
		for i := 0; i < n; i++ {
			if used[i] {
				continue
			}
			// i may come next only if no other pending operation returned before i was called
			minimal := true
			for j := 0; j < n; j++ {
				if j != i && !used[j] && ops[j].ret < ops[i].call {
					minimal = false
				}
			}
			if !minimal {
				continue
			}
			used[i] = true
			ns, good := apply(st, ops[i])
			any = zz.BOr(any, rec(ns, done+1, zz.BAnd(ok, good)))
			used[i] = false
		}
		return any
	}
	return rec(init, 0, true)
}

type scenario struct {
	name  string
	tasks [][]op
}

func sym(name string) int { return zz.Int(name) }

func scenarioOf(name string) scenario {
	switch name {
	case "cia_vs_cia":
		return scenario{name, [][]op{{{kind: opCIA, key: 0, arg: sym("a")}}, {{kind: opCIA, key: 0, arg: sym("b")}}}}
	case "cia_vs_cia_get":
		return scenario{name, [][]op{{{kind: opCIA, key: 0, arg: sym("a")}, {kind: opGet, key: 0}}, {{kind: opCIA, key: 0, arg: sym("b")}}}}
	case "updated_get":
		return scenario{name, [][]op{{{kind: opUpdated, key: 0, arg: sym("a")}, {kind: opGet, key: 0}}, {{kind: opUpdated, key: 0, arg: sym("b")}, {kind: opGet, key: 0}}}}
	case "updatedwith_lost_update":
		return scenario{name, [][]op{{{kind: opUpdatedWith, key: 0, arg: sym("a")}}, {{kind: opUpdatedWith, key: 0, arg: sym("b")}, {kind: opGet, key: 0}}}}
	case "updatedwith_vs_cia":
		return scenario{name, [][]op{{{kind: opUpdatedWith, key: 0, arg: sym("a")}}, {{kind: opCIA, key: 0, arg: sym("b")}, {kind: opGet, key: 0}}}}
	case "updatedwith_vs_updated":
		return scenario{name, [][]op{{{kind: opUpdatedWith, key: 0, arg: sym("a")}, {kind: opGet, key: 0}}, {{kind: opUpdated, key: 0, arg: sym("b")}}}}
	case "cia_vs_removed":
		return scenario{name, [][]op{{{kind: opCIA, key: 0, arg: sym("a")}, {kind: opGet, key: 0}}, {{kind: opRemoved, key: 0}, {kind: opSize}}}}
	case "writer_vs_iterator":
		return scenario{name, [][]op{{{kind: opUpdated, key: 0, arg: sym("a")}, {kind: opUpdated, key: 1, arg: sym("b")}}, {{kind: opIter}, {kind: opSize}}}}
	case "computeif_vs_updated":
		return scenario{name, [][]op{{{kind: opComputeIf, key: 0, arg: sym("a"), arg2: sym("c")}}, {{kind: opUpdated, key: 0, arg: sym("b")}, {kind: opGet, key: 0}}}}
	case "removed_both_vs_readers":
		return scenario{name, [][]op{{{kind: opRemovedBoth}}, {{kind: opIter}, {kind: opSize}}}}
	case "two_keys":
		return scenario{name, [][]op{{{kind: opCIA, key: 0, arg: sym("a")}, {kind: opUpdated, key: 1, arg: sym("b")}}, {{kind: opCIA, key: 1, arg: sym("c")}, {kind: opGet, key: 0}}}}
	}
	panic("unknown scenario " + name)
}

func drive(name string, prefill bool) {
	clock = 0
	sc := scenarioOf(name)
	// context-bounded exploration: all schedules with at most this many preemptive switches (plus every
	// non-preemptive order); blocking on the mutex and task exits are not preemptions
	zz.Config("preempt", zz.Bound("preempt", 3, 5))
	m := &mutable.CopyOnWriteMap[int, int]{}
	init := spec{}
	if prefill {
		v := zz.Int("init")
		m.Updated(0, v)
		init.p[0], init.v[0] = true, v
	}
	if name == "removed_both_vs_readers" {
		w := zz.Int("init1")
		m.Updated(1, w)
		init.p[1], init.v[1] = true, w
	}
	var all []*op
	for t := range sc.tasks {
		ops := sc.tasks[t]
		for i := range ops {
			all = append(all, &ops[i])
		}
		zz.Spawn(func() {
			for i := range ops {
				run(m, &ops[i])
			}
		})
	}
	zz.Quiesce()
	for _, o := range all {
		zz.Assert(o.ret > 0, name+": every operation returned (no panic, no deadlock)")
	}
	zz.Assert(linearizable(all, init), name+": results are explained by some linearization")
	// all ComputeIfAbsent(k) calls agree with the finally stored value when nobody else writes k
	fin := m.Get(0)
	ciaOnly := true
	for _, o := range all {
		if o.key == 0 && (o.kind == opUpdated || o.kind == opRemoved || o.kind == opUpdatedWith || o.kind == opComputeIf) {
			ciaOnly = false
		}
	}
	if ciaOnly && !prefill {
		for _, o := range all {
			if o.kind == opCIA && o.key == 0 {
				zz.Assert(fin.IsDefined() && o.rv == fin.Get(), name+": ComputeIfAbsent returns the value that ends up stored")
			}
		}
	}
}

func VH_c19_cia_vs_cia()              { drive("cia_vs_cia", false) }
func VH_c19_cia_vs_cia_prefilled()    { drive("cia_vs_cia", true) }
func VH_c19_cia_vs_cia_get()          { drive("cia_vs_cia_get", false) }
func VH_c19_updated_get()             { drive("updated_get", false) }
func VH_c19_updatedwith_lost_update() { drive("updatedwith_lost_update", true) }

// the same race on a key that is ABSENT when the calls start (the remap sees None and inserts)
func VH_c19_updatedwith_absent_key()        { drive("updatedwith_lost_update", false) }
func VH_c19_updatedwith_vs_cia_absent()     { drive("updatedwith_vs_cia", false) }
func VH_c19_updatedwith_vs_updated_absent() { drive("updatedwith_vs_updated", false) }
func VH_c19_cia_vs_removed()                { drive("cia_vs_removed", true) }
func VH_c19_writer_vs_iterator()            { drive("writer_vs_iterator", false) }
func VH_c19_computeif_vs_updated()          { drive("computeif_vs_updated", true) }
func VH_c19_two_keys()                      { drive("two_keys", false) }
func VH_c19_removed_both_vs_readers()       { drive("removed_both_vs_readers", true) }
