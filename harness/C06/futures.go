//verif:overlay internal/zzverif_h/c06/h.go
package c06

import (
	"errors"

	"github.com/csgura/fp"
	"github.com/csgura/fp/as"
	"github.com/csgura/fp/future"
	zz "github.com/csgura/fp/internal/zzverif"
)

type inline struct{}

func (inline) ExecuteUnsafe(r fp.Runnable) { r.Run() }

var eA, eB, eH = errors.New("A failed"), errors.New("B failed"), errors.New("handler failed")

const (
	pending = iota
	success
	failure
)

// outcome of a future in the reference evaluation over Try extended with "pending"
type out struct {
	st int
	v  int
	e  error
}

func ok(v int) out       { return out{st: success, v: v} }
func fail(e error) out   { return out{st: failure, e: e} }
func pend() out          { return out{} }
func f1(x int) int       { return zz.UFInt("f", x) }
func f2(x, y int) int    { return zz.UFInt("f2", x, y) }
func f3(x, y, z int) int { return zz.UFInt("f3", x, y, z) }

// bind: left-to-right short circuit
func bind(a out, k func(v int) out) out {
	if a.st != success {
		return a
	}
	return k(a.v)
}

type expr struct {
	name string
	mk   func(a, b fp.Future[int], ex []fp.Executor) fp.Future[int]
	ref  func(a, b out) out
}

func seqSum(s []int) int {
	r := 0
	for i, x := range s {
		r += zz.UFInt("pos", i, x) // position-sensitive digest: order matters
	}
	return r
}

func exprs() []expr {
	return []expr{
		{"Map", func(a, b fp.Future[int], ex []fp.Executor) fp.Future[int] { return future.Map(a, f1, ex...) },
			func(a, b out) out { return bind(a, func(v int) out { return ok(f1(v)) }) }},
		{"MethodMap", func(a, b fp.Future[int], ex []fp.Executor) fp.Future[int] { return a.Map(f1, ex...) },
			func(a, b out) out { return bind(a, func(v int) out { return ok(f1(v)) }) }},
		{"FlatMap", func(a, b fp.Future[int], ex []fp.Executor) fp.Future[int] {
			return future.FlatMap(a, func(v int) fp.Future[int] { return future.Map(b, func(w int) int { return f2(v, w) }, ex...) }, ex...)
		}, func(a, b out) out {
			return bind(a, func(v int) out { return bind(b, func(w int) out { return ok(f2(v, w)) }) })
		}},
		{"MethodFlatMap", func(a, b fp.Future[int], ex []fp.Executor) fp.Future[int] {
			return a.FlatMap(func(v int) fp.Future[int] { return b }, ex...)
		}, func(a, b out) out { return bind(a, func(int) out { return b }) }},
		{"Flatten", func(a, b fp.Future[int], ex []fp.Executor) fp.Future[int] {
			return future.Flatten(future.Map(a, func(int) fp.Future[int] { return b }, ex...))
		}, func(a, b out) out { return bind(a, func(int) out { return b }) }},
		{"Map2", func(a, b fp.Future[int], ex []fp.Executor) fp.Future[int] { return future.Map2(a, b, f2, ex...) },
			func(a, b out) out {
				return bind(a, func(v int) out { return bind(b, func(w int) out { return ok(f2(v, w)) }) })
			}},
		{"LiftA2", func(a, b fp.Future[int], ex []fp.Executor) fp.Future[int] { return future.LiftA2(f2, ex...)(a, b) },
			func(a, b out) out {
				return bind(a, func(v int) out { return bind(b, func(w int) out { return ok(f2(v, w)) }) })
			}},
		{"LiftA3", func(a, b fp.Future[int], ex []fp.Executor) fp.Future[int] { return future.LiftA3(f3, ex...)(a, b, a) },
			func(a, b out) out {
				return bind(a, func(v int) out { return bind(b, func(w int) out { return ok(f3(v, w, v)) }) })
			}},
		{"LiftM2", func(a, b fp.Future[int], ex []fp.Executor) fp.Future[int] {
			return future.LiftM2(func(x, y int) fp.Future[int] { return future.Successful(f2(x, y)) }, ex...)(a, b)
		}, func(a, b out) out {
			return bind(a, func(v int) out { return bind(b, func(w int) out { return ok(f2(v, w)) }) })
		}},
		{"Zip", func(a, b fp.Future[int], ex []fp.Executor) fp.Future[int] {
			return future.Map(future.Zip(a, b), func(t fp.Tuple2[int, int]) int { return f2(t.I1, t.I2) }, ex...)
		}, func(a, b out) out {
			return bind(a, func(v int) out { return bind(b, func(w int) out { return ok(f2(v, w)) }) })
		}},
		{"Zip3", func(a, b fp.Future[int], ex []fp.Executor) fp.Future[int] {
			return future.Map(future.Zip3(a, b, a), func(t fp.Tuple3[int, int, int]) int { return f3(t.I1, t.I2, t.I3) }, ex...)
		}, func(a, b out) out {
			return bind(a, func(v int) out { return bind(b, func(w int) out { return ok(f3(v, w, v)) }) })
		}},
		{"Ap", func(a, b fp.Future[int], ex []fp.Executor) fp.Future[int] {
			ff := future.Map(a, func(v int) fp.Func1[int, int] { return func(w int) int { return f2(v, w) } }, ex...)
			return future.Ap(ff, b, ex...)
		}, func(a, b out) out {
			return bind(a, func(v int) out { return bind(b, func(w int) out { return ok(f2(v, w)) }) })
		}},
		{"ApFunc", func(a, b fp.Future[int], ex []fp.Executor) fp.Future[int] {
			ff := future.Map(a, func(v int) fp.Func1[int, int] { return func(w int) int { return f2(v, w) } }, ex...)
			return future.ApFunc(ff, func() fp.Future[int] { return b }, ex...)
		}, func(a, b out) out {
			return bind(a, func(v int) out { return bind(b, func(w int) out { return ok(f2(v, w)) }) })
		}},
		{"Sequence", func(a, b fp.Future[int], ex []fp.Executor) fp.Future[int] {
			return future.Map(future.Sequence([]fp.Future[int]{a, b}, ex...), seqSum, ex...)
		}, func(a, b out) out {
			return bind(a, func(v int) out { return bind(b, func(w int) out { return ok(seqSum([]int{v, w})) }) })
		}},
		{"TraverseSeq", func(a, b fp.Future[int], ex []fp.Executor) fp.Future[int] {
			fs := []fp.Future[int]{a, b}
			t := future.TraverseSeq(fp.Seq[int]{0, 1}, func(i int) fp.Future[int] { return fs[i] }, ex...)
			return future.Map(t, func(s fp.Seq[int]) int { return seqSum(s) }, ex...)
		}, func(a, b out) out {
			return bind(a, func(v int) out { return bind(b, func(w int) out { return ok(seqSum([]int{v, w})) }) })
		}},
		{"Transform", func(a, b fp.Future[int], ex []fp.Executor) fp.Future[int] {
			return future.Transform(a, func(t fp.Try[int]) fp.Try[int] {
				if t.IsSuccess() {
					return fp.Success(f1(t.Get()))
				}
				return fp.Success(7)
			}, ex...)
		}, func(a, b out) out {
			switch a.st {
			case success:
				return ok(f1(a.v))
			case failure:
				return ok(7)
			}
			return pend()
		}},
		{"TransformWith", func(a, b fp.Future[int], ex []fp.Executor) fp.Future[int] {
			return future.TransformWith(a, func(t fp.Try[int]) fp.Future[int] {
				if t.IsSuccess() {
					return future.Successful(f1(t.Get()))
				}
				return b
			}, ex...)
		}, func(a, b out) out {
			switch a.st {
			case success:
				return ok(f1(a.v))
			case failure:
				return b
			}
			return pend()
		}},
		// the function's own future can fail or stay pending after a successful source: the result is that future's
		// result, and fn is not asked a second time about a failure that is not the source's
		{"TransformFails", func(a, b fp.Future[int], ex []fp.Executor) fp.Future[int] {
			return future.Transform(a, func(t fp.Try[int]) fp.Try[int] {
				if t.IsSuccess() {
					if zz.UFBool("reject", t.Get()) {
						return fp.Failure[int](eH)
					}
					return fp.Success(f1(t.Get()))
				}
				return fp.Success(7)
			}, ex...)
		}, func(a, b out) out {
			switch a.st {
			case success:
				if zz.UFBool("reject", a.v) {
					return fail(eH)
				}
				return ok(f1(a.v))
			case failure:
				return ok(7)
			}
			return pend()
		}},
		{"TransformWithBoth", func(a, b fp.Future[int], ex []fp.Executor) fp.Future[int] {
			return future.TransformWith(a, func(t fp.Try[int]) fp.Future[int] {
				if t.IsSuccess() {
					return b
				}
				return future.Successful(9)
			}, ex...)
		}, func(a, b out) out {
			switch a.st {
			case success:
				return b
			case failure:
				return ok(9)
			}
			return pend()
		}},
		{"Recover", func(a, b fp.Future[int], ex []fp.Executor) fp.Future[int] {
			return a.Recover(func(e error) int {
				if e == eA {
					return 11
				}
				return 12
			}, ex...)
		}, func(a, b out) out {
			if a.st == failure {
				if a.e == eA {
					return ok(11)
				}
				return ok(12)
			}
			return a
		}},
		{"RecoverWith", func(a, b fp.Future[int], ex []fp.Executor) fp.Future[int] {
			return a.RecoverWith(func(error) fp.Future[int] { return b }, ex...)
		}, func(a, b out) out {
			if a.st == failure {
				return b
			}
			return a
		}},
		{"RecoverCase", func(a, b fp.Future[int], ex []fp.Executor) fp.Future[int] {
			return a.RecoverCase(func(e error) bool { return zz.UFBool("handles") }, func(error) int { return 21 }, ex...)
		}, func(a, b out) out {
			if a.st == failure && zz.UFBool("handles") {
				return ok(21)
			}
			return a
		}},
		{"RecoverCaseWith", func(a, b fp.Future[int], ex []fp.Executor) fp.Future[int] {
			return a.RecoverCaseWith(func(e error) bool { return zz.UFBool("handles") }, func(error) fp.Future[int] { return b }, ex...)
		}, func(a, b out) out {
			if a.st == failure && zz.UFBool("handles") {
				return b
			}
			return a
		}},
		{"Or", func(a, b fp.Future[int], ex []fp.Executor) fp.Future[int] {
			return a.Or(func() fp.Future[int] { return b })
		}, func(a, b out) out {
			if a.st == failure {
				return b
			}
			return a
		}},
		{"OrFuture", func(a, b fp.Future[int], ex []fp.Executor) fp.Future[int] { return a.OrFuture(b) },
			func(a, b out) out {
				if a.st == failure {
					return b
				}
				return a
			}},
		{"Failed", func(a, b fp.Future[int], ex []fp.Executor) fp.Future[int] {
			return future.Map(a.Failed(), func(e error) int {
				if e == eA {
					return 31
				}
				return 32
			}, ex...)
		}, func(a, b out) out {
			switch a.st {
			case failure:
				if a.e == eA {
					return ok(31)
				}
				return ok(32)
			case success:
				return fail(fp.ErrFutureNotFailed)
			}
			return pend()
		}},
		{"Method1_FlapMap", func(a, b fp.Future[int], ex []fp.Executor) fp.Future[int] {
			x := argX
			if zz.Bool("flapmap") {
				return future.FlapMap(f2, a, ex...)(x)
			}
			return future.Method1(a, f2, ex...)(x)
		}, func(a, b out) out { return bind(a, func(v int) out { return ok(f2(v, argX)) }) }},
		{"Compose", func(a, b fp.Future[int], ex []fp.Executor) fp.Future[int] {
			return future.Compose(func(int) fp.Future[int] { return a }, func(v int) fp.Future[int] {
				return future.Map(b, func(w int) int { return f2(v, w) }, ex...)
			}, ex...)(0)
		}, func(a, b out) out {
			return bind(a, func(v int) out { return bind(b, func(w int) out { return ok(f2(v, w)) }) })
		}},
		{"Applicative2", func(a, b fp.Future[int], ex []fp.Executor) fp.Future[int] {
			return future.Applicative2(as.Func2(f2)).ApFuture(a).ApFuture(b)
		}, func(a, b out) out {
			return bind(a, func(v int) out { return bind(b, func(w int) out { return ok(f2(v, w)) }) })
		}},
		{"Chain2", func(a, b fp.Future[int], ex []fp.Executor) fp.Future[int] {
			return future.Chain2(as.Func2(f2)).ApFuture(a).ApFuture(b)
		}, func(a, b out) out {
			return bind(a, func(v int) out { return bind(b, func(w int) out { return ok(f2(v, w)) }) })
		}},
		{"Replace_With", func(a, b fp.Future[int], ex []fp.Executor) fp.Future[int] {
			r := future.Replace(a, 5)
			return future.FlatMap(r, future.With(f2, b, ex...), ex...)
		}, func(a, b out) out {
			return bind(a, func(int) out { return bind(b, func(w int) out { return ok(f2(5, w)) }) })
		}},
	}
}

var argX int

// expressions whose implementation ignores the supplied executor for part of the work (Flatten, Zip*, the
// builder chains, traverse's FoldFuture) spawn a task per callback: they get the tighter preemption bound
var spawny = map[string]bool{"Applicative2": true, "Chain2": true, "TraverseSeq": true, "Zip3": true, "Replace_With": true}

func find(name string) expr {
	for _, e := range exprs() {
		if e.name == name {
			return e
		}
	}
	panic("unknown expression " + name)
}

func srcOutcome(name string, e error) out {
	switch zz.Choice(name+".state", 3) {
	case 1:
		return ok(zz.Int(name + ".v"))
	case 2:
		return fail(e)
	}
	return pend()
}

func completeLater(p fp.Promise[int], o out) {
	switch o.st {
	case success:
		zz.Spawn(func() { p.Success(o.v) })
	case failure:
		zz.Spawn(func() { p.Failure(o.e) })
	}
}

func sameOut(f fp.Future[int], want out, l string) {
	if want.st == pending {
		zz.Assert(!f.IsCompleted(), l+": the derived future is not completed before the sources it depends on")
		return
	}
	zz.Assert(f.IsCompleted(), l+": the derived future completes once the sources it depends on are complete")
	if !f.IsCompleted() {
		return
	}
	v := f.Value()
	zz.Assert(v.IsSuccess() == (want.st == success), l+": success/failure as in the evaluation over Try")
	if want.st == success {
		zz.Assert(v.IsSuccess() && v.Get() == want.v, l+": value as in the evaluation over Try")
	} else {
		zz.Assert(v.IsFailure() && v.Failed().Get() == want.e, l+": the first failing source's own error")
	}
}

// run: the expression is built by the main task while one task per source completes it - before, after or
// during construction is the scheduler's choice
func run(name string, goexec bool) {
	e := find(name)
	var ex []fp.Executor
	argX = zz.Int("x")
	if goexec || spawny[name] {
		zz.Config("preempt", zz.Bound("preempt.goexec", 1, 2))
		if goexec {
			ex = nil
		} else {
			ex = []fp.Executor{inline{}}
		}
	} else {
		ex = []fp.Executor{inline{}}
		zz.Config("preempt", zz.Bound("preempt", 2, 3))
	}
	pa, pb := fp.NewPromise[int](), fp.NewPromise[int]()
	oa, ob := srcOutcome("a", eA), srcOutcome("b", eB)
	completeLater(pa, oa)
	completeLater(pb, ob)
	d := e.mk(pa.Future(), pb.Future(), ex)
	zz.Quiesce()
	sameOut(d, e.ref(oa, ob), name)
}

func VH_c06_Map()               { run("Map", false) }
func VH_c06_MethodMap()         { run("MethodMap", false) }
func VH_c06_FlatMap()           { run("FlatMap", false) }
func VH_c06_MethodFlatMap()     { run("MethodFlatMap", false) }
func VH_c06_Flatten()           { run("Flatten", false) }
func VH_c06_Map2()              { run("Map2", false) }
func VH_c06_LiftA2()            { run("LiftA2", false) }
func VH_c06_LiftA3()            { run("LiftA3", false) }
func VH_c06_LiftM2()            { run("LiftM2", false) }
func VH_c06_Zip()               { run("Zip", false) }
func VH_c06_Zip3()              { run("Zip3", false) }
func VH_c06_Ap()                { run("Ap", false) }
func VH_c06_ApFunc()            { run("ApFunc", false) }
func VH_c06_Sequence()          { run("Sequence", false) }
func VH_c06_TraverseSeq()       { run("TraverseSeq", false) }
func VH_c06_Transform()         { run("Transform", false) }
func VH_c06_TransformWith()     { run("TransformWith", false) }
func VH_c06_TransformWithBoth() { run("TransformWithBoth", false) }
func VH_c06_TransformFails()    { run("TransformFails", false) }
func VH_c06_Recover()           { run("Recover", false) }
func VH_c06_RecoverWith()       { run("RecoverWith", false) }
func VH_c06_RecoverCase()       { run("RecoverCase", false) }
func VH_c06_RecoverCaseWith()   { run("RecoverCaseWith", false) }
func VH_c06_Or()                { run("Or", false) }
func VH_c06_OrFuture()          { run("OrFuture", false) }
func VH_c06_Failed()            { run("Failed", false) }
func VH_c06_Method1_FlapMap()   { run("Method1_FlapMap", false) }
func VH_c06_Compose()           { run("Compose", false) }
func VH_c06_Applicative2()      { run("Applicative2", false) }
func VH_c06_Replace_With()      { run("Replace_With", false) }
func VH_c06_goexec_Map()        { run("Map", true) }
func VH_c06_goexec_FlatMap()    { run("FlatMap", true) }
func VH_c06_goexec_Map2()       { run("Map2", true) }
func VH_c06_goexec_Sequence()   { run("Sequence", true) }
func VH_c06_goexec_Recover()    { run("Recover", true) }
func VH_c06_goexec_Or()         { run("Or", true) }
