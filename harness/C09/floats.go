//verif:overlay internal/zzverif_h/c09/floats.go
package c09

import (
	"math"

	"github.com/csgura/fp"
	"github.com/csgura/fp/eq"
	"github.com/csgura/fp/hash"
	zz "github.com/csgura/fp/internal/zzverif"
)

// Floats are not symbolic in the executor. A catalogue of concrete values whose conversions are fully defined
// (NaN excluded by the property; negative non-zero values excluded because Go leaves float->uint64 of negative
// values implementation-defined) is combined pair-wise; the signed zeros are the interesting Eqv-equal pair.
func floatCatalogue() []float64 {
	return []float64{0, math.Copysign(0, -1), 1, 2.5, 1e10, 0.5, 3}
}

func VH_c09_float_hash_agrees_with_eq() {
	cat := floatCatalogue()
	a := cat[zz.Choice("a", len(cat))]
	b := cat[zz.Choice("b", len(cat))]
	h := hash.Number[float64]()
	zz.Assert(h.Eqv(a, b) == (a == b), "hash.Number[float64].Eqv is ==")
	if h.Eqv(a, b) {
		zz.Assert(h.Hash(a) == h.Hash(b), "hash.Number[float64]: Eqv-equal values (incl. +0 and -0) hash equally")
	}
	zz.Assert(h.Hash(a) == h.Hash(a), "hash.Number[float64]: deterministic")
	e := eq.Given[float64]()
	zz.Assert(e.Eqv(a, b) == (a == b) && e.Eqv(a, a), "eq.Given[float64]")
	// the same pair inside the combinators
	ho := hash.Option(h)
	if ho.Eqv(fp.Some(a), fp.Some(b)) {
		zz.Assert(ho.Hash(fp.Some(a)) == ho.Hash(fp.Some(b)), "hash.Option over floats")
	}
	hs := hash.Seq(h)
	if hs.Eqv(fp.Seq[float64]{a, 1}, fp.Seq[float64]{b, 1}) {
		zz.Assert(hs.Hash(fp.Seq[float64]{a, 1}) == hs.Hash(fp.Seq[float64]{b, 1}), "hash.Seq over floats")
	}
	f32 := hash.Number[float32]()
	x, y := float32(a), float32(b)
	if f32.Eqv(x, y) {
		zz.Assert(f32.Hash(x) == f32.Hash(y), "hash.Number[float32]: Eqv-equal values hash equally")
	}
}
