package hgen

import (
	"fmt"
	"strings"
)

// C08, second family: @fp.Derive(recursive=true) over named types nested two levels deep (Outer -> Mid -> Leaf)
// without any hand-written instance, where Mid is reached for the first time through a container. One scratch
// package per container kind, so that "first met" holds in each; Clone, Eq and Hashable are derived in each.

type contKind struct {
	name, typ string
	mk        string // expression building the container from mkMid("x"), mkMid("y")
	mids      string // expression listing the Mids of a value o as []Mid (for the reference equality)
}

var contKinds = []contKind{
	{"slice", "[]Mid", `func(t string) []Mid {
		if zz.Bool(t + ".empty") {
			return nil
		}
		return []Mid{mkMid(t + ".0")}
	}`, `func(o Outer) []Mid { return o.Items }`},
	{"ptr", "*Mid", `func(t string) *Mid {
		if zz.Bool(t + ".nil") {
			return nil
		}
		m := mkMid(t + ".0")
		return &m
	}`, `func(o Outer) []Mid {
		if o.Items == nil {
			return nil
		}
		return []Mid{*o.Items}
	}`},
	{"option", "fp.Option[Mid]", `func(t string) fp.Option[Mid] {
		if zz.Bool(t + ".none") {
			return fp.None[Mid]()
		}
		return fp.Some(mkMid(t + ".0"))
	}`, `func(o Outer) []Mid {
		if o.Items.IsEmpty() {
			return nil
		}
		return []Mid{o.Items.Get()}
	}`},
	{"seq", "fp.Seq[Mid]", `func(t string) fp.Seq[Mid] { return fp.Seq[Mid]{mkMid(t + ".0")} }`, `func(o Outer) []Mid { return o.Items }`},
	{"direct", "Mid", `func(t string) Mid { return mkMid(t + ".0") }`, `func(o Outer) []Mid { return []Mid{o.Items} }`},
}

func derive2Types(pkg string, k contKind) string {
	return fmt.Sprintf(`package %s

import (
	"github.com/csgura/fp"
	"github.com/csgura/fp/clone"
	"github.com/csgura/fp/eq"
	"github.com/csgura/fp/hash"
)

//go:generate gombok

var _ fp.Unit

type Leaf struct {
	Data []int
	K    int
}

type Mid struct {
	Name string
	L    Leaf
}

// Mid is reached through: %s
type Outer struct {
	Items %s
	N     int
}

// @fp.Derive(recursive=true)
var _ clone.Derives[fp.Clone[Outer]]

// @fp.Derive(recursive=true)
var _ eq.Derives[fp.Eq[Outer]]

// @fp.Derive(recursive=true)
var _ hash.Derives[fp.Hashable[Outer]]
`, pkg, k.name, k.typ)
}

func derive2Harness(pkg string, k contKind) string {
	s := `package PKG

import (
	"github.com/csgura/fp"
	zz "scratchmod/zzverif"
)

var _ fp.Unit

func mkLeaf(t string) Leaf { return Leaf{Data: zz.SliceInt(t+".data", 1, 1, 0), K: zz.Int(t + ".k")} }
func mkMid(t string) Mid   { return Mid{Name: zz.Str(t+".name", 1), L: mkLeaf(t + ".l")} }

var mkItems = MKITEMS

var mids = MIDS

func mkOuter(t string) Outer { return Outer{Items: mkItems(t + ".items"), N: zz.Int(t + ".n")} }

func eqLeaf(a, b Leaf) bool {
	if a.K != b.K || len(a.Data) != len(b.Data) {
		return false
	}
	for i := range a.Data {
		if a.Data[i] != b.Data[i] {
			return false
		}
	}
	return true
}

func eqOuter(a, b Outer) bool {
	ma, mb := mids(a), mids(b)
	if a.N != b.N || len(ma) != len(mb) {
		return false
	}
	for i := range ma {
		if ma[i].Name != mb[i].Name || !eqLeaf(ma[i].L, mb[i].L) {
			return false
		}
	}
	return true
}

func VH_c08_KIND_recursive_clone() {
	a := mkOuter("a")
	c := CloneOuter().Clone(a)
	zz.Assert(zz.DeepEq(a, c), "derived Clone[Outer] (recursive, Mid through KIND): equal copy")
	zz.Assert(zz.Disjoint(a, c), "derived Clone[Outer] (recursive, Mid through KIND): shares no mutable storage, two levels down")
}

func VH_c08_KIND_recursive_eq_hash() {
	a, b := mkOuter("a"), mkOuter("b")
	zz.Assert(EqOuter().Eqv(a, b) == eqOuter(a, b), "derived Eq[Outer] (recursive, Mid through KIND) is structural two levels down")
	h := HashableOuter()
	zz.Assert(h.Eqv(a, b) == eqOuter(a, b), "derived Hashable[Outer].Eqv (recursive, Mid through KIND)")
	if h.Eqv(a, b) {
		zz.Assert(h.Hash(a) == h.Hash(b), "derived Hashable[Outer]: equal values hash equally")
	}
}
`
	s = strings.ReplaceAll(s, "PKG", pkg)
	s = strings.ReplaceAll(s, "MKITEMS", k.mk)
	s = strings.ReplaceAll(s, "MIDS", k.mids)
	s = strings.ReplaceAll(s, "KIND", k.name)
	return s
}

func derive2Programs() []Program {
	var out []Program
	for _, k := range contKinds {
		pkg := "d2" + k.name
		out = append(out, Program{Pkg: pkg, Files: map[string][]byte{"types.go": []byte(derive2Types(pkg, k))},
			Harness: map[string][]byte{"zz_verif_harness.go": []byte(derive2Harness(pkg, k))},
			Desc:    "derive recursive=true: Outer -> " + k.typ + " -> Leaf, no hand-written instances"})
	}
	return out
}

// third family: mutually recursive types (Dept -> *Emp -> *Dept, Emp -> *Emp) with plain @fp.Derive: the instance
// constructors refer to each other and must not call each other eagerly.
const derive3Types = `package d3

import (
	"github.com/csgura/fp"
	"github.com/csgura/fp/clone"
	"github.com/csgura/fp/eq"
	"github.com/csgura/fp/hash"
)

//go:generate gombok

type Dept struct {
	Name string
	Head *Emp
}

type Emp struct {
	ID   int
	Dept *Dept
	Peer *Emp
}

// @fp.Derive
var _ eq.Derives[fp.Eq[Dept]]

// @fp.Derive
var _ eq.Derives[fp.Eq[Emp]]

// @fp.Derive
var _ hash.Derives[fp.Hashable[Dept]]

// @fp.Derive
var _ hash.Derives[fp.Hashable[Emp]]

// @fp.Derive
var _ clone.Derives[fp.Clone[Dept]]

// @fp.Derive
var _ clone.Derives[fp.Clone[Emp]]
`

const derive3Harness = `package d3

import (
	zz "scratchmod/zzverif"
)

// Dept -> Emp -> (Dept without head | nil), Emp -> Peer (one more Emp | nil)
func mkDept(t string) Dept {
	d := Dept{Name: zz.Str(t+".name", 1)}
	if zz.Bool(t + ".head") {
		e := Emp{ID: zz.Int(t + ".head.id")}
		if zz.Bool(t + ".head.dept") {
			e.Dept = &Dept{Name: zz.Str(t+".head.dept.name", 1)}
		}
		if zz.Bool(t + ".head.peer") {
			e.Peer = &Emp{ID: zz.Int(t + ".head.peer.id")}
		}
		d.Head = &e
	}
	return d
}

func eqEmpRef(a, b *Emp) bool {
	if a == nil || b == nil {
		return a == nil && b == nil
	}
	return a.ID == b.ID && eqDeptRef(a.Dept, b.Dept) && eqEmpRef(a.Peer, b.Peer)
}

func eqDeptRef(a, b *Dept) bool {
	if a == nil || b == nil {
		return a == nil && b == nil
	}
	return a.Name == b.Name && eqEmpRef(a.Head, b.Head)
}

func VH_c08_mutual_recursion_eq_hash() {
	a, b := mkDept("a"), mkDept("b")
	zz.Assert(EqDept().Eqv(a, b) == eqDeptRef(&a, &b), "derived Eq[Dept] over mutually recursive types is structural")
	h := HashableDept()
	zz.Assert(h.Eqv(a, b) == eqDeptRef(&a, &b), "derived Hashable[Dept].Eqv over mutually recursive types")
	if h.Eqv(a, b) {
		zz.Assert(h.Hash(a) == h.Hash(b), "derived Hashable[Dept]: equal values hash equally")
	}
	if a.Head != nil && b.Head != nil {
		zz.Assert(EqEmp().Eqv(*a.Head, *b.Head) == eqEmpRef(a.Head, b.Head), "derived Eq[Emp]")
	}
}

func VH_c08_mutual_recursion_clone() {
	a := mkDept("a")
	c := CloneDept().Clone(a)
	zz.Assert(zz.DeepEq(a, c) && zz.Disjoint(a, c), "derived Clone[Dept] over mutually recursive types: equal copy sharing no mutable storage")
}
`

func derive3Programs() []Program {
	return []Program{{Pkg: "d3", Files: map[string][]byte{"types.go": []byte(derive3Types)},
		Harness: map[string][]byte{"zz_verif_harness.go": []byte(derive3Harness)},
		Desc:    "derive over mutually recursive types"}}
}

// fourth family: the working package declares its own catch-all instance (func CloneGiven[T any]). It takes
// precedence over the derive package's catch-all (clone.Given) for every field type that has no more specific
// instance - observable through a call counter.
const derive4Types = `package d4

import (
	"github.com/csgura/fp"
	"github.com/csgura/fp/clone"
)

//go:generate gombok

var LocalCalls int

// the working package's own fallback instance
func CloneGiven[T any]() fp.Clone[T] {
	return clone.New(func(t T) T {
		LocalCalls++
		return t
	})
}

// Inner has no Clone instance of its own anywhere
type Inner struct {
	N int
}

type Outer struct {
	In  Inner
	Ptr *Inner
	L   []Inner
	K   int
}

// @fp.Derive
var _ clone.Derives[fp.Clone[Outer]]
`

const derive4Harness = `package d4

import (
	zz "scratchmod/zzverif"
)

func VH_c08_local_catch_all_precedence() {
	x := Outer{In: Inner{N: zz.Int("in")}, K: zz.Int("k"), L: []Inner{{N: zz.Int("l0")}}}
	if zz.Bool("ptr") {
		x.Ptr = &Inner{N: zz.Int("p")}
	}
	LocalCalls = 0
	c := CloneOuter().Clone(x)
	zz.Assert(c.In == x.In && c.K == x.K && len(c.L) == 1 && c.L[0] == x.L[0] && (c.Ptr == nil) == (x.Ptr == nil) && (x.Ptr == nil || *c.Ptr == *x.Ptr), "derived Clone[Outer] copies every field")
	want := 2 // In and L[0]
	if x.Ptr != nil {
		want++
	}
	zz.Assert(LocalCalls >= want, "fields without a specific instance are cloned by the working package's own catch-all instance, not by the derive package's")
}
`

func derive4Programs() []Program {
	return []Program{{Pkg: "d4", Files: map[string][]byte{"types.go": []byte(derive4Types)},
		Harness: map[string][]byte{"zz_verif_harness.go": []byte(derive4Harness)},
		Desc:    "derive: local catch-all instance takes precedence over the derive package's"}}
}

// fifth family: []byte fields in a derived Clone, and a derived instance that uses another generic instance
// generated in the same run whose type parameters are used in another order than they are declared.
const derive5Types = `package d5

import (
	"github.com/csgura/fp"
	"github.com/csgura/fp/clone"
	"github.com/csgura/fp/eq"
	"github.com/csgura/fp/hash"
)

//go:generate gombok

type Blob struct {
	Data []byte
	N    []int
}

// @fp.Derive
var _ clone.Derives[fp.Clone[Blob]]

// @fp.Derive
var _ eq.Derives[fp.Eq[Blob]]

// @fp.Derive
var _ hash.Derives[fp.Hashable[Blob]]

type Rev[A, B any] struct {
	Y B
	X A
}

type UsesRev struct {
	R Rev[int, string]
	K int
}

// @fp.Derive
var _ eq.Derives[fp.Eq[Rev[any, any]]]

// @fp.Derive
var _ eq.Derives[fp.Eq[UsesRev]]
`

const derive5Harness = `package d5

import (
	zz "scratchmod/zzverif"
)

func mkBlob(t string) Blob {
	n := zz.Choice(t+".len", 3)
	b := Blob{N: zz.SliceInt(t+".n", 1, 1, 0)}
	if n > 0 {
		b.Data = make([]byte, n-1, n)
		for i := range b.Data {
			b.Data[i] = zz.Byte(t + ".d")
		}
	}
	return b
}

func VH_c08_bytes_field_clone_eq_hash() {
	a := mkBlob("a")
	c := CloneBlob().Clone(a)
	zz.Assert(zz.DeepEq(a, c) && zz.Disjoint(a, c), "derived Clone[Blob]: a []byte field is copied, not shared")
	b := mkBlob("b")
	same := len(a.Data) == len(b.Data) && len(a.N) == len(b.N)
	if same {
		for i := range a.Data {
			same = same && a.Data[i] == b.Data[i]
		}
		for i := range a.N {
			same = same && a.N[i] == b.N[i]
		}
	}
	zz.Assert(EqBlob().Eqv(a, b) == same, "derived Eq[Blob] compares the bytes")
	h := HashableBlob()
	if h.Eqv(a, b) {
		zz.Assert(h.Hash(a) == h.Hash(b), "derived Hashable[Blob]: equal values hash equally")
	}
}

func VH_c08_generic_instance_parameter_order() {
	x := UsesRev{R: Rev[int, string]{Y: zz.Str("x.y", 1), X: zz.Int("x.x")}, K: zz.Int("x.k")}
	y := UsesRev{R: Rev[int, string]{Y: zz.Str("y.y", 1), X: zz.Int("y.x")}, K: zz.Int("y.k")}
	zz.Assert(EqUsesRev().Eqv(x, y) == (x.R.Y == y.R.Y && x.R.X == y.R.X && x.K == y.K), "derived Eq[UsesRev] uses the generic instance of Rev with the instances in the right positions")
}
`

func derive5Programs() []Program {
	return []Program{{Pkg: "d5", Files: map[string][]byte{"types.go": []byte(derive5Types)},
		Harness: map[string][]byte{"zz_verif_harness.go": []byte(derive5Harness)},
		Desc:    "derive: []byte fields; generic instance with parameters used out of declaration order"}}
}

// sixth family: a plain @fp.Derive that reaches a nested type is declared BEFORE a recursive=true derive that
// reaches the same nested type: the two must not influence each other (the recursive one still derives the
// nested instance and copies it deeply).
const derive6Types = `package d6

import (
	"github.com/csgura/fp"
	"github.com/csgura/fp/clone"
)

//go:generate gombok

type Inner struct {
	Items []int
}

type Plain struct {
	In Inner
	K  int
}

type Deep struct {
	In Inner
	P  *Inner
}

// @fp.Derive
var _ clone.Derives[fp.Clone[Plain]]

// @fp.Derive(recursive=true)
var _ clone.Derives[fp.Clone[Deep]]
`

const derive6Harness = `package d6

import (
	zz "scratchmod/zzverif"
)

func VH_c08_plain_before_recursive() {
	x := Deep{In: Inner{Items: zz.SliceInt("in", 1, 1, 0)}}
	if zz.Bool("p") {
		x.P = &Inner{Items: zz.SliceInt("p", 1, 0, 0)}
	}
	c := CloneDeep().Clone(x)
	zz.Assert(zz.DeepEq(x, c) && zz.Disjoint(x, c), "derived Clone[Deep] (recursive=true, declared after a plain derive reaching the same nested type) shares no mutable storage")
	y := Plain{In: Inner{Items: zz.SliceInt("y", 1, 0, 0)}, K: zz.Int("k")}
	d := ClonePlain().Clone(y)
	zz.Assert(zz.DeepEq(y, d), "derived Clone[Plain] is an equal copy")
}
`

func derive6Programs() []Program {
	return []Program{{Pkg: "d6", Files: map[string][]byte{"types.go": []byte(derive6Types)},
		Harness: map[string][]byte{"zz_verif_harness.go": []byte(derive6Harness)},
		Desc:    "derive: plain derive declared before a recursive one reaching the same nested type"}}
}

// seventh family: fields of DEFINED non-struct types (a defined map, slice, pointer and basic type) under
// recursive=true: the instance is derived through the underlying type, so the clone is deep for each of them.
const derive7Types = `package d7

import (
	"github.com/csgura/fp"
	"github.com/csgura/fp/clone"
	"github.com/csgura/fp/eq"
)

//go:generate gombok

type Index map[string][]int

type IDs []int

type Count int

type Cell struct {
	V []int
}

type Ref *Cell

type Holder struct {
	Ix  Index
	Ids IDs
	N   Count
	R   Ref
}

// @fp.Derive(recursive=true)
var _ clone.Derives[fp.Clone[Holder]]

type Keyed struct {
	Ids IDs
	N   Count
}

// @fp.Derive(recursive=true)
var _ eq.Derives[fp.Eq[Keyed]]
`

const derive7Harness = `package d7

import (
	zz "scratchmod/zzverif"
)

func VH_c08_defined_container_types_clone() {
	zz.Config("mapperm", 0)
	x := Holder{N: Count(zz.Int("n"))}
	if zz.Bool("ix") {
		x.Ix = Index{zz.Str("k", 1): zz.SliceInt("ixv", 1, 1, 0)}
	}
	if zz.Bool("ids") {
		x.Ids = IDs(zz.SliceInt("ids", 2, 0, 0))
	}
	if zz.Bool("r") {
		x.R = &Cell{V: zz.SliceInt("cell", 1, 0, 0)}
	}
	c := CloneHolder().Clone(x)
	zz.Assert(zz.DeepEq(x, c), "derived Clone[Holder] (fields of defined map/slice/pointer/basic types, recursive=true) is an equal copy")
	zz.Assert(zz.Disjoint(x, c), "derived Clone[Holder] shares no mutable storage through a field of a defined map/slice/pointer type")
}

func VH_c08_defined_types_eq() {
	a := Keyed{Ids: IDs(zz.SliceInt("a", 2, 0, 0)), N: Count(zz.Int("an"))}
	b := Keyed{Ids: IDs(zz.SliceInt("b", 2, 0, 0)), N: Count(zz.Int("bn"))}
	want := a.N == b.N && len(a.Ids) == len(b.Ids)
	for i := range a.Ids {
		want = want && a.Ids[i] == b.Ids[i]
	}
	zz.Assert(EqKeyed().Eqv(a, b) == want, "derived Eq[Keyed] is the conjunction of the field equalities through defined slice/basic types")
}
`

func derive7Programs() []Program {
	return []Program{{Pkg: "d7", Files: map[string][]byte{"types.go": []byte(derive7Types)},
		Harness: map[string][]byte{"zz_verif_harness.go": []byte(derive7Harness)},
		Desc:    "derive: fields of defined map/slice/pointer/basic types under recursive=true"}}
}

// eighth family: the type's own package declares an instance FUNCTION for a GENERIC type (EqBox[T](Eq[T])); a
// struct in another package has a field of an instantiation of it. The own-package instance takes precedence and
// is called with the instance of the type argument.
const deriveQ2 = `package q2

import (
	"github.com/csgura/fp"
	"github.com/csgura/fp/eq"
)

type Box[T any] struct {
	V   T
	Tag int
}

// instance declared in the type's own package: the tag does not take part in equality
func EqBox[T any](eqT fp.Eq[T]) fp.Eq[Box[T]] {
	return eq.New(func(a, b Box[T]) bool { return eqT.Eqv(a.V, b.V) })
}
`

const derive8Types = `package d8

import (
	"github.com/csgura/fp"
	"github.com/csgura/fp/eq"

	"scratchmod/q2"
)

//go:generate gombok

type Crate struct {
	b q2.Box[int]
	n int
}

// @fp.Derive
var _ eq.Derives[fp.Eq[Crate]]
`

const derive8Harness = `package d8

import (
	"scratchmod/q2"
	zz "scratchmod/zzverif"
)

func VH_c08_own_package_generic_instance() {
	a := Crate{b: q2.Box[int]{V: zz.Int("a.v"), Tag: zz.Int("a.tag")}, n: zz.Int("a.n")}
	b := Crate{b: q2.Box[int]{V: zz.Int("b.v"), Tag: zz.Int("b.tag")}, n: zz.Int("b.n")}
	zz.Assert(EqCrate().Eqv(a, b) == (a.b.V == b.b.V && a.n == b.n), "derived Eq[Crate] uses the generic instance function declared in the field type's own package")
}
`

func derive8Programs() []Program {
	return []Program{
		{Pkg: "q2", Files: map[string][]byte{"box.go": []byte(deriveQ2)}, NoGombok: true, Desc: "support package with a generic type and its own instance function"},
		{Pkg: "d8", Files: map[string][]byte{"types.go": []byte(derive8Types)},
			Harness: map[string][]byte{"zz_verif_harness.go": []byte(derive8Harness)},
			Desc:    "derive: instance function of a generic type declared in the type's own package"}}
}

// ninth family: structs at the widest tuple arity (max.Product = 22) and around it. Instances that rebuild the
// struct (Monoid, Clone) and those that only read it (Eq) are derived for 21, 22 and 23 fields.
func derive9Programs() []Program {
	var ty, hn strings.Builder
	ty.WriteString("package d9\n\nimport (\n\t\"github.com/csgura/fp\"\n\t\"github.com/csgura/fp/clone\"\n\t\"github.com/csgura/fp/eq\"\n\t\"github.com/csgura/fp/monoid\"\n)\n\n//go:generate gombok\n")
	hn.WriteString("package d9\n\nimport (\n\tzz \"scratchmod/zzverif\"\n)\n")
	for _, n := range []int{21, 22, 23} {
		name := fmt.Sprintf("W%d", n)
		fmt.Fprintf(&ty, "\ntype %s struct {\n", name)
		for i := 1; i <= n; i++ {
			fmt.Fprintf(&ty, "\tF%02d int\n", i)
		}
		ty.WriteString("}\n")
		fmt.Fprintf(&ty, "\n// @fp.Derive\nvar _ eq.Derives[fp.Eq[%s]]\n\n// @fp.Derive\nvar _ clone.Derives[fp.Clone[%s]]\n\n// @fp.Derive\nvar _ monoid.Derives[fp.Monoid[%s]]\n", name, name, name)
		fmt.Fprintf(&hn, "\nfunc VH_c08_wide_struct_%d() {\n\tvar a, b %s\n", n, name)
		for i := 1; i <= n; i++ {
			fmt.Fprintf(&hn, "\ta.F%02d, b.F%02d = zz.Int(\"a%02d\"), zz.Int(\"b%02d\")\n", i, i, i, i)
		}
		hn.WriteString("\twant := true\n")
		for i := 1; i <= n; i++ {
			fmt.Fprintf(&hn, "\twant = want && a.F%02d == b.F%02d\n", i, i)
		}
		fmt.Fprintf(&hn, "\tzz.Assert(Eq%s().Eqv(a, b) == want, \"derived Eq of a %d-field struct is the conjunction of the field equalities\")\n", name, n)
		fmt.Fprintf(&hn, "\tc := Clone%s().Clone(a)\n\tzz.Assert(c == a, \"derived Clone of a %d-field struct is an equal copy\")\n", name, n)
		fmt.Fprintf(&hn, "\tm := Monoid%s()\n\tzz.Assert(m.Combine(a, m.Empty()) == a && m.Combine(m.Empty(), a) == a, \"derived Monoid of a %d-field struct: Empty is an identity\")\n\ts := m.Combine(a, b)\n", name, n)
		fmt.Fprintf(&hn, "\tzz.Assert(s.F01 == m.Combine(%s{F01: a.F01}, %s{F01: b.F01}).F01 && s.F%02d == m.Combine(%s{F%02d: a.F%02d}, %s{F%02d: b.F%02d}).F%02d, \"derived Monoid of a %d-field struct combines field-wise (first and last field)\")\n}\n", name, name, n, name, n, n, name, n, n, n, n)
	}
	return []Program{{Pkg: "d9", Files: map[string][]byte{"types.go": []byte(ty.String())},
		Harness: map[string][]byte{"zz_verif_harness.go": []byte(hn.String())},
		Desc:    "derive: structs of 21, 22 and 23 fields (Eq, Clone, Monoid)"}}
}
