//verif:overlay option/zz_verif_prelude.go
package option

import (
	"github.com/csgura/fp"
	zz "github.com/csgura/fp/internal/zzverif"
)

// symbolic Option[int]: every constructor
func vhMk(name string) fp.Option[int] {
	if zz.Bool(name + ".ok") {
		return fp.Some(zz.Int(name + ".v"))
	}
	return fp.None[int]()
}

func vhMkOf[T any](name string, v T) fp.Option[T] {
	if zz.Bool(name + ".ok") {
		return fp.Some(v)
	}
	return fp.None[T]()
}

func vhUnit[T any](v T) fp.Option[T] { return Some(v) }

// arbitrary Kleisli result: constructor and payload are uninterpreted functions of the arguments
func vhRet(name string, args ...int) fp.Option[int] {
	if zz.UFBool(name+".ok", args...) {
		return fp.Some(zz.UFInt(name+".v", args...))
	}
	return fp.None[int]()
}

func vhEq[T comparable](a, b fp.Option[T]) bool {
	if a.IsDefined() != b.IsDefined() {
		return false
	}
	if a.IsDefined() {
		return a.Get() == b.Get()
	}
	return true
}

func vhEqSlice(a, b fp.Option[[]int]) bool {
	if a.IsDefined() != b.IsDefined() {
		return false
	}
	if a.IsDefined() {
		x, y := a.Get(), b.Get()
		if len(x) != len(y) {
			return false
		}
		for i := range x {
			if x[i] != y[i] {
				return false
			}
		}
	}
	return true
}

func vhEqSeq(a, b fp.Option[fp.Seq[int]]) bool {
	return vhEqSlice(Map(a, func(s fp.Seq[int]) []int { return s }), Map(b, func(s fp.Seq[int]) []int { return s }))
}

func vhDrain(it fp.Iterator[int]) []int {
	var out []int
	for it.HasNext() {
		out = append(out, it.Next())
	}
	return out
}

func vhEqIter(a, b fp.Option[fp.Iterator[int]]) bool {
	if a.IsDefined() != b.IsDefined() {
		return false
	}
	if a.IsDefined() {
		return vhEqSlice(fp.Some(vhDrain(a.Get())), fp.Some(vhDrain(b.Get())))
	}
	return true
}

// call log for C02: every user-supplied function appends its id and arguments
var vhCalls []int

func vhLog(id int, args ...int) {
	vhCalls = append(vhCalls, id)
	vhCalls = append(vhCalls, args...)
	vhCalls = append(vhCalls, -7777)
}

func vhLogEq(a, b []int) bool {
	if len(a) != len(b) {
		return false
	}
	for i := range a {
		if a[i] != b[i] {
			return false
		}
	}
	return true
}
