package main

import (
	"fmt"
	"os"
	"path/filepath"

	"verif/engine/gosym"
)

// selftest: the pipeline itself must (a) report and natively reproduce a violated assertion, a schedule-dependent
// violation and a non-terminating loop, and (b) pass a harness that needs the solver.
func selftest() int {
	id := "SELFTEST"
	srcs, err := collect(id, "quick")
	if err != nil || len(srcs) == 0 {
		fmt.Println("selftest: cannot collect harnesses:", err)
		return 2
	}
	overlay := map[string][]byte{}
	zz, err := os.ReadFile(filepath.Join(verifDir, "rt/zzverif/zzverif.go"))
	if err != nil {
		fmt.Println(err)
		return 2
	}
	overlay[filepath.Join(repoDir, "internal/zzverif/zzverif.go")] = zz
	pkgs := map[string]bool{}
	for _, s := range srcs {
		overlay[filepath.Join(repoDir, s.Virtual)] = s.Data
		pkgs["./"+filepath.Dir(s.Virtual)] = true
	}
	var patterns []string
	for p := range pkgs {
		patterns = append(patterns, p)
	}
	eng, err := gosym.Load(repoDir, overlay, patterns)
	if err != nil {
		fmt.Println("selftest: load failed:", err)
		return 2
	}
	eng.Tier = "quick"
	eng.Workers = 4
	hs := eng.Harnesses()
	results := eng.RunAll(hs, nil)
	want := map[string]string{"VH_st_must_fail": "assert", "VH_st_must_pass": "", "VH_st_sched_must_fail": "assert", "VH_st_loop_must_fail": "bound"}
	bad := 0
	for _, r := range results {
		exp, known := want[r.H.Name]
		if !known {
			continue
		}
		if exp == "" {
			if len(r.Cexs) != 0 || r.Asserts == 0 || len(r.Unsupp) != 0 {
				fmt.Printf("selftest: %s should pass: cexs=%d asserts=%d unsupported=%v\n", r.H.Name, len(r.Cexs), r.Asserts, r.Unsupp)
				bad++
			}
			continue
		}
		if len(r.Cexs) == 0 {
			fmt.Printf("selftest: %s should be violated (%s) but no counterexample was found\n", r.H.Name, exp)
			bad++
			continue
		}
		c := r.Cexs[0]
		if c.Kind != exp {
			fmt.Printf("selftest: %s: expected %s, got %s\n", r.H.Name, exp, c.Kind)
			bad++
			continue
		}
		dir, ok, det := replayCex(id, "quick", c, r.H, srcs)
		if !ok {
			fmt.Printf("selftest: %s: counterexample not reproduced natively: %s (%s)\n", r.H.Name, det, dir)
			bad++
			continue
		}
		os.RemoveAll(dir)
	}
	if bad > 0 {
		fmt.Println("selftest: FAILED")
		return 2
	}
	fmt.Printf("selftest: ok (%d harnesses: violated assertion, schedule-dependent violation and non-termination found and reproduced natively; solver-decided harness passes)\n", len(results))
	return 0
}
