// Package gosym is a symbolic interpreter for go/ssa.
package gosym

import (
	"fmt"
	"go/types"
	"strings"

	"golang.org/x/tools/go/ssa"

	"verif/engine/sym"
)

// Value is one of:
//
//	*sym.Term (bool and integer kinds), float64 (concrete floats only), StrV, StructV, ArrayV, TupleV,
//	PtrV, SliceV, MapV, IfaceV, FuncV, ChanV, *IterV
//
// Aggregates (StructV, ArrayV, StrV) are immutable: stores rebuild the spine.
type Value interface{}

// StrV is a string: either concrete (Conc, C) or a vector of symbolic bytes (B).
type StrV struct {
	B    []*sym.Term
	C    string
	Conc bool
}

func (s StrV) Len() int {
	if s.Conc {
		return len(s.C)
	}
	return len(s.B)
}

// sb materialises the byte terms of a string.
func (m *Machine) sb(s StrV) []*sym.Term {
	if !s.Conc {
		return s.B
	}
	b := make([]*sym.Term, len(s.C))
	for i := 0; i < len(s.C); i++ {
		b[i] = m.S.Const(8, uint64(s.C[i]))
	}
	return b
}

func (m *Machine) strAt(s StrV, i int) *sym.Term {
	if s.Conc {
		return m.S.Const(8, uint64(s.C[i]))
	}
	return s.B[i]
}

type StructV []Value
type ArrayV []Value
type TupleV []Value

type Object struct {
	ID     int
	Val    Value
	What   string
	Typ    types.Type
	Frozen bool // part of a frozen snapshot (writes are logged)
}

type PtrV struct {
	Obj  *Object
	Path []int
}

type SliceV struct {
	Arr           *Object // holds an ArrayV of the full backing array
	Off, Len, Cap int
}

type MapEntry struct {
	K, V Value
}

type MapObj struct {
	ID      int
	KeyT    types.Type
	ValT    types.Type
	Entries []MapEntry
	Frozen  bool
}

type MapV struct{ M *MapObj }

type IfaceV struct {
	T types.Type // nil for nil interface
	V Value
}

type FuncV struct {
	Fn     *ssa.Function
	Env    []Value
	B      *ssa.Builtin
	Native *NativeFn // engine-implemented closure (used by stubs such as iter.Pull)
}

type NativeFn struct {
	Name string
	F    func(m *Machine, caller *frame, args []Value) Value
}

func (f FuncV) IsNil() bool { return f.Fn == nil && f.B == nil && f.Native == nil }

type ChanObj struct {
	ID     int
	Buf    []Value
	Cap    int
	Closed bool
	ElemT  types.Type
}

type ChanV struct{ C *ChanObj }

// IterV is a range iterator over a map or a string.
type IterV struct {
	keys []Value
	vals []Value
	pos  int
}

type FloatV float64

func isNilPtr(p PtrV) bool { return p.Obj == nil }

func samePath(a, b []int) bool {
	if len(a) != len(b) {
		return false
	}
	for i := range a {
		if a[i] != b[i] {
			return false
		}
	}
	return true
}

// ---- type helpers

func under(t types.Type) types.Type { return types.Unalias(t).Underlying() }

func intInfo(t types.Type) (w int, signed bool, ok bool) {
	b, isb := under(t).(*types.Basic)
	if !isb {
		return 0, false, false
	}
	switch b.Kind() {
	case types.Int, types.Int64, types.UntypedInt:
		return 64, true, true
	case types.Int8:
		return 8, true, true
	case types.Int16:
		return 16, true, true
	case types.Int32, types.UntypedRune:
		return 32, true, true
	case types.Uint, types.Uint64, types.Uintptr:
		return 64, false, true
	case types.Uint8:
		return 8, false, true
	case types.Uint16:
		return 16, false, true
	case types.Uint32:
		return 32, false, true
	}
	return 0, false, false
}

func isBool(t types.Type) bool {
	b, ok := under(t).(*types.Basic)
	return ok && b.Info()&types.IsBoolean != 0
}
func isString(t types.Type) bool {
	b, ok := under(t).(*types.Basic)
	return ok && b.Info()&types.IsString != 0
}
func isFloat(t types.Type) bool {
	b, ok := under(t).(*types.Basic)
	return ok && b.Info()&(types.IsFloat|types.IsComplex) != 0
}

// Zero returns the zero value of t.
func (m *Machine) Zero(t types.Type) Value {
	switch u := under(t).(type) {
	case *types.Basic:
		if u.Kind() == types.UnsafePointer {
			return PtrV{}
		}
		if u.Info()&types.IsBoolean != 0 {
			return m.S.False()
		}
		if u.Info()&types.IsString != 0 {
			return StrV{}
		}
		if w, _, ok := intInfo(u); ok {
			return m.S.Const(w, 0)
		}
		if u.Info()&(types.IsFloat|types.IsComplex) != 0 {
			return FloatV(0)
		}
		if u.Kind() == types.UntypedNil {
			return IfaceV{}
		}
		m.unsupported("zero of basic type " + u.String())
	case *types.Pointer:
		return PtrV{}
	case *types.Slice:
		return SliceV{}
	case *types.Map:
		return MapV{}
	case *types.Interface:
		return IfaceV{}
	case *types.Signature:
		return FuncV{}
	case *types.Chan:
		return ChanV{}
	case *types.Struct:
		s := make(StructV, u.NumFields())
		for i := range s {
			s[i] = m.Zero(u.Field(i).Type())
		}
		return s
	case *types.Array:
		n := int(u.Len())
		a := make(ArrayV, n)
		if n > 0 {
			z := m.Zero(u.Elem())
			for i := range a {
				a[i] = z
			}
		}
		return a
	case *types.Tuple:
		tv := make(TupleV, u.Len())
		for i := range tv {
			tv[i] = m.Zero(u.At(i).Type())
		}
		return tv
	}
	m.unsupported(fmt.Sprintf("zero of type %v (%T)", t, under(t)))
	return nil
}

func getPath(v Value, path []int) Value {
	for _, i := range path {
		switch a := v.(type) {
		case StructV:
			v = a[i]
		case ArrayV:
			v = a[i]
		default:
			panic(fmt.Sprintf("getPath through %T", v))
		}
	}
	return v
}

func setPath(v Value, path []int, nv Value) Value {
	if len(path) == 0 {
		return nv
	}
	switch a := v.(type) {
	case StructV:
		c := make(StructV, len(a))
		copy(c, a)
		c[path[0]] = setPath(a[path[0]], path[1:], nv)
		return c
	case ArrayV:
		c := make(ArrayV, len(a))
		copy(c, a)
		c[path[0]] = setPath(a[path[0]], path[1:], nv)
		return c
	}
	panic(fmt.Sprintf("setPath through %T", v))
}

func extPath(p []int, i int) []int {
	n := make([]int, len(p)+1)
	copy(n, p)
	n[len(p)] = i
	return n
}

// ---- equality

// Equal returns a Bool term for a == b at static type t.
func (m *Machine) Equal(t types.Type, a, b Value) *sym.Term {
	switch u := under(t).(type) {
	case *types.Basic:
		if u.Kind() == types.UnsafePointer {
			return m.S.Bool(ptrEq(a.(PtrV), b.(PtrV)))
		}
		if u.Info()&types.IsString != 0 {
			return m.strEq(a.(StrV), b.(StrV))
		}
		if fa, ok := a.(FloatV); ok {
			return m.S.Bool(fa == b.(FloatV))
		}
		return m.S.Eq(a.(*sym.Term), b.(*sym.Term))
	case *types.Pointer:
		return m.S.Bool(ptrEq(a.(PtrV), b.(PtrV)))
	case *types.Chan:
		return m.S.Bool(a.(ChanV).C == b.(ChanV).C)
	case *types.Struct:
		r := m.S.True()
		sa, sb := a.(StructV), b.(StructV)
		for i := 0; i < u.NumFields(); i++ {
			if u.Field(i).Name() == "_" {
				continue
			}
			r = m.S.And(r, m.Equal(u.Field(i).Type(), sa[i], sb[i]))
			if r.IsFalse() {
				return r
			}
		}
		return r
	case *types.Array:
		r := m.S.True()
		aa, ab := a.(ArrayV), b.(ArrayV)
		for i := range aa {
			r = m.S.And(r, m.Equal(u.Elem(), aa[i], ab[i]))
		}
		return r
	case *types.Interface:
		ia, ib := a.(IfaceV), b.(IfaceV)
		if ia.T == nil || ib.T == nil {
			return m.S.Bool(ia.T == nil && ib.T == nil)
		}
		if !types.Identical(ia.T, ib.T) {
			return m.S.False()
		}
		if !types.Comparable(ia.T) {
			m.runtimePanic("runtime error: comparing uncomparable type " + ia.T.String())
		}
		return m.Equal(ia.T, ia.V, ib.V)
	case *types.Slice:
		// only comparison with nil is legal
		sa, sb := a.(SliceV), b.(SliceV)
		return m.S.Bool(sa.Arr == nil && sb.Arr == nil)
	case *types.Map:
		return m.S.Bool(a.(MapV).M == nil && b.(MapV).M == nil)
	case *types.Signature:
		return m.S.Bool(a.(FuncV).IsNil() && b.(FuncV).IsNil())
	}
	m.unsupported(fmt.Sprintf("equality at type %v", t))
	return nil
}

func ptrEq(a, b PtrV) bool {
	return a.Obj == b.Obj && samePath(a.Path, b.Path)
}

func (m *Machine) strEq(a, b StrV) *sym.Term {
	if a.Len() != b.Len() {
		return m.S.False()
	}
	if a.Conc && b.Conc {
		return m.S.Bool(a.C == b.C)
	}
	ab, bb := m.sb(a), m.sb(b)
	r := m.S.True()
	for i := range ab {
		r = m.S.And(r, m.S.Eq(ab[i], bb[i]))
	}
	return r
}

// strLess: lexicographic a < b
func (m *Machine) strLess(a, b StrV) *sym.Term {
	if a.Conc && b.Conc {
		return m.S.Bool(a.C < b.C)
	}
	ab, bb := m.sb(a), m.sb(b)
	n := len(ab)
	if len(bb) < n {
		n = len(bb)
	}
	r := m.S.Bool(len(ab) < len(bb))
	for i := n - 1; i >= 0; i-- {
		lt := m.S.Cmp("bvult", ab[i], bb[i])
		eq := m.S.Eq(ab[i], bb[i])
		r = m.S.Or(lt, m.S.And(eq, r))
	}
	return r
}

func (m *Machine) ConcreteStr(s StrV) (string, bool) {
	if s.Conc {
		return s.C, true
	}
	var sb strings.Builder
	for _, b := range s.B {
		if !b.IsConst() {
			return "", false
		}
		sb.WriteByte(byte(b.C))
	}
	return sb.String(), true
}

func (m *Machine) MkStr(s string) StrV { return StrV{C: s, Conc: true} }

// Describe renders a value for diagnostics and evidence samples.
func Describe(v Value) string {
	return describe(v, 0)
}

func describe(v Value, d int) string {
	if d > 4 {
		return "…"
	}
	switch x := v.(type) {
	case nil:
		return "<nil>"
	case *sym.Term:
		return x.String()
	case FloatV:
		return fmt.Sprint(float64(x))
	case StrV:
		if x.Conc {
			return strconvQuote(x.C)
		}
		var sb strings.Builder
		sb.WriteByte('"')
		for _, b := range x.B {
			if b.IsConst() && b.C >= 32 && b.C < 127 {
				sb.WriteByte(byte(b.C))
			} else {
				sb.WriteString("{" + b.String() + "}")
			}
		}
		sb.WriteByte('"')
		return sb.String()
	case StructV:
		parts := make([]string, len(x))
		for i, f := range x {
			parts[i] = describe(f, d+1)
		}
		return "{" + strings.Join(parts, ", ") + "}"
	case ArrayV:
		parts := make([]string, len(x))
		for i, f := range x {
			parts[i] = describe(f, d+1)
		}
		return "[" + strings.Join(parts, ", ") + "]"
	case TupleV:
		parts := make([]string, len(x))
		for i, f := range x {
			parts[i] = describe(f, d+1)
		}
		return "(" + strings.Join(parts, ", ") + ")"
	case PtrV:
		if x.Obj == nil {
			return "nil"
		}
		return fmt.Sprintf("&obj%d%v", x.Obj.ID, x.Path)
	case SliceV:
		if x.Arr == nil {
			return "[]nil"
		}
		arr := x.Arr.Val.(ArrayV)
		parts := []string{}
		for i := 0; i < x.Len; i++ {
			parts = append(parts, describe(arr[x.Off+i], d+1))
		}
		return fmt.Sprintf("slice(obj%d off=%d cap=%d)[%s]", x.Arr.ID, x.Off, x.Cap, strings.Join(parts, ", "))
	case MapV:
		if x.M == nil {
			return "map(nil)"
		}
		parts := []string{}
		for _, e := range x.M.Entries {
			parts = append(parts, describe(e.K, d+1)+":"+describe(e.V, d+1))
		}
		return "map[" + strings.Join(parts, ", ") + "]"
	case IfaceV:
		if x.T == nil {
			return "iface(nil)"
		}
		return "iface(" + x.T.String() + ":" + describe(x.V, d+1) + ")"
	case FuncV:
		if x.IsNil() {
			return "func(nil)"
		}
		if x.Fn != nil {
			return "func " + x.Fn.Name()
		}
		return "builtin " + x.B.Name()
	case ChanV:
		return "chan"
	}
	return fmt.Sprintf("%T", v)
}

func strconvQuote(s string) string {
	if len(s) > 60 {
		s = s[:60] + "…"
	}
	return fmt.Sprintf("%q", s)
}
