//verif:overlay immutable/zz_verif_c03b.go
//verif:whitebox
package immutable

import (
	zz "github.com/csgura/fp/internal/zzverif"
)

// C03, inductive step: from every catalogued symbolic valid trie, one Updated/Removed with a symbolic key
// yields a valid trie that agrees with the abstract map (Size, lookup of a symbolic probe, Iterator), and the
// pre-state itself agrees with its abstract map.

func vhStep(pre *hamt[int, int], l string) {
	zz.Config("loop", 4000)
	if zz.Bool("lookup.only") {
		// the catalogued state itself: invariant, entries, Size, Iterator and a symbolic lookup
		vhAgrees(pre, l+" (pre-state)")
		vhLookup(pre, l+" (pre-state)")
		return
	}
	op := vhNewOp("op")
	post := op.apply(pre)
	vhAgrees(post, l, op)
	if zz.Bound("c03b.probe", 0, 1) == 1 && len(vhKeys) <= 4 {
		// thorough tier, small shapes: a symbolic lookup in the post-state as well
		vhLookup(post, l, op)
	}
}

func VH_c03b_array_root() {
	vhReset()
	n := 1 + zz.Choice("n", zz.Bound("c03b.array", 3, 5))
	vhStep(vhArrayRoot(n, 0), "array root")
}

// a full array node: the next new key converts it into a bitmap node (most keys pinned, two symbolic)
func VH_c03b_array_root_full() {
	vhReset()
	vhStep(vhArrayRoot(maxArrayMapSize, maxArrayMapSize-zz.Bound("c03b.fullsym", 1, 1)), "full array root")
}

func VH_c03b_bitmap_root_values() {
	vhReset()
	c := 1 + zz.Choice("children", 3)
	var ch []mapNode[int, int]
	for i := 0; i < c; i++ {
		ch = append(ch, vhLeaf(vhNewKey("e"+string(rune('0'+i)))))
	}
	vhStep(vhMap(vhBitmap(0, ch...)), "bitmap root")
}

func VH_c03b_bitmap_root_collision_child() {
	vhReset()
	col, _ := vhCollision("c", 2+zz.Choice("extra", 2))
	o := vhLeaf(vhNewKey("o"))
	if zz.Bool("other.first") {
		vhStep(vhMap(vhBitmap(0, o, col)), "bitmap root with collision child")
	} else {
		vhStep(vhMap(vhBitmap(0, col, o)), "bitmap root with collision child")
	}
}

func VH_c03b_bitmap_root_nested() {
	vhReset()
	a, b := vhNewKey("a"), vhNewKey("b")
	zz.Assume(vhFrag(a.k, 0) == vhFrag(b.k, 0))
	inner := vhBitmap(5, vhLeaf(a), vhLeaf(b))
	if zz.Bool("sibling") {
		vhStep(vhMap(vhBitmap(0, inner, vhLeaf(vhNewKey("o")))), "bitmap root with nested bitmap child")
	} else {
		vhStep(vhMap(vhBitmap(0, inner)), "bitmap root with nested bitmap child")
	}
}

// a bitmap node about to grow into a hash-array node (16 children, the 17th converts it)
func VH_c03b_bitmap_growth_threshold() {
	vhReset()
	var ch []mapNode[int, int]
	for i := 0; i < maxBitmapIndexedSize; i++ {
		e := vhKV{10000 + i, zz.Int("fv" + string(rune('a'+i)))}
		zz.Assume(vh.Hash(e.k) == uint32(i))
		vhKeys = append(vhKeys, e)
		ch = append(ch, vhLeaf(e))
	}
	var bm uint32 = 1<<maxBitmapIndexedSize - 1
	vhStep(vhMap(&mapBitmapIndexedNode[int, int]{bitmap: bm, nodes: vhNodes(ch...)}), "bitmap root at the growth threshold")
}

// hash-array nodes at and above the shrink threshold, with value, collision and bitmap children
func VH_c03b_hasharray_root() {
	vhReset()
	var extra []mapNode[int, int]
	switch zz.Choice("extra", 4) {
	case 0:
		extra = []mapNode[int, int]{vhLeaf(vhNewKey("s"))}
	case 1:
		col, _ := vhCollision("c", 2)
		extra = []mapNode[int, int]{col}
	case 2:
		a, b := vhNewKey("a"), vhNewKey("b")
		zz.Assume(vhFrag(a.k, 0) == vhFrag(b.k, 0))
		extra = []mapNode[int, int]{vhBitmap(5, vhLeaf(a), vhLeaf(b))}
	case 3:
		col, _ := vhCollision("c", 3)
		extra = []mapNode[int, int]{vhLeaf(vhNewKey("s")), col}
	}
	fixed := maxBitmapIndexedSize - len(extra) + zz.Choice("above", 2) // count 16 (shrinks on delete) or 17
	vhStep(vhMap(vhHashArray(fixed, extra...)), "hash-array root")
}
