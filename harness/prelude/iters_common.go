//verif:overlay internal/zzverif_h/iters/common.go
package iters

import (
	"github.com/csgura/fp"
	"github.com/csgura/fp/as"
	zz "github.com/csgura/fp/internal/zzverif"
	"github.com/csgura/fp/iterator"
	"github.com/csgura/fp/list"
)

// A producer builds an iterator over (a copy of) the symbolic input together with the expected eager output,
// computed with plain slice loops only.
type prod struct {
	name string
	mk   func(in []int) (fp.Iterator[int], []int)
}

func ufP(name string) func(int) bool { return func(x int) bool { return zz.UFBool(name, x) } }
func ufF(name string) func(int) int  { return func(x int) int { return zz.UFInt(name, x) } }
func ufF2(name string) func(int, int) int {
	return func(x, y int) int { return zz.UFInt(name, x, y) }
}

// small UF-determined slice (0..2 elements) derived from x
func ufSlice(name string, x int) []int {
	n := zz.UFInt(name+".n", x)
	zz.Assume(n >= 0 && n <= 2)
	var out []int
	for i := 0; i < n; i++ {
		out = append(out, zz.UFInt(name+".e", x, i))
	}
	return out
}

func src(in []int) fp.Iterator[int] { return iterator.FromSeq(append([]int{}, in...)) }

func mapInts(xs []int, f func(int) int) []int {
	out := make([]int, 0, len(xs))
	for _, x := range xs {
		out = append(out, f(x))
	}
	return out
}

func clampN(n, l int) int {
	if n < 0 {
		return 0
	}
	if n > l {
		return l
	}
	return n
}

func tup2(it fp.Iterator[fp.Tuple2[int, int]]) fp.Iterator[int] {
	// encode a pair stream as a flat int stream (first, second, first, second, ...) without look-ahead
	var pend fp.Option[int]
	return fp.MakeIterator(func() bool { return pend.IsDefined() || it.HasNext() }, func() int {
		if pend.IsDefined() {
			v := pend.Get()
			pend = fp.None[int]()
			return v
		}
		t := it.Next()
		pend = fp.Some(t.I2)
		return t.I1
	})
}

func producers() []prod {
	return []prod{
		{"FromSeq", func(in []int) (fp.Iterator[int], []int) { return iterator.FromSeq(in), in }},
		{"FromSlice", func(in []int) (fp.Iterator[int], []int) { return iterator.FromSlice(in), in }},
		{"Of", func(in []int) (fp.Iterator[int], []int) { return iterator.Of(in...), in }},
		{"IteratorOfSeq", func(in []int) (fp.Iterator[int], []int) { return fp.IteratorOfSeq(in), in }},
		{"Empty", func(in []int) (fp.Iterator[int], []int) { return iterator.Empty[int](), nil }},
		{"ReverseSeq", func(in []int) (fp.Iterator[int], []int) {
			var e []int
			for i := len(in) - 1; i >= 0; i-- {
				e = append(e, in[i])
			}
			return iterator.ReverseSeq(in), e
		}},
		{"ReverseSlice", func(in []int) (fp.Iterator[int], []int) {
			var e []int
			for i := len(in) - 1; i >= 0; i-- {
				e = append(e, in[i])
			}
			return iterator.ReverseSlice(in), e
		}},
		{"FromOption", func(in []int) (fp.Iterator[int], []int) {
			if len(in) > 0 {
				return iterator.FromOption(fp.Some(in[0])), in[:1]
			}
			return iterator.FromOption(fp.None[int]()), nil
		}},
		{"FromPtr", func(in []int) (fp.Iterator[int], []int) {
			if len(in) > 0 {
				v := in[0]
				return iterator.FromPtr(&v), in[:1]
			}
			return iterator.FromPtr[int](nil), nil
		}},
		{"FromList", func(in []int) (fp.Iterator[int], []int) { return iterator.FromList(list.FromSeq(in)), in }},
		{"List", func(in []int) (fp.Iterator[int], []int) { return iterator.List(list.Of(in...)), in }},
		{"ToList_FromList", func(in []int) (fp.Iterator[int], []int) { return iterator.FromList(iterator.ToList(src(in))), in }},
		{"Take", func(in []int) (fp.Iterator[int], []int) {
			n := zz.IntIn("n", -1, len(in)+1)
			return src(in).Take(n), in[:clampN(n, len(in))]
		}},
		{"Drop", func(in []int) (fp.Iterator[int], []int) {
			n := zz.IntIn("n", -1, len(in)+1)
			return src(in).Drop(n), in[clampN(n, len(in)):]
		}},
		{"TakeWhile", func(in []int) (fp.Iterator[int], []int) {
			p := ufP("p")
			var e []int
			for _, x := range in {
				if !p(x) {
					break
				}
				e = append(e, x)
			}
			return src(in).TakeWhile(p), e
		}},
		{"DropWhile", func(in []int) (fp.Iterator[int], []int) {
			p := ufP("p")
			i := 0
			for i < len(in) && p(in[i]) {
				i++
			}
			return src(in).DropWhile(p), in[i:]
		}},
		{"Filter", func(in []int) (fp.Iterator[int], []int) {
			p := ufP("p")
			var e []int
			for _, x := range in {
				if p(x) {
					e = append(e, x)
				}
			}
			return src(in).Filter(p), e
		}},
		{"FilterNot", func(in []int) (fp.Iterator[int], []int) {
			p := ufP("p")
			var e []int
			for _, x := range in {
				if !p(x) {
					e = append(e, x)
				}
			}
			return src(in).FilterNot(p), e
		}},
		{"TapEach", func(in []int) (fp.Iterator[int], []int) {
			return src(in).TapEach(func(int) {}), in
		}},
		{"Appended", func(in []int) (fp.Iterator[int], []int) {
			e := zz.Int("elem")
			return src(in).Appended(e), append(append([]int{}, in...), e)
		}},
		{"MethodConcat", func(in []int) (fp.Iterator[int], []int) {
			k := zz.IntIn("split", 0, len(in))
			return src(in[:k]).Concat(src(in[k:])), in
		}},
		{"MethodConcat3", func(in []int) (fp.Iterator[int], []int) {
			k := zz.IntIn("split", 0, len(in))
			e := zz.Int("elem")
			// nested concat on both sides exercises the flattening of the concat list
			l := src(in[:k]).Concat(iterator.Empty[int]())
			r := iterator.Of(e).Concat(src(in[k:]))
			out := append(append(append([]int{}, in[:k]...), e), in[k:]...)
			return l.Concat(r), out
		}},
		{"MethodMap", func(in []int) (fp.Iterator[int], []int) {
			f := ufF("f")
			var e []int
			for _, x := range in {
				e = append(e, f(x))
			}
			return src(in).Map(f), e
		}},
		{"MethodFlatMap", func(in []int) (fp.Iterator[int], []int) {
			var e []int
			for _, x := range in {
				e = append(e, ufSlice("k", x)...)
			}
			return src(in).FlatMap(func(x int) fp.Iterator[int] { return iterator.FromSeq(ufSlice("k", x)) }), e
		}},
		{"Map", func(in []int) (fp.Iterator[int], []int) {
			f := ufF("f")
			var e []int
			for _, x := range in {
				e = append(e, f(x))
			}
			return iterator.Map(src(in), f), e
		}},
		{"Lift", func(in []int) (fp.Iterator[int], []int) {
			f := ufF("f")
			var e []int
			for _, x := range in {
				e = append(e, f(x))
			}
			return iterator.Lift(f)(src(in)), e
		}},
		{"FlatMap", func(in []int) (fp.Iterator[int], []int) {
			var e []int
			for _, x := range in {
				e = append(e, ufSlice("k", x)...)
			}
			return iterator.FlatMap(src(in), func(x int) fp.Iterator[int] { return iterator.FromSeq(ufSlice("k", x)) }), e
		}},
		{"Flatten", func(in []int) (fp.Iterator[int], []int) {
			var e []int
			var its []fp.Iterator[int]
			for _, x := range in {
				e = append(e, ufSlice("k", x)...)
				its = append(its, iterator.FromSeq(ufSlice("k", x)))
			}
			return iterator.Flatten(iterator.FromSeq(its)), e
		}},
		{"FilterMap", func(in []int) (fp.Iterator[int], []int) {
			p, f := ufP("p"), ufF("f")
			var e []int
			for _, x := range in {
				if p(x) {
					e = append(e, f(x))
				}
			}
			return iterator.FilterMap(src(in), func(x int) fp.Option[int] {
				if p(x) {
					return fp.Some(f(x))
				}
				return fp.None[int]()
			}), e
		}},
		{"Compose", func(in []int) (fp.Iterator[int], []int) {
			a := zz.Int("a")
			k1 := func(x int) fp.Iterator[int] { return iterator.FromSeq(ufSlice("k1", x)) }
			k2 := func(x int) fp.Iterator[int] { return iterator.FromSeq(ufSlice("k2", x)) }
			var e []int
			for _, y := range ufSlice("k1", a) {
				e = append(e, ufSlice("k2", y)...)
			}
			return iterator.Compose(k1, k2)(a), e
		}},
		{"ComposePure", func(in []int) (fp.Iterator[int], []int) {
			a := zz.Int("a")
			f := ufF("f")
			return iterator.ComposePure(f)(a), []int{f(a)}
		}},
		{"Concat", func(in []int) (fp.Iterator[int], []int) {
			h := zz.Int("head")
			return iterator.Concat(h, src(in)), append([]int{h}, in...)
		}},
		{"Ap", func(in []int) (fp.Iterator[int], []int) {
			// a single function applied to a fresh argument iterator (argument iterators are consumed once)
			f := ufF("f")
			var e []int
			for _, x := range in {
				e = append(e, f(x))
			}
			return iterator.Ap(iterator.Of(fp.Func1[int, int](f)), src(in)), e
		}},
		{"FlapMap_Method1", func(in []int) (fp.Iterator[int], []int) {
			// single-pass semantics: the argument iterator Of(b) is shared by all functions, so only inputs of
			// at most one element have a defined eager counterpart (see DESIGN, C12/C20 outside)
			if len(in) > 1 {
				in = in[:1]
			}
			f := ufF2("f")
			b := zz.Int("b")
			var e []int
			for _, x := range in {
				e = append(e, f(x, b))
			}
			if zz.Bool("useMethod1") {
				return iterator.Method1(src(in), f)(b), e
			}
			return iterator.FlapMap(f, src(in))(b), e
		}},
		{"Flap", func(in []int) (fp.Iterator[int], []int) {
			if len(in) > 1 {
				in = in[:1]
			}
			a := zz.Int("a")
			var fs []fp.Func1[int, int]
			var e []int
			for i := range in {
				i := i
				fs = append(fs, func(x int) int { return zz.UFInt("fl", in[i], x) })
				e = append(e, zz.UFInt("fl", in[i], a))
			}
			return iterator.Flap(iterator.FromSeq(fs))(a), e
		}},
		{"Concat_MethodMap_Concat", func(in []int) (fp.Iterator[int], []int) {
			// a method applied to the result of Concat, which is then an operand of another Concat
			k := zz.IntIn("split", 0, len(in))
			a, b := in[:k], in[k:]
			f := ufF("f")
			var e []int
			for _, x := range in {
				e = append(e, f(x))
			}
			tail := []int{zz.Int("t")}
			e = append(e, tail...)
			switch zz.Choice("shape", 3) {
			case 0:
				return src(a).Concat(src(b)).Map(f).Concat(src(tail)), e
			case 1:
				return src(a).Appended(0).Concat(src(b)).Drop(0).Map(f).Concat(src(tail)), append(append(append([]int{}, mapInts(a, f)...), f(0)), append(mapInts(b, f), tail...)...)
			}
			return src(tail).Concat(src(a).Concat(src(b)).Map(f)), append(append([]int{}, tail...), mapInts(in, f)...)
		}},
		{"Concat_MethodFilter_Concat", func(in []int) (fp.Iterator[int], []int) {
			k := zz.IntIn("split", 0, len(in))
			a, b := in[:k], in[k:]
			p := ufP("p")
			var e []int
			for _, x := range in {
				if p(x) {
					e = append(e, x)
				}
			}
			tail := []int{zz.Int("t")}
			return src(a).Concat(src(b)).Filter(p).Concat(src(tail)), append(e, tail...)
		}},
		{"Zip", func(in []int) (fp.Iterator[int], []int) {
			k := zz.IntIn("split", 0, len(in))
			a, b := in[:k], in[k:]
			var e []int
			for i := 0; i < len(a) && i < len(b); i++ {
				e = append(e, a[i], b[i])
			}
			return tup2(iterator.Zip(src(a), src(b))), e
		}},
		{"ZipWithIndex", func(in []int) (fp.Iterator[int], []int) {
			var e []int
			for i, x := range in {
				e = append(e, i, x)
			}
			return tup2(iterator.ZipWithIndex(src(in))), e
		}},
		{"Zip3", func(in []int) (fp.Iterator[int], []int) {
			// three operands of independently chosen lengths (each a prefix of the input): the shortest decides
			la, lb, lc := zz.IntIn("la", 0, len(in)), zz.IntIn("lb", 0, len(in)), zz.IntIn("lc", 0, len(in))
			a, b, c := in[:la], in[:lb], in[:lc]
			var e []int
			for i := 0; i < len(a) && i < len(b) && i < len(c); i++ {
				e = append(e, zz.UFInt("z3", a[i], b[i], c[i]))
			}
			z := iterator.Zip3(src(a), src(b), src(c))
			return iterator.Map(z, func(t fp.Tuple3[int, int, int]) int { return zz.UFInt("z3", t.I1, t.I2, t.I3) }), e
		}},
		{"Scan", func(in []int) (fp.Iterator[int], []int) {
			f := ufF2("f")
			z := zz.Int("z")
			e := []int{z}
			acc := z
			for _, x := range in {
				acc = f(acc, x)
				e = append(e, acc)
			}
			return iterator.Scan(src(in), z, f), e
		}},
		{"Range", func(in []int) (fp.Iterator[int], []int) {
			a := zz.Int("from")
			b := zz.Int("to")
			zz.Assume(a > -1000 && a < 1000 && b-a <= 3 && b-a >= -2)
			var e []int
			for i := a; i < b; i++ {
				e = append(e, i)
			}
			return iterator.Range(a, b), e
		}},
		{"RangeClosed", func(in []int) (fp.Iterator[int], []int) {
			a := zz.Int("from")
			b := zz.Int("to")
			zz.Assume(a > -1000 && a < 1000 && b-a <= 2 && b-a >= -2)
			var e []int
			for i := a; i <= b; i++ {
				e = append(e, i)
			}
			return iterator.RangeClosed(a, b), e
		}},
		{"GenerateTake", func(in []int) (fp.Iterator[int], []int) {
			i := 0
			g := iterator.Generate(func() int { i++; return zz.UFInt("gen", i) })
			var e []int
			for j := 1; j <= len(in); j++ {
				e = append(e, zz.UFInt("gen", j))
			}
			return g.Take(len(in)), e
		}},
		{"SeqMethods", func(in []int) (fp.Iterator[int], []int) {
			return fp.IteratorOfSeq(as.Seq(in)), in
		}},
	}
}

func find(name string) prod {
	for _, p := range producers() {
		if p.name == name {
			return p
		}
	}
	panic("unknown producer " + name)
}

func sliceEq(a, b []int) bool {
	if len(a) != len(b) {
		return false
	}
	for i := range a {
		if a[i] != b[i] {
			return false
		}
	}
	return true
}

// nextPanics reports whether Next panics (it must, on an exhausted iterator)
func nextPanics(it fp.Iterator[int]) (panicked bool) {
	defer func() {
		if recover() != nil {
			panicked = true
		}
	}()
	it.Next()
	return false
}
