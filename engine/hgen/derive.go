package hgen

// C08: scratch programs for gombok @fp.Derive. Types and directives are fixed programs (gombok's instance
// resolution is exercised by local overriding instances, an instance in the type's own package, generic types
// with an unused parameter, and recursion through pointers); the harness states the field-wise meaning of every
// derived instance over symbolic values.

const deriveTypes = `package d1

import (
	"github.com/csgura/fp"
	"github.com/csgura/fp/clone"
	"github.com/csgura/fp/eq"
	"github.com/csgura/fp/hash"
	"github.com/csgura/fp/monoid"
	"github.com/csgura/fp/ord"

	"scratchmod/q1"
)

//go:generate gombok

// local instances: declared in the working package, they take precedence over the typeclass package
var MonoidInt = monoid.Sum[int]()

var EqBool = eq.New(func(a, b bool) bool { return true })

// @fp.Value
type Acc struct {
	n int
	s string
	o fp.Option[int]
	q fp.Seq[int]
}

// @fp.Derive
var _ monoid.Derives[fp.Monoid[Acc]]

// @fp.Value
type Flag struct {
	b bool
	k int
}

// @fp.Derive
var _ eq.Derives[fp.Eq[Flag]]

// @fp.Value
type Inner struct {
	a int
	b string
}

// @fp.Value
type Outer struct {
	in Inner
	k  int
	p  *Inner
}

// @fp.Derive
var _ eq.Derives[fp.Eq[Inner]]

// @fp.Derive
var _ eq.Derives[fp.Eq[Outer]]

// @fp.Derive
var _ ord.Derives[fp.Ord[Inner]]

// @fp.Derive
var _ ord.Derives[fp.Ord[Outer]]

// @fp.Derive
var _ hash.Derives[fp.Hashable[Inner]]

// @fp.Derive
var _ hash.Derives[fp.Hashable[Outer]]

// @fp.Derive
var _ clone.Derives[fp.Clone[Inner]]

// @fp.Derive
var _ clone.Derives[fp.Clone[Outer]]

// @fp.Value
type Phantom[A, B any] struct {
	a A
	n int
}

// @fp.Derive
var _ eq.Derives[fp.Eq[Phantom[any, any]]]

// @fp.Value
type Pair[A, B any] struct {
	a A
	b B
}

// @fp.Derive
var _ eq.Derives[fp.Eq[Pair[any, any]]]

// @fp.Derive
var _ ord.Derives[fp.Ord[Pair[any, any]]]

// @fp.Value
type Refs struct {
	p  *int
	sl []int
	t  fp.Tuple2[int, string]
	o  fp.Option[int]
}

// @fp.Derive
var _ eq.Derives[fp.Eq[Refs]]

// @fp.Derive
var _ ord.Derives[fp.Ord[Refs]]

// @fp.Derive
var _ hash.Derives[fp.Hashable[Refs]]

// @fp.Derive
var _ clone.Derives[fp.Clone[Refs]]

// @fp.Value
type Node struct {
	v    int
	next *Node
}

// @fp.Derive(recursive=true)
var _ eq.Derives[fp.Eq[Node]]

// @fp.Derive(recursive=true)
var _ hash.Derives[fp.Hashable[Node]]

// @fp.Derive(recursive=true)
var _ clone.Derives[fp.Clone[Node]]

// a field whose type lives in another package that declares its own instance
// @fp.Value
type Holder struct {
	t q1.Thing
	n int
}

// @fp.Derive
var _ eq.Derives[fp.Eq[Holder]]
`

const deriveQ1 = `package q1

import "github.com/csgura/fp/eq"

type Thing struct {
	V int
}

// instance declared in the type's own package: equality modulo 2
var EqThing = eq.New(func(a, b Thing) bool { return a.V&1 == b.V&1 })
`

const deriveHarness = `package d1

import (
	"github.com/csgura/fp"
	"github.com/csgura/fp/eq"
	"github.com/csgura/fp/ord"

	"scratchmod/q1"
	zz "scratchmod/zzverif"
)

func mkInner(t string) Inner { return Inner{a: zz.Int(t + ".a"), b: zz.Str(t+".b", 1)} }

func mkOuter(t string) Outer {
	o := Outer{in: mkInner(t + ".in"), k: zz.Int(t + ".k")}
	if zz.Bool(t + ".p.nonnil") {
		i := mkInner(t + ".p")
		o.p = &i
	}
	return o
}

func eqInner(a, b Inner) bool { return a.a == b.a && a.b == b.b }
func ltInner(a, b Inner) bool { return a.a < b.a || (a.a == b.a && a.b < b.b) }

func eqPI(a, b *Inner) bool {
	if a == nil || b == nil {
		return a == nil && b == nil
	}
	return eqInner(*a, *b)
}

func ltPI(a, b *Inner) bool {
	if a == nil || b == nil {
		return a == nil && b != nil
	}
	return ltInner(*a, *b)
}

func VH_c08_eq_inner_outer() {
	a, b := mkOuter("a"), mkOuter("b")
	want := eqInner(a.in, b.in) && a.k == b.k && eqPI(a.p, b.p)
	zz.Assert(EqOuter().Eqv(a, b) == want, "derived Eq[Outer] is the conjunction of the field equalities (nested struct, pointer)")
	zz.Assert(EqInner().Eqv(a.in, b.in) == eqInner(a.in, b.in), "derived Eq[Inner]")
	zz.Assert(EqOuter().Eqv(a, a), "derived Eq reflexive")
}

func VH_c08_ord_outer_lexicographic() {
	a, b := mkOuter("a"), mkOuter("b")
	want := ltInner(a.in, b.in) || (eqInner(a.in, b.in) && (a.k < b.k || (a.k == b.k && ltPI(a.p, b.p))))
	o := OrdOuter()
	zz.Assert(o.Less(a, b) == want, "derived Ord[Outer] is lexicographic in declaration order")
	zz.Assert(o.Eqv(a, b) == (eqInner(a.in, b.in) && a.k == b.k && eqPI(a.p, b.p)), "derived Ord[Outer].Eqv")
	zz.Assert(OrdInner().Less(a.in, b.in) == ltInner(a.in, b.in), "derived Ord[Inner]")
}

func VH_c08_hash_agrees_with_eq() {
	a, b := mkInner("a"), mkInner("b")
	h := HashableInner()
	zz.Assert(h.Eqv(a, b) == eqInner(a, b), "derived Hashable[Inner].Eqv is field-wise")
	if h.Eqv(a, b) {
		zz.Assert(h.Hash(a) == h.Hash(b), "derived Hashable[Inner]: equal values hash equally")
	}
}

func VH_c08_hash_outer_agrees_with_eq() {
	a := mkOuter("a")
	// an Eqv-equal but physically distinct value
	b := Outer{in: Inner{a: a.in.a, b: a.in.b}, k: a.k}
	if a.p != nil {
		c := *a.p
		b.p = &c
	}
	h := HashableOuter()
	zz.Assert(h.Eqv(a, b), "derived Hashable[Outer].Eqv on a deep copy")
	zz.Assert(h.Hash(a) == h.Hash(b), "derived Hashable[Outer]: deep copies hash equally")
}

func VH_c08_clone_outer_refs() {
	a := mkOuter("a")
	c := CloneOuter().Clone(a)
	zz.Assert(zz.DeepEq(a, c) && zz.Disjoint(a, c), "derived Clone[Outer]: equal copy sharing no mutable storage")
	r := mkRefs("r")
	rc := CloneRefs().Clone(r)
	zz.Assert(zz.DeepEq(r, rc) && zz.Disjoint(r, rc), "derived Clone[Refs]: equal copy sharing no mutable storage")
}

func mkRefs(t string) Refs {
	r := Refs{sl: zz.SliceInt(t+".sl", 2, 1, 0), t: fp.Tuple2[int, string]{I1: zz.Int(t + ".t1"), I2: zz.Str(t+".t2", 1)}}
	if zz.Bool(t + ".p.nonnil") {
		v := zz.Int(t + ".p")
		r.p = &v
	}
	if zz.Bool(t + ".o.some") {
		r.o = fp.Some(zz.Int(t + ".o"))
	}
	return r
}

func eqPtrInt(a, b *int) bool {
	if a == nil || b == nil {
		return a == nil && b == nil
	}
	return *a == *b
}

func eqSl(a, b []int) bool {
	if len(a) != len(b) {
		return false
	}
	for i := range a {
		if a[i] != b[i] {
			return false
		}
	}
	return true
}

func eqOpt(a, b fp.Option[int]) bool {
	if a.IsDefined() != b.IsDefined() {
		return false
	}
	return a.IsEmpty() || a.Get() == b.Get()
}

func VH_c08_eq_hash_refs() {
	a, b := mkRefs("a"), mkRefs("b")
	want := eqPtrInt(a.p, b.p) && eqSl(a.sl, b.sl) && a.t == b.t && eqOpt(a.o, b.o)
	zz.Assert(EqRefs().Eqv(a, b) == want, "derived Eq[Refs] field-wise (pointer target, slice elements, tuple, option)")
}

func VH_c08_ord_refs_first_fields() {
	a, b := mkRefs("a"), mkRefs("b")
	o := OrdRefs()
	// the first field decides unless it ties
	if a.p == nil && b.p != nil {
		zz.Assert(o.Less(a, b) && !o.Less(b, a), "derived Ord[Refs]: nil pointer first")
	}
	if a.p != nil && b.p != nil && *a.p < *b.p {
		zz.Assert(o.Less(a, b), "derived Ord[Refs]: first field decides")
	}
	if eqPtrInt(a.p, b.p) && eqSl(a.sl, b.sl) && a.t == b.t {
		lt := (a.o.IsEmpty() && b.o.IsDefined()) || (a.o.IsDefined() && b.o.IsDefined() && a.o.Get() < b.o.Get())
		zz.Assert(o.Less(a, b) == lt, "derived Ord[Refs]: the last field breaks the tie")
	}
}

func VH_c08_monoid_acc() {
	mk := func(t string) Acc {
		a := Acc{n: zz.Int(t + ".n"), s: zz.Str(t+".s", 1), q: fp.Seq[int](zz.SliceInt(t+".q", 1, 0, 0))}
		if zz.Bool(t + ".o.some") {
			a.o = fp.Some(zz.Int(t + ".o"))
		}
		return a
	}
	a, b := mk("a"), mk("b")
	m := MonoidAcc()
	c := m.Combine(a, b)
	zz.Assert(c.n == a.n+b.n, "derived Monoid[Acc]: int field combined with the LOCAL instance (Sum), i.e. working-package precedence")
	zz.Assert(c.s == a.s+b.s, "derived Monoid[Acc]: string field concatenated")
	zz.Assert(c.o.IsDefined() == (a.o.IsDefined() && b.o.IsDefined()) && (c.o.IsEmpty() || c.o.Get() == a.o.Get()+b.o.Get()), "derived Monoid[Acc]: Option field via monoid.Option of the local int instance")
	zz.Assert(eqSl(c.q, append(append([]int{}, a.q...), b.q...)), "derived Monoid[Acc]: Seq field merged left then right")
	e := m.Empty()
	zz.Assert(e.n == 0 && e.s == "" && e.o.IsDefined() && e.o.Get() == 0 && len(e.q) == 0, "derived Monoid[Acc]: Empty is the tuple of the fields' identities")
	l := m.Combine(e, a)
	zz.Assert(l.n == a.n && l.s == a.s && eqOpt(l.o, a.o) && eqSl(l.q, a.q), "derived Monoid[Acc]: Empty is a left identity")
}

func VH_c08_local_instance_precedence() {
	a := Flag{b: zz.Bool("a.b"), k: zz.Int("a.k")}
	b := Flag{b: zz.Bool("b.b"), k: zz.Int("b.k")}
	zz.Assert(EqFlag().Eqv(a, b) == (a.k == b.k), "derived Eq[Flag] uses the instance declared in the working package for bool (always equal)")
}

func VH_c08_type_package_instance_precedence() {
	a := Holder{t: q1.Thing{V: zz.Int("a.v")}, n: zz.Int("a.n")}
	b := Holder{t: q1.Thing{V: zz.Int("b.v")}, n: zz.Int("b.n")}
	zz.Assert(EqHolder().Eqv(a, b) == (a.t.V&1 == b.t.V&1 && a.n == b.n), "derived Eq[Holder] uses the instance declared in the field type's own package (equality modulo 2)")
}

func VH_c08_generic_instances() {
	// one instance parameter per type parameter actually used: Phantom's B is unused
	e := EqPhantom[int, string](eq.New(func(x, y int) bool { return x&1 == y&1 }))
	a := Phantom[int, string]{a: zz.Int("a.a"), n: zz.Int("a.n")}
	b := Phantom[int, string]{a: zz.Int("b.a"), n: zz.Int("b.n")}
	zz.Assert(e.Eqv(a, b) == (a.a&1 == b.a&1 && a.n == b.n), "derived Eq[Phantom[A,B]] takes one instance for A and uses it")
	p := EqPair(eq.Given[int](), eq.Given[string]())
	x := Pair[int, string]{a: zz.Int("x.a"), b: zz.Str("x.b", 1)}
	y := Pair[int, string]{a: zz.Int("y.a"), b: zz.Str("y.b", 1)}
	zz.Assert(p.Eqv(x, y) == (x.a == y.a && x.b == y.b), "derived Eq[Pair[A,B]]")
	o := OrdPair(ord.Given[int](), ord.Given[string]())
	zz.Assert(o.Less(x, y) == (x.a < y.a || (x.a == y.a && x.b < y.b)), "derived Ord[Pair[A,B]] lexicographic")
}

func mkList(t string) *Node {
	switch zz.Choice(t+".len", 3) {
	case 1:
		return &Node{v: zz.Int(t + ".v0")}
	case 2:
		return &Node{v: zz.Int(t + ".v0"), next: &Node{v: zz.Int(t + ".v1")}}
	}
	return nil
}

func eqList(a, b *Node) bool {
	for a != nil && b != nil {
		if a.v != b.v {
			return false
		}
		a, b = a.next, b.next
	}
	return a == nil && b == nil
}

func VH_c08_recursive_type() {
	a := Node{v: zz.Int("a.v"), next: mkList("a")}
	b := Node{v: zz.Int("b.v"), next: mkList("b")}
	zz.Assert(EqNode().Eqv(a, b) == (a.v == b.v && eqList(a.next, b.next)), "derived Eq[Node] (recursive=true) is structural")
	h := HashableNode()
	if h.Eqv(a, b) {
		zz.Assert(h.Hash(a) == h.Hash(b), "derived Hashable[Node]: equal lists hash equally")
	}
	c := CloneNode().Clone(a)
	zz.Assert(zz.DeepEq(a, c) && zz.Disjoint(a, c), "derived Clone[Node]: deep copy of the whole list")
}
`

// DerivePrograms returns the scratch programs of C08.
func DerivePrograms(tier string, seed int) []Program {
	return append([]Program{
		{Pkg: "q1", Files: map[string][]byte{"thing.go": []byte(deriveQ1)}, NoGombok: true, Desc: "support package with its own instance"},
		{Pkg: "d1", Files: map[string][]byte{"types.go": []byte(deriveTypes)}, Harness: map[string][]byte{"zz_verif_harness.go": []byte(deriveHarness)}, Desc: "derive: plain, nested, generic, recursive, precedence"},
	}, append(append(append(derive2Programs(), derive3Programs()...), derive4Programs()...), append(append(append(derive5Programs(), derive6Programs()...), derive7Programs()...), append(derive8Programs(), derive9Programs()...)...)...)...)
}
