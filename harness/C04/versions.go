//verif:overlay internal/zzverif_h/c04/versions.go
package c04

import (
	"github.com/csgura/fp"
	"github.com/csgura/fp/as"
	"github.com/csgura/fp/hash"
	"github.com/csgura/fp/immutable"
	zz "github.com/csgura/fp/internal/zzverif"
)

type hasher struct {
	keys []int
	hs   []uint32
	reps []uint32
}

// registry of symbolic keys: deliberately not reachable from the hasher (and hence not from any map), so that
// freezing a map does not freeze harness bookkeeping
var symReg []symKey

type symKey struct {
	k  int
	f0 uint32
}

func (h *hasher) Eqv(a, b int) bool { return a == b }
func (h *hasher) Hash(k int) uint32 {
	for i, c := range h.keys {
		if k == c {
			return h.hs[i]
		}
	}
	for _, s := range symReg {
		if s.k == k {
			return s.f0 | uint32(zz.UFInt("h", k))<<5
		}
	}
	f0 := h.reps[zz.Choice("frag0", len(h.reps))]
	symReg = append(symReg, symKey{k, f0})
	return f0 | uint32(zz.UFInt("h", k))<<5
}

type model struct{ ks, vs []int }

func (m *model) find(k int) int {
	for i := range m.ks {
		if m.ks[i] == k {
			return i
		}
	}
	return -1
}
func (m *model) clone() *model {
	return &model{append([]int{}, m.ks...), append([]int{}, m.vs...)}
}
func (m *model) set(k, v int) {
	if i := m.find(k); i >= 0 {
		m.vs[i] = v
		return
	}
	m.ks = append(m.ks, k)
	m.vs = append(m.vs, v)
}
func (m *model) del(k int) {
	if i := m.find(k); i >= 0 {
		m.ks = append(m.ks[:i], m.ks[i+1:]...)
		m.vs = append(m.vs[:i], m.vs[i+1:]...)
	}
}

func agree(m fp.Map[int, int], md *model, extra []int, l string) {
	zz.Assert(m.Size() == len(md.ks), l+": Size unchanged")
	for i, k := range md.ks {
		g := m.Get(k)
		zz.Assert(g.IsDefined() && g.Get() == md.vs[i], l+": Get still returns the value of that version")
	}
	for _, k := range extra {
		if md.find(k) < 0 {
			zz.Assert(m.Get(k).IsEmpty(), l+": key absent in that version is still absent")
		}
	}
	n := 0
	for it := m.Iterator(); it.HasNext(); {
		e := it.Next()
		n++
		i := md.find(e.I1)
		zz.Assert(i >= 0 && e.I2 == md.vs[i], l+": Iterator still yields that version's entries")
		if n > len(md.ks)+2 {
			break
		}
	}
	zz.Assert(n == len(md.ks), l+": Iterator still yields Size entries")
}

type version struct {
	label string
	m     fp.Map[int, int]
	md    *model
}

func step(m fp.Map[int, int], md *model, k int, tag string) (fp.Map[int, int], *model) {
	nd := md.clone()
	v := zz.Int("v" + tag)
	switch zz.Choice("op"+tag, 4) {
	case 0:
		nd.set(k, v)
		return m.Updated(k, v), nd
	case 1:
		nd.del(k)
		return m.Removed(k), nd
	case 3:
		// several keys in one call: the symbolic key and two keys that live in other parts of the trie
		nd.del(k)
		nd.del(100)
		nd.del(107)
		return m.Removed(k, 100, 107), nd
	}
	other := fp.Map[int, int]{}.Updated(k, v)
	nd.set(k, v)
	return m.Concat(other), nd
}

func startMap(name string, h *hasher) (fp.Map[int, int], *model) {
	var hs []uint32
	switch name {
	case "array5":
		hs = []uint32{1, 2, 3, 4, 1 | 7<<5}
		h.reps = []uint32{0, 1, 9}
	case "array8":
		hs = []uint32{1, 2, 3, 4, 5, 6, 7, 1 | 1<<5}
		h.reps = []uint32{0, 1, 9}
	case "bitmap11":
		hs = []uint32{1, 2, 3, 4, 5, 6, 7 | 1<<5, 7 | 2<<5, 8 | 3<<5 | 1<<10, 9, 9}
		h.reps = []uint32{0, 7, 9, 20}
	case "hasharray18":
		for i := 0; i < 18; i++ {
			hs = append(hs, uint32(i+1))
		}
		h.reps = []uint32{0, 9, 30}
	default:
		h.reps = []uint32{3}
	}
	md := &model{}
	var tuples []fp.Tuple2[int, int]
	for i, hv := range hs {
		h.keys = append(h.keys, 100+i)
		h.hs = append(h.hs, hv)
		tuples = append(tuples, as.Tuple2(100+i, 1000+i))
		md.set(100+i, 1000+i)
	}
	if zz.Bool("builder") {
		return immutable.Map[int, int](h, tuples...), md
	}
	m := immutable.Map[int, int](h)
	for _, t := range tuples {
		m = m.Updated(t.I1, t.I2)
	}
	return m, md
}

// branching history: v0 -> v1a, v0 -> v1b, v1a -> v2. After every step the node graphs of all older versions
// are compared with their frozen snapshots (no solver needed: untouched nodes are identical objects); at the end
// every version is re-observed through the API against its own model.
func branching(name string) {
	zz.Config("loop", 2000)
	symReg = nil
	h := &hasher{}
	m0, d0 := startMap(name, h)
	// a second key with a fixed hash that shares the first fragment with an existing child where there is one
	h.keys = append(h.keys, 555)
	h.hs = append(h.hs, 1|5<<5)
	ka := zz.Int("ka")
	kb := ka
	switch zz.Choice("kb", zz.Bound("kbchoices", 2, 3)) {
	case 1:
		kb = 555
	case 2:
		kb = 100
	}
	probes := []int{ka, kb}
	vs := []version{{"v0", m0, d0}}
	zz.Freeze("v0", m0)
	frozenOK := func() {
		for _, v := range vs {
			zz.CheckFrozen(v.label)
		}
	}
	m1a, d1a := step(m0, d0, ka, "1a")
	frozenOK()
	vs = append(vs, version{"v1a", m1a, d1a})
	zz.Freeze("v1a", m1a)
	m1b, d1b := step(m0, d0, kb, "1b")
	frozenOK()
	vs = append(vs, version{"v1b", m1b, d1b})
	zz.Freeze("v1b", m1b)
	m2, d2 := step(m1a, d1a, kb, "2")
	frozenOK()
	vs = append(vs, version{"v2", m2, d2})
	for _, v := range vs {
		agree(v.m, v.md, probes, v.label+" at the end")
	}
}

func VH_c04_versions_empty()       { branching("empty") }
func VH_c04_versions_array5()      { branching("array5") }
func VH_c04_versions_array8()      { branching("array8") }
func VH_c04_versions_bitmap11()    { branching("bitmap11") }
func VH_c04_versions_hasharray18() { branching("hasharray18") }

// ---- builders: a collection handed out by Build is not changed by later use of the builder

func tryAdd(f func()) (panicked bool) {
	defer func() {
		if recover() != nil {
			panicked = true
		}
	}()
	f()
	return false
}

func VH_c04_map_builder() {
	symReg = nil
	h := &hasher{reps: []uint32{0, 1}}
	n := zz.Choice("n", 4)
	b := immutable.MapBuilder[int, int](h)
	md := &model{}
	for i := 0; i < n; i++ {
		k, v := zz.Int("k"+string(rune('0'+i))), zz.Int("v"+string(rune('0'+i)))
		b = b.Add(k, v)
		md.set(k, v)
	}
	m := b.Build()
	zz.Freeze("built", m)
	agree(m, md, nil, "built map")
	k, v := zz.Int("late.k"), zz.Int("late.v")
	tryAdd(func() { b.Add(k, v) }) // documented to panic; either way the handed-out map must not change
	agree(m, md, []int{k}, "built map after later builder use")
	zz.CheckFrozen("built")
}

func agreeSet(s fp.Set[int], ks []int, probes []int, l string) {
	zz.Assert(s.Size() == len(ks), l+": Size unchanged")
	for _, k := range ks {
		zz.Assert(s.Contains(k), l+": still contains its elements")
	}
	for _, p := range probes {
		in := false
		for _, k := range ks {
			if k == p {
				in = true
			}
		}
		zz.Assert(s.Contains(p) == in, l+": membership of a probe unchanged")
	}
}

func VH_c04_set_builder() {
	symReg = nil
	h := &hasher{reps: []uint32{0, 1}}
	n := zz.Choice("n", 4)
	b := immutable.SetBuilder[int](h)
	var ks []int
	for i := 0; i < n; i++ {
		k := zz.Int("k" + string(rune('0'+i)))
		b = b.Add(k)
		dup := false
		for _, x := range ks {
			if x == k {
				dup = true
			}
		}
		if !dup {
			ks = append(ks, k)
		}
	}
	s := b.Build()
	zz.Freeze("built", s)
	agreeSet(s, ks, nil, "built set")
	k := zz.Int("late.k")
	tryAdd(func() { b.Add(k) })
	agreeSet(s, ks, []int{k}, "built set after later builder use")
	zz.CheckFrozen("built")
}

func VH_c04_set_versions() {
	symReg = nil
	h := &hasher{reps: []uint32{0, 1}}
	for i := 0; i < 4; i++ {
		h.keys = append(h.keys, 100+i)
		h.hs = append(h.hs, uint32(i+1))
	}
	s0 := immutable.Set[int](h, 100, 101, 102, 103)
	k0 := []int{100, 101, 102, 103}
	zz.Freeze("s0", s0)
	ka := zz.Int("ka")
	kb := 101
	s1 := s0.Incl(ka)
	s2 := s0.Excl(kb)
	s3 := s1.Diff(s2)
	s4 := s1.Intersect(s2).Concat(s0)
	_, _ = s3, s4
	agreeSet(s0, k0, []int{ka, kb}, "s0 after derived sets")
	zz.CheckFrozen("s0")
}

// ---- value receivers: methods never change the receiver

func VH_c04_option_try_tuple_values() {
	x := zz.Int("x")
	f := ufF("f")
	o := fp.Some(x)
	_ = o.Map(f)
	_ = o.Filter(ufP("p"))
	_ = o.FlatMap(func(v int) fp.Option[int] { return fp.None[int]() })
	_ = o.Recover(func() int { return 0 })
	zz.Assert(o.IsDefined() && o.Get() == x, "Option methods leave the receiver unchanged")
	t := fp.Success(x)
	_ = t.Map(f)
	_ = t.MapError(func(e error) error { return e })
	_ = t.FlatMap(func(v int) fp.Try[int] { return fp.Success(v + 1) })
	zz.Assert(t.IsSuccess() && t.Get() == x, "Try methods leave the receiver unchanged")
	tp := as.Tuple3(x, f(x), 7)
	tp.Tail()
	tp.Init()
	h, _, _ := tp.Unapply()
	zz.Assert(tp.I1 == x && tp.I2 == f(x) && tp.I3 == 7 && h == x, "tuple accessors leave the tuple unchanged")
}

// a trie-shaped collection (more than 8 entries, a shared first-level slot) and SEVERAL later uses of the builder:
// whatever the builder does afterwards (panic, continue on a copy, ...), the collection handed out is unchanged
func VH_c04_builders_reused_several_times() {
	zz.Config("loop", 400)
	h := hash.Number[int]()
	keys := []int{0, 1, 2, 3, 4, 5, 6, 7, 8, 33, 65}
	late := []int{33, 1, 97, 2, 40, 65}
	if zz.Bool("set") {
		b := immutable.SetBuilder[int](h)
		for _, k := range keys {
			b = b.Add(k)
		}
		s := b.Build()
		zz.Freeze("built", s)
		for i := 0; i < 3; i++ {
			k := late[zz.Choice("late"+string(rune('0'+i)), len(late))]
			tryAdd(func() { b = b.Add(k) })
		}
		tryAdd(func() { b.Build() })
		zz.CheckFrozen("built")
		agreeSet(s, keys, late, "built set after the builder was used again several times")
		return
	}
	b := immutable.MapBuilder[int, int](h)
	for _, k := range keys {
		b = b.Add(k, k*10)
	}
	m := b.Build()
	zz.Freeze("built", m)
	for i := 0; i < 3; i++ {
		k := late[zz.Choice("late"+string(rune('0'+i)), len(late))]
		v := zz.Int("late.v" + string(rune('0'+i)))
		tryAdd(func() { b = b.Add(k, v) })
	}
	tryAdd(func() { b.Build() })
	zz.CheckFrozen("built")
	zz.Assert(m.Size() == len(keys), "built map: Size unchanged")
	for _, k := range keys {
		g := m.Get(k)
		zz.Assert(g.IsDefined() && g.Get() == k*10, "built map: every binding unchanged after the builder was used again several times")
	}
	for _, k := range []int{97, 40} {
		zz.Assert(m.Get(k).IsEmpty(), "built map: no key appears later")
	}
}
