//verif:overlay statet/zz_verif_c17.go
package statet

import (
	"github.com/csgura/fp"
	zz "github.com/csgura/fp/internal/zzverif"
)

type vhST = fp.StateT[int, int]

func vhRun[T any](st fp.StateT[int, T]) (fp.Try[T], int, int) {
	s0 := zz.Int("s0")
	r, s1 := st(s0)
	return r, s1, s0
}

// ---- the three state laws

func VH_c17_put_then_get() {
	s := zz.Int("s")
	p := FlatMap(Put(s), func(fp.Unit) vhST { return Get[int]() })
	r, s1, _ := vhRun(p)
	zz.Assert(r.IsSuccess(), "Put;Get succeeds")
	zz.Assert(r.IsSuccess() && r.Get() == s, "Put(s);Get yields s")
	zz.Assert(s1 == s, "Put(s);Get leaves state s")
}

func VH_c17_put_sets_state() {
	s := zz.Int("s")
	r, s1, _ := vhRun(Put(s))
	zz.Assert(r.IsSuccess(), "Put succeeds")
	zz.Assert(s1 == s, "Put(s) leaves state s")
}

func VH_c17_get_then_put() {
	p := FlatMap(Get[int](), func(s int) fp.StateT[int, fp.Unit] { return Put(s) })
	r, s1, s0 := vhRun(p)
	zz.Assert(r.IsSuccess(), "Get;Put succeeds")
	zz.Assert(s1 == s0, "Get;Put is a no-op on the state")
}

func VH_c17_get() {
	r, s1, s0 := vhRun(Get[int]())
	zz.Assert(r.IsSuccess() && r.Get() == s0 && s1 == s0, "Get returns the state and keeps it")
}

func VH_c17_modify() {
	f := func(s int) int { return zz.UFInt("f", s) }
	a := Modify(f)
	b := FlatMap(Get[int](), func(s int) fp.StateT[int, fp.Unit] { return Put(f(s)) })
	s0 := zz.Int("s0")
	ra, sa := a(s0)
	rb, sb := b(s0)
	zz.Assert(ra.IsSuccess() && rb.IsSuccess(), "Modify succeeds")
	zz.Assert(sa == sb, "Modify(f) = Get;Put.f (state)")
	zz.Assert(sa == f(s0), "Modify(f) applies f to the state")
}

// ---- primitives against their direct meaning

func VH_c17_primitives() {
	s0 := zz.Int("s0")
	f := func(s int) int { return zz.UFInt("f", s) }
	g := func(s int) int { return zz.UFInt("g", s) }
	{
		r, s1 := Pure[int](zz.Int("a"))(s0)
		zz.Assert(r.IsSuccess() && s1 == s0, "Pure keeps state")
	}
	{
		r, s1 := ModifyS(f, g)(s0)
		zz.Assert(r.IsSuccess() && r.Get() == g(s0) && s1 == f(s0), "ModifyS: value from old state, state updated")
	}
	{
		r, s1 := GetS(g)(s0)
		zz.Assert(r.IsSuccess() && r.Get() == g(s0) && s1 == s0, "GetS")
	}
	{
		t := vhTry("t")
		r, s1 := FromTry[int](t)(s0)
		zz.Assert(vhEqTry(r, t) && s1 == s0, "FromTry")
	}
	{
		t := func(s int) fp.Try[int] { return vhTryUF("gt", s) }
		r, s1 := GetST(t)(s0)
		zz.Assert(vhEqTry(r, t(s0)) && s1 == s0, "GetST")
	}
	{
		t := func(s int) fp.Try[int] { return vhTryUF("mt", s) }
		r, s1 := ModifyT(t)(s0)
		want := t(s0)
		if want.IsSuccess() {
			zz.Assert(r.IsSuccess() && s1 == want.Get(), "ModifyT success updates state")
		} else {
			zz.Assert(r.IsFailure() && r.Failed().Get() == want.Failed().Get() && s1 == s0, "ModifyT failure keeps state and error")
		}
	}
	{
		w := func(s, v int) int { return zz.UFInt("w", s, v) }
		v := zz.Int("v")
		r, s1 := PutWith(w)(v)(s0)
		zz.Assert(r.IsSuccess() && s1 == w(s0, v), "PutWith")
	}
	{
		r, s1 := Run(func(s int) (int, int) { return g(s), f(s) })(s0)
		zz.Assert(r.IsSuccess() && r.Get() == g(s0) && s1 == f(s0), "Run")
	}
	{
		r, s1 := Merge(f, g)(s0)
		zz.Assert(r.IsSuccess() && r.Get() == g(s0) && s1 == f(s0), "Merge")
	}
}

func vhTry(name string) fp.Try[int] {
	if zz.Bool(name + ".ok") {
		return fp.Success(zz.Int(name + ".v"))
	}
	return fp.Failure[int](vhErr(name))
}

func vhTryUF(name string, args ...int) fp.Try[int] {
	if zz.UFBool(name+".ok", args...) {
		return fp.Success(zz.UFInt(name+".v", args...))
	}
	return fp.Failure[int](vhErr(name))
}

// ---- FlatMap threads the state and stops at a failure

func VH_c17_flatmap_threads_state() {
	m := vhMk("m")
	calls := 0
	k := func(a int) vhST { calls++; return vhRet("k", a) }
	s0 := zz.Int("s0")
	r, s2 := FlatMap(m, k)(s0)
	r1, s1 := m(s0)
	if r1.IsSuccess() {
		wr, ws := vhRet("k", r1.Get())(s1)
		zz.Assert(vhEqTry(r, wr) && s2 == ws, "FlatMap: continuation runs from the post-state of the first step")
		zz.Assert(calls == 1, "FlatMap: continuation called once")
	} else {
		zz.Assert(r.IsFailure() && r.Failed().Get() == r1.Failed().Get(), "FlatMap: failure keeps the failing step's error")
		zz.Assert(s2 == s1, "FlatMap: state reported is the state at the point of failure")
		zz.Assert(calls == 0, "FlatMap: later steps do not run after a failure")
	}
}

func VH_c17_flatmapconst_concat_withstate() {
	m1, m2, m3 := vhMk("m1"), vhMk("m2"), vhMk("m3")
	zz.Assert(vhEq(FlatMapConst(m1, m2), FlatMap(m1, func(int) vhST { return m2 })), "FlatMapConst")
	zz.Assert(vhEq(Concat(m1, m2, m3), FlatMap(m1, func(int) vhST { return FlatMap(m2, func(int) vhST { return m3 }) })), "Concat runs left to right")
	zz.Assert(vhEq(Concat(m1), m1), "Concat of one")
	f := func(s int) vhST { return vhRet("ws", s) }
	s0 := zz.Int("s0")
	r, s1 := WithState(f)(s0)
	wr, ws := f(s0)(s0)
	zz.Assert(vhEqTry(r, wr) && s1 == ws, "WithState")
}

// ---- Recover* variants

func VH_c17_recover() {
	m := vhMk("m")
	calls := 0
	var gotErr error
	h := func(err error) int { calls++; gotErr = err; return zz.UFInt("h") }
	s0 := zz.Int("s0")
	r, s2 := m.Recover(h)(s0)
	r1, s1 := m(s0)
	zz.Assert(s2 == s1, "Recover: state returned is the post-step state")
	if r1.IsSuccess() {
		zz.Assert(vhEqTry(r, r1) && calls == 0, "Recover: success untouched, handler not run")
	} else {
		zz.Assert(calls == 1 && gotErr == r1.Failed().Get(), "Recover: handler gets that step's error once")
		zz.Assert(r.IsSuccess() && r.Get() == zz.UFInt("h"), "Recover: handler result becomes the value")
	}
}

func VH_c17_recoverT() {
	m := vhMk("m")
	calls := 0
	var gotErr error
	h := func(err error) fp.Try[int] { calls++; gotErr = err; return vhTryUF("h") }
	s0 := zz.Int("s0")
	r, s2 := m.RecoverT(h)(s0)
	r1, s1 := m(s0)
	zz.Assert(s2 == s1, "RecoverT: state returned is the post-step state")
	if r1.IsSuccess() {
		zz.Assert(vhEqTry(r, r1) && calls == 0, "RecoverT: success untouched")
	} else {
		zz.Assert(calls == 1 && gotErr == r1.Failed().Get(), "RecoverT: handler gets that step's error once")
		zz.Assert(vhEqTry(r, vhTryUF("h")), "RecoverT: handler result becomes the result")
	}
}

func VH_c17_recoverWithState() {
	m := vhMk("m")
	calls := 0
	var gotErr error
	gotS := 0
	h := func(s int, err error) int { calls++; gotErr = err; gotS = s; return zz.UFInt("h", s) }
	s0 := zz.Int("s0")
	r, s2 := m.RecoverWithState(h)(s0)
	r1, s1 := m(s0)
	zz.Assert(s2 == s1, "RecoverWithState: state returned is the post-step state")
	if r1.IsSuccess() {
		zz.Assert(vhEqTry(r, r1) && calls == 0, "RecoverWithState: success untouched")
	} else {
		zz.Assert(calls == 1 && gotErr == r1.Failed().Get(), "RecoverWithState: handler gets that step's error once")
		zz.Assert(gotS == s1, "RecoverWithState: handler gets the post-failure state")
		zz.Assert(r.IsSuccess() && r.Get() == zz.UFInt("h", s1), "RecoverWithState: value")
	}
}

func VH_c17_recoverWithStateT() {
	m := vhMk("m")
	calls := 0
	var gotErr error
	gotS := 0
	h := func(s int, err error) fp.Try[int] { calls++; gotErr = err; gotS = s; return vhTryUF("h", s) }
	s0 := zz.Int("s0")
	r, s2 := m.RecoverWithStateT(h)(s0)
	r1, s1 := m(s0)
	zz.Assert(s2 == s1, "RecoverWithStateT: state returned is the post-step state")
	if r1.IsSuccess() {
		zz.Assert(vhEqTry(r, r1) && calls == 0, "RecoverWithStateT: success untouched")
	} else {
		zz.Assert(calls == 1 && gotErr == r1.Failed().Get(), "RecoverWithStateT: handler gets that step's error once")
		zz.Assert(gotS == s1, "RecoverWithStateT: handler gets the post-failure state")
		zz.Assert(vhEqTry(r, vhTryUF("h", s1)), "RecoverWithStateT: result")
	}
}

func VH_c17_recoverWith() {
	m := vhMk("m")
	calls := 0
	var gotErr error
	h := func(err error) vhST { calls++; gotErr = err; return vhRet("h") }
	s0 := zz.Int("s0")
	r, s2 := m.RecoverWith(h)(s0)
	r1, s1 := m(s0)
	if r1.IsSuccess() {
		zz.Assert(vhEqTry(r, r1) && s2 == s1 && calls == 0, "RecoverWith: success untouched")
	} else {
		wr, ws := vhRet("h")(s1)
		zz.Assert(calls == 1 && gotErr == r1.Failed().Get(), "RecoverWith: handler gets that step's error once")
		zz.Assert(vhEqTry(r, wr) && s2 == ws, "RecoverWith: recovery program runs from the post-failure state")
	}
}

func VH_c17_recoverCase() {
	m := vhMk("m")
	pc, hc := 0, 0
	var pe, he error
	p := func(err error) bool { pc++; pe = err; return zz.UFBool("p") }
	h := func(err error) int { hc++; he = err; return zz.UFInt("h") }
	s0 := zz.Int("s0")
	r, s2 := m.RecoverCase(p, h)(s0)
	r1, s1 := m(s0)
	zz.Assert(s2 == s1, "RecoverCase: state")
	if r1.IsSuccess() {
		zz.Assert(vhEqTry(r, r1) && pc == 0 && hc == 0, "RecoverCase: success untouched")
	} else if zz.UFBool("p") {
		zz.Assert(pe == r1.Failed().Get() && he == r1.Failed().Get() && hc == 1, "RecoverCase: predicate and handler get the error")
		zz.Assert(r.IsSuccess() && r.Get() == zz.UFInt("h"), "RecoverCase: recovered value")
	} else {
		zz.Assert(vhEqTry(r, r1) && hc == 0, "RecoverCase: not defined -> failure kept")
	}
}

func VH_c17_recoverCaseT() {
	m := vhMk("m")
	hc := 0
	var he error
	p := func(err error) bool { return zz.UFBool("p") }
	h := func(err error) fp.Try[int] { hc++; he = err; return vhTryUF("h") }
	s0 := zz.Int("s0")
	r, s2 := m.RecoverCaseT(p, h)(s0)
	r1, s1 := m(s0)
	zz.Assert(s2 == s1, "RecoverCaseT: state")
	if r1.IsSuccess() {
		zz.Assert(vhEqTry(r, r1) && hc == 0, "RecoverCaseT: success untouched")
	} else if zz.UFBool("p") {
		zz.Assert(he == r1.Failed().Get() && hc == 1, "RecoverCaseT: handler gets the error")
		zz.Assert(vhEqTry(r, vhTryUF("h")), "RecoverCaseT: result")
	} else {
		zz.Assert(vhEqTry(r, r1) && hc == 0, "RecoverCaseT: not defined -> failure kept")
	}
}

func VH_c17_recoverCaseWith() {
	m := vhMk("m")
	hc := 0
	var he error
	p := func(err error) bool { return zz.UFBool("p") }
	h := func(err error) vhST { hc++; he = err; return vhRet("h") }
	s0 := zz.Int("s0")
	r, s2 := m.RecoverCaseWith(p, h)(s0)
	r1, s1 := m(s0)
	if r1.IsSuccess() {
		zz.Assert(vhEqTry(r, r1) && s2 == s1 && hc == 0, "RecoverCaseWith: success untouched")
	} else if zz.UFBool("p") {
		wr, ws := vhRet("h")(s1)
		zz.Assert(he == r1.Failed().Get() && hc == 1, "RecoverCaseWith: handler gets the error")
		zz.Assert(vhEqTry(r, wr) && s2 == ws, "RecoverCaseWith: recovery runs from the post-failure state")
	} else {
		zz.Assert(vhEqTry(r, r1) && s2 == s1 && hc == 0, "RecoverCaseWith: not defined -> failure kept")
	}
}

// ---- the remaining hand-written combinators

func VH_c17_transform() {
	m := vhMk("m")
	s0 := zz.Int("s0")
	r1, s1 := m(s0)
	f := func(s int, t fp.Try[int]) (int, fp.Try[int]) {
		if t.IsSuccess() {
			return zz.UFInt("tf.s", s, t.Get()), vhTryUF("tf.ok", s, t.Get())
		}
		return zz.UFInt("tf.fs", s), vhTryUF("tf.fail", s)
	}
	r, s2 := Transform(m, f)(s0)
	ws, wr := f(s1, r1)
	zz.Assert(vhEqTry(r, wr) && s2 == ws, "Transform receives the post-step state and result")

	g := func(t fp.Try[int]) vhST {
		if t.IsSuccess() {
			return vhRet("tw.ok", t.Get())
		}
		return vhRet("tw.fail")
	}
	r, s2 = TransformWith(m, g)(s0)
	wr, ws = g(r1)(s1)
	zz.Assert(vhEqTry(r, wr) && s2 == ws, "TransformWith continues from the post-step state")
}

func VH_c17_mapT_mapWithState() {
	m := vhMk("m")
	s0 := zz.Int("s0")
	r1, s1 := m(s0)
	{
		calls := 0
		f := func(a int) fp.Try[int] { calls++; return vhTryUF("f", a) }
		r, s2 := MapT(m, f)(s0)
		zz.Assert(s2 == s1, "MapT keeps the post-step state")
		if r1.IsSuccess() {
			zz.Assert(vhEqTry(r, vhTryUF("f", r1.Get())) && calls == 1, "MapT on success")
		} else {
			zz.Assert(vhEqTry(r, r1) && calls == 0, "MapT on failure")
		}
	}
	{
		calls := 0
		f := func(s, a int) int { calls++; return zz.UFInt("g", s, a) }
		r, s2 := MapWithState(m, f)(s0)
		zz.Assert(s2 == s1, "MapWithState keeps the post-step state")
		if r1.IsSuccess() {
			zz.Assert(r.IsSuccess() && r.Get() == zz.UFInt("g", s1, r1.Get()) && calls == 1, "MapWithState gets the post-step state")
		} else {
			zz.Assert(vhEqTry(r, r1) && calls == 0, "MapWithState on failure")
		}
	}
	{
		calls := 0
		f := func(s, a int) fp.Try[int] { calls++; return vhTryUF("h", s, a) }
		r, s2 := MapWithStateT(m, f)(s0)
		zz.Assert(s2 == s1, "MapWithStateT keeps the post-step state")
		if r1.IsSuccess() {
			zz.Assert(vhEqTry(r, vhTryUF("h", s1, r1.Get())) && calls == 1, "MapWithStateT gets the post-step state")
		} else {
			zz.Assert(vhEqTry(r, r1) && calls == 0, "MapWithStateT on failure")
		}
	}
	{
		seen, calls := 0, 0
		r, s2 := PeekState(m, func(s int) { seen = s; calls++ })(s0)
		zz.Assert(vhEqTry(r, r1) && s2 == s1 && seen == s1 && calls == 1, "PeekState observes the post-step state")
	}
}

func VH_c17_apTry_apOption() {
	f := func(a int) int { return zz.UFInt("f", a) }
	mf := vhMkOf("mf", fp.Func1[int, int](f))
	s0 := zz.Int("s0")
	rf, s1 := mf(s0)
	{
		t := vhTry("t")
		r, s2 := ApTry(mf, t)(s0)
		zz.Assert(s2 == s1, "ApTry state")
		if rf.IsFailure() {
			zz.Assert(r.IsFailure() && r.Failed().Get() == rf.Failed().Get(), "ApTry: function failure wins (left to right)")
		} else if t.IsFailure() {
			zz.Assert(r.IsFailure() && r.Failed().Get() == t.Failed().Get(), "ApTry: argument failure")
		} else {
			zz.Assert(r.IsSuccess() && r.Get() == f(t.Get()), "ApTry: applies")
		}
	}
	{
		var o fp.Option[int]
		if zz.Bool("o.some") {
			o = fp.Some(zz.Int("o.v"))
		}
		r, s2 := ApOption(mf, o)(s0)
		zz.Assert(s2 == s1, "ApOption state")
		if rf.IsFailure() {
			zz.Assert(r.IsFailure() && r.Failed().Get() == rf.Failed().Get(), "ApOption: function failure wins")
		} else if o.IsEmpty() {
			zz.Assert(r.IsFailure(), "ApOption: None fails")
		} else {
			zz.Assert(r.IsSuccess() && r.Get() == f(o.Get()), "ApOption: applies")
		}
	}
}

func VH_c17_exec_eval() {
	m := vhMk("m")
	s0 := zz.Int("s0")
	r1, s1 := m(s0)
	zz.Assert(vhEqTry(m.Eval(s0), r1), "Eval")
	e := m.Exec(s0)
	if r1.IsSuccess() {
		zz.Assert(e.IsSuccess() && e.Get() == s1, "Exec success gives final state")
	} else {
		zz.Assert(e.IsFailure() && e.Failed().Get() == r1.Failed().Get(), "Exec failure gives the error")
	}
}
