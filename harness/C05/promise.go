//verif:overlay internal/zzverif_h/c05/h.go
package c05

import (
	"errors"

	"github.com/csgura/fp"
	zz "github.com/csgura/fp/internal/zzverif"
)

// user-supplied executor that runs callbacks synchronously in the completing/registering task
type inline struct{}

func (inline) ExecuteUnsafe(r fp.Runnable) { r.Run() }

var errs = []error{errors.New("e0"), errors.New("e1"), errors.New("e2")}

const (
	kSuccess = iota
	kFailure
	kComplete
	kOnComplete
	kOnSuccess
	kOnFailure
	kForeach
)

type cbrec struct {
	kind  int
	calls int
	ok    bool
	val   int
	err   error
	early bool
}

type world struct {
	p    fp.Promise[int]
	cbs  []*cbrec
	exec []fp.Executor
}

func (w *world) register(kind int) {
	r := &cbrec{kind: kind}
	w.cbs = append(w.cbs, r)
	f := w.p.Future()
	switch kind {
	case kOnComplete:
		f.OnComplete(func(t fp.Try[int]) {
			r.calls++
			r.early = r.early || !w.p.IsCompleted()
			r.ok = t.IsSuccess()
			if r.ok {
				r.val = t.Get()
			} else {
				r.err = t.Failed().Get()
			}
		}, w.exec...)
	case kOnSuccess, kForeach:
		cb := func(v int) {
			r.calls++
			r.early = r.early || !w.p.IsCompleted()
			r.ok, r.val = true, v
		}
		if kind == kOnSuccess {
			f.OnSuccess(cb, w.exec...)
		} else {
			f.Foreach(cb, w.exec...)
		}
	case kOnFailure:
		f.OnFailure(func(e error) {
			r.calls++
			r.early = r.early || !w.p.IsCompleted()
			r.ok, r.err = false, e
		}, w.exec...)
	}
}

type completer struct {
	kind int
	ok   bool
	val  int
	err  error
	ret  bool
	done bool
}

func (w *world) complete(c *completer) {
	switch c.kind {
	case kSuccess:
		c.ret = w.p.Success(c.val)
	case kFailure:
		c.ret = w.p.Failure(c.err)
	case kComplete:
		if c.ok {
			c.ret = w.p.Complete(fp.Success(c.val))
		} else {
			c.ret = w.p.Complete(fp.Failure[int](c.err))
		}
	}
	c.done = true
}

// scenario: `prefix` sequential registrations, then the listed operations run concurrently
func scenario(name string, prefix int, kinds []int, useDefaultExecutor bool) {
	// context-bounded: every schedule with at most this many preemptions (registrations and completions are a
	// handful of atomic steps each, so races between two of them need 1-2 preemptions)
	if useDefaultExecutor {
		zz.Config("preempt", zz.Bound("preempt.goexec", 2, 3)) // every callback is a task of its own here
	} else {
		zz.Config("preempt", zz.Bound("preempt", 3, 5))
	}
	w := &world{p: fp.NewPromise[int]()}
	if !useDefaultExecutor {
		w.exec = []fp.Executor{inline{}}
	}
	for i := 0; i < prefix; i++ {
		w.register(kOnComplete + i%4)
	}
	var comps []*completer
	for i, k := range kinds {
		k := k
		if k <= kComplete {
			c := &completer{kind: k, val: zz.Int("v" + string(rune('0'+i))), err: errs[i%3]}
			c.ok = k == kSuccess || (k == kComplete && zz.Bool("ok"+string(rune('0'+i))))
			comps = append(comps, c)
			zz.Spawn(func() { w.complete(c) })
		} else {
			zz.Spawn(func() { w.register(k) })
		}
	}
	zz.Quiesce()

	wins := 0
	var win *completer
	for _, c := range comps {
		zz.Assert(c.done, name+": completion call returned")
		if c.ret {
			wins++
			win = c
		}
	}
	if len(comps) == 0 {
		zz.Assert(!w.p.IsCompleted(), name+": never completed")
		for _, r := range w.cbs {
			zz.Assert(r.calls == 0, name+": no callback before completion")
		}
		return
	}
	zz.Assert(wins == 1, name+": exactly one completion call returns true")
	zz.Assert(w.p.IsCompleted() && w.p.Future().IsCompleted(), name+": IsCompleted afterwards")
	v := w.p.Value()
	zz.Assert(v.IsSuccess() == win.ok, name+": Value is the winner's result (constructor)")
	if win.ok {
		zz.Assert(v.IsSuccess() && v.Get() == win.val, name+": Value is the winner's result")
	} else {
		zz.Assert(v.IsFailure() && v.Failed().Get() == win.err, name+": Value is the winner's error")
	}
	v2 := w.p.Future().Value()
	zz.Assert(v2.IsSuccess() == v.IsSuccess(), name+": Value is stable")
	zz.Assert(len(w.cbs) == prefix+len(kinds)-len(comps), name+": all registrations returned")
	for _, r := range w.cbs {
		want := 1
		if (r.kind == kOnSuccess || r.kind == kForeach) && !win.ok {
			want = 0
		}
		if r.kind == kOnFailure && win.ok {
			want = 0
		}
		zz.Assert(r.calls == want, name+": every registered callback is invoked exactly once (subject to its filter)")
		zz.Assert(!r.early, name+": no callback runs before completion")
		if r.calls == 1 {
			if win.ok {
				zz.Assert(r.ok && r.val == win.val, name+": callback sees the winner's value")
			} else {
				zz.Assert(!r.ok && r.err == win.err, name+": callback sees the winner's error")
			}
		}
	}
}

func VH_c05_two_completers()    { scenario("S|F", 0, []int{kSuccess, kFailure}, false) }
func VH_c05_three_completers()  { scenario("S|F|C", 1, []int{kSuccess, kFailure, kComplete}, false) }
func VH_c05_reg_vs_complete_0() { scenario("0+reg|S", 0, []int{kOnComplete, kSuccess}, false) }
func VH_c05_reg_vs_complete_1() { scenario("1+reg|F", 1, []int{kOnFailure, kFailure}, false) }
func VH_c05_two_regs_vs_complete_0() {
	scenario("0+reg|reg|S", 0, []int{kOnComplete, kOnSuccess, kSuccess}, false)
}
func VH_c05_two_regs_vs_complete_1() {
	scenario("1+reg|reg|C", 1, []int{kOnComplete, kForeach, kComplete}, false)
}
func VH_c05_two_regs_vs_complete_2() {
	scenario("2+reg|reg|S", 2, []int{kOnComplete, kOnComplete, kSuccess}, false)
}
func VH_c05_two_regs_vs_complete_3() {
	scenario("3+reg|reg|S", 3, []int{kOnComplete, kOnComplete, kSuccess}, false)
}
func VH_c05_two_regs_vs_complete_4() {
	scenario("4+reg|reg|F", 4, []int{kOnComplete, kOnFailure, kFailure}, false)
}
func VH_c05_two_regs_no_completion_3() {
	scenario("3+reg|reg", 3, []int{kOnComplete, kOnSuccess}, false)
}
func VH_c05_reg_and_two_completers() {
	scenario("2+reg|S|C", 2, []int{kOnComplete, kSuccess, kComplete}, false)
}
func VH_c05_default_executor() {
	scenario("go-executor 1+reg|S", 1, []int{kOnComplete, kSuccess}, true)
}
func VH_c05_default_executor_2() {
	scenario("go-executor 0+reg|reg|S", 0, []int{kOnComplete, kOnSuccess, kSuccess}, true)
}

// after completion, late registrations are dispatched at once
func VH_c05_late_registration() {
	w := &world{p: fp.NewPromise[int](), exec: []fp.Executor{inline{}}}
	v := zz.Int("v")
	zz.Assert(w.p.Success(v), "first completion wins")
	zz.Assert(!w.p.Success(zz.Int("w")) && !w.p.Failure(errs[0]) && !w.p.Complete(fp.Success(1)), "later completions return false")
	w.register(kOnComplete)
	w.register(kOnSuccess)
	w.register(kOnFailure)
	zz.Assert(w.cbs[0].calls == 1 && w.cbs[0].val == v, "late OnComplete runs once with the value")
	zz.Assert(w.cbs[1].calls == 1 && w.cbs[1].val == v, "late OnSuccess runs once with the value")
	zz.Assert(w.cbs[2].calls == 0, "late OnFailure does not run on success")
	zz.Assert(w.p.Value().Get() == v, "Value keeps the first result")
}

// the zero value behaves like a promise that is never completed
func VH_c05_zero_value() {
	var p fp.Promise[int]
	zz.Assert(!p.Success(1) && !p.Failure(errs[0]) && !p.Complete(fp.Success(2)), "zero Promise: completion attempts return false")
	zz.Assert(!p.IsCompleted(), "zero Promise: not completed")
	calls := 0
	f := p.Future()
	f.OnComplete(func(fp.Try[int]) { calls++ })
	f.OnSuccess(func(int) { calls++ })
	f.OnFailure(func(error) { calls++ })
	f.Foreach(func(int) { calls++ })
	var zf fp.Future[int]
	zf.OnComplete(func(fp.Try[int]) { calls++ }, inline{})
	zz.Assert(!zf.IsCompleted() && !f.IsCompleted(), "zero Future: not completed")
	zz.Quiesce()
	zz.Assert(calls == 0, "zero Promise/Future: registrations are ignored")
}

// executors passed as a spread slice that the caller reuses afterwards (sets the slot to nil or to another
// executor): every registered callback still runs exactly once with the result, the completion returns true and
// nothing panics
type counting struct{ n *int }

func (c counting) ExecuteUnsafe(r fp.Runnable) { *c.n++; r.Run() }

func VH_c05_executor_slice_reused() {
	execs := []fp.Executor{inline{}}
	w := &world{p: fp.NewPromise[int](), exec: execs}
	w.register(kOnComplete)
	w.register(kOnSuccess)
	w.register(kForeach)
	other := 0
	if zz.Bool("slot.nil") {
		execs[0] = nil
	} else {
		execs[0] = counting{&other}
	}
	v := zz.Int("v")
	zz.Assert(w.p.Success(v), "completion of a pending promise returns true")
	zz.Quiesce()
	for _, r := range w.cbs {
		zz.Assert(r.calls == 1 && r.val == v, "callback registered with a spread executor slice runs exactly once with the value")
	}
	zz.Assert(w.p.Value().Get() == v && !w.p.Success(zz.Int("w")), "the result is stored once")
}
