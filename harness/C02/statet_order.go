//verif:overlay statet/zz_verif_c02_order.go
package statet

import (
	"github.com/csgura/fp"
	zz "github.com/csgura/fp/internal/zzverif"
)

// C02 for StateT: every step logs when it is RUN, fails or succeeds symbolically with its own error; the
// combined program is run once from a symbolic state. The result is the first failing step's own error, the
// steps up to and including it ran exactly once in order, no later step or user function ran, and the state
// returned is the state that step left.

var vhOrd []int

type vhStep struct {
	id int
	ok bool
	v  int
	e  error
}

func vhNewStep(id int) vhStep {
	n := string(rune('0' + id))
	return vhStep{id, zz.Bool("ok" + n), zz.Int("v" + n), vhErr("step" + n)}
}

func (st vhStep) prog() fp.StateT[int, int] {
	return func(s int) (fp.Try[int], int) {
		vhOrd = append(vhOrd, st.id)
		ns := zz.UFInt("ns", st.id, s)
		if st.ok {
			return fp.Success(st.v), ns
		}
		return fp.Failure[int](st.e), ns
	}
}

// reference run of steps in order; returns (index of the failing step or -1, state, expected log)
func vhRefRun(s0 int, steps ...vhStep) (int, int, []int) {
	s := s0
	var log []int
	for i, st := range steps {
		log = append(log, st.id)
		s = zz.UFInt("ns", st.id, s)
		if !st.ok {
			return i, s, log
		}
	}
	return -1, s, log
}

func vhSameLog(a, b []int) bool {
	if len(a) != len(b) {
		return false
	}
	for i := range a {
		if a[i] != b[i] {
			return false
		}
	}
	return true
}

func vhCheckOrder(p fp.StateT[int, int], wantV func() int, l string, fnCalls *int, steps ...vhStep) {
	vhCheckOrderOnce(p, wantV, l, fnCalls, "s0", steps...)
	// the program is a value: a second run (from another state) obeys the same rules - in particular it starts
	// again at the first step and stops again at the first failing one
	if fnCalls != nil {
		*fnCalls = 0
	}
	vhCheckOrderOnce(p, wantV, l+" (second run)", fnCalls, "s1", steps...)
}

func vhCheckOrderOnce(p fp.StateT[int, int], wantV func() int, l string, fnCalls *int, sname string, steps ...vhStep) {
	vhOrd = nil
	s0 := zz.Int(sname)
	r, s := p(s0)
	failed, ws, wlog := vhRefRun(s0, steps...)
	zz.Assert(vhSameLog(vhOrd, wlog), l+": steps run left to right, once each, none after the first failure")
	zz.Assert(s == ws, l+": the state is the one the last executed step left")
	if failed < 0 {
		zz.Assert(r.IsSuccess() && r.Get() == wantV(), l+": success value")
		if fnCalls != nil {
			zz.Assert(*fnCalls == 1, l+": the combining function runs exactly once")
		}
	} else {
		zz.Assert(r.IsFailure() && r.Failed().Get() == steps[failed].e, l+": the first failing step's own error")
		if fnCalls != nil {
			zz.Assert(*fnCalls == 0, l+": the combining function does not run after a failure")
		}
	}
}

func VH_c02_statet_flatmap_map2_map3() {
	a, b, c := vhNewStep(1), vhNewStep(2), vhNewStep(3)
	calls := 0
	switch zz.Choice("which", 5) {
	case 0:
		p := FlatMap(a.prog(), func(x int) fp.StateT[int, int] {
			return FlatMap(b.prog(), func(y int) fp.StateT[int, int] { calls++; return Pure[int](zz.UFInt("f", x, y)) })
		})
		vhCheckOrder(p, func() int { return zz.UFInt("f", a.v, b.v) }, "FlatMap", &calls, a, b)
	case 1:
		p := Map2(a.prog(), b.prog(), func(x, y int) int { calls++; return zz.UFInt("f", x, y) })
		vhCheckOrder(p, func() int { return zz.UFInt("f", a.v, b.v) }, "Map2", &calls, a, b)
	case 2:
		p := Map3(a.prog(), b.prog(), c.prog(), func(x, y, z int) int { calls++; return zz.UFInt("f3", x, y, z) })
		vhCheckOrder(p, func() int { return zz.UFInt("f3", a.v, b.v, c.v) }, "Map3", &calls, a, b, c)
	case 3:
		p := LiftA2[int](func(x, y int) int { calls++; return zz.UFInt("f", x, y) })(a.prog(), b.prog())
		vhCheckOrder(p, func() int { return zz.UFInt("f", a.v, b.v) }, "LiftA2", &calls, a, b)
	case 4:
		p := LiftM2(func(x, y int) fp.StateT[int, int] { calls++; return c.prog() })(a.prog(), b.prog())
		vhCheckOrder(p, func() int { return c.v }, "LiftM2", nil, a, b, c)
	}
}

func VH_c02_statet_ap_family() {
	a, b := vhNewStep(1), vhNewStep(2)
	calls := 0
	stf := Map(a.prog(), func(x int) fp.Func1[int, int] {
		return func(y int) int { calls++; return zz.UFInt("f", x, y) }
	})
	okArg := zz.Bool("arg.ok")
	argV := zz.Int("arg.v")
	argE := vhErr("arg")
	// the argument operand is a plain Try/Option: it comes AFTER the program in left-to-right order
	arg := vhStep{id: 9, ok: okArg, v: argV, e: argE}
	checkPlain := func(p fp.StateT[int, int], l string, viaOpt bool) {
		vhOrd = nil
		s0 := zz.Int("s0")
		r, s := p(s0)
		zz.Assert(vhSameLog(vhOrd, []int{1}), l+": the program operand runs exactly once, whatever the argument is")
		zz.Assert(s == zz.UFInt("ns", 1, s0), l+": the state is the one the program left")
		switch {
		case !a.ok:
			zz.Assert(r.IsFailure() && r.Failed().Get() == a.e && calls == 0, l+": the program's own error comes first")
		case !arg.ok && viaOpt:
			zz.Assert(r.IsFailure() && r.Failed().Get() == fp.ErrOptionEmpty && calls == 0, l+": None argument")
		case !arg.ok:
			zz.Assert(r.IsFailure() && r.Failed().Get() == arg.e && calls == 0, l+": the argument's own error")
		default:
			zz.Assert(r.IsSuccess() && r.Get() == zz.UFInt("f", a.v, arg.v) && calls == 1, l+": success value")
		}
	}
	switch zz.Choice("which", 4) {
	case 0:
		t := fp.Success(argV)
		if !okArg {
			t = fp.Failure[int](argE)
		}
		checkPlain(ApTry(stf, t), "ApTry", false)
	case 1:
		o := fp.Some(argV)
		if !okArg {
			o = fp.None[int]()
		}
		checkPlain(ApOption(stf, o), "ApOption", true)
	case 2:
		vhCheckOrder(Ap(stf, b.prog()), func() int { return zz.UFInt("f", a.v, b.v) }, "Ap", &calls, a, b)
	case 3:
		supplied := 0
		p := ApFunc(stf, func() fp.StateT[int, int] { supplied++; return b.prog() })
		vhCheckOrder(p, func() int { return zz.UFInt("f", a.v, b.v) }, "ApFunc", &calls, a, b)
		// two runs of the program (see vhCheckOrder): at most once per run, never after a failure of the program operand
		zz.Assert(supplied <= 2 && (a.ok || supplied == 0), "ApFunc: the supplier runs at most once per run and not after a failure")
	}
}

func VH_c02_statet_sequence_traverse_concat() {
	a, b, c := vhNewStep(1), vhNewStep(2), vhNewStep(3)
	steps := []vhStep{a, b, c}
	sum := func(xs []int) int {
		r := 0
		for i, x := range xs {
			r += zz.UFInt("pos", i, x)
		}
		return r
	}
	want := func() int { return sum([]int{a.v, b.v, c.v}) }
	switch zz.Choice("which", 6) {
	case 5:
		// the operands of Concat are the programs passed at the call, also when they are passed as a spread
		// slice the caller goes on to reuse (a scratch buffer of steps): what the caller stores in the slice
		// afterwards is no operand of p
		tail := []fp.StateT[int, int]{b.prog(), c.prog()}
		p := Concat(a.prog(), tail...)
		poison := vhStep{9, false, 0, vhErr("poison")}
		if zz.Bool("overwrite.all") {
			tail[0] = poison.prog()
		}
		tail[1] = poison.prog()
		vhCheckOrder(p, func() int { return c.v }, "Concat(start, steps...) after the caller reused steps", nil, a, b, c)
	case 0:
		p := Map(Sequence([]fp.StateT[int, int]{a.prog(), b.prog(), c.prog()}), sum)
		vhCheckOrder(p, want, "Sequence", nil, a, b, c)
	case 1:
		kcalls := 0
		p := Map(TraverseSeq(fp.Seq[int]{0, 1, 2}, func(i int) fp.StateT[int, int] { kcalls++; return steps[i].prog() }), func(s fp.Seq[int]) int { return sum(s) })
		vhCheckOrder(p, want, "TraverseSeq", nil, a, b, c)
	case 2:
		p := Concat(a.prog(), b.prog(), c.prog())
		vhCheckOrder(p, func() int { return c.v }, "Concat", nil, a, b, c)
	case 3:
		p := FlatMapConst(a.prog(), b.prog())
		vhCheckOrder(p, func() int { return b.v }, "FlatMapConst", nil, a, b)
	case 4:
		p := FoldM(fp.IteratorOfSeq([]int{0, 1, 2}), 0, func(acc, i int) fp.StateT[int, int] {
			return Map(steps[i].prog(), func(v int) int { return acc + zz.UFInt("pos", i, v) })
		})
		vhCheckOrder(p, want, "FoldM", nil, a, b, c)
	}
}

// Recover* on a StateT program: the program's steps run exactly once (never again for the recovery), a success
// passes through with no handler call, the handler is called exactly once with the failing step's own error, and
// when the predicate of a RecoverCase* does not match the failure is returned unchanged.
func VH_c02_statet_recover_variants() {
	a, b := vhNewStep(1), vhNewStep(2)
	p := FlatMapConst(a.prog(), b.prog())
	hcalls, pcalls := 0, 0
	var herr error
	matches := zz.Bool("predicate")
	pred := func(e error) bool { pcalls++; return matches }
	hv := zz.Int("hv")
	h := func(e error) int { hcalls++; herr = e; return hv }
	hT := func(e error) fp.Try[int] { hcalls++; herr = e; return fp.Success(hv) }
	hS := func(e error) fp.StateT[int, int] { hcalls++; herr = e; return Pure[int](hv) }
	var r fp.StateT[int, int]
	uncond := true
	l := ""
	switch zz.Choice("variant", 8) {
	case 0:
		r, l = p.Recover(h), "Recover"
	case 1:
		r, l = p.RecoverT(hT), "RecoverT"
	case 2:
		r, l = p.RecoverWithState(func(s int, e error) int { return h(e) }), "RecoverWithState"
	case 3:
		r, l = p.RecoverWithStateT(func(s int, e error) fp.Try[int] { return hT(e) }), "RecoverWithStateT"
	case 4:
		r, l = p.RecoverWith(hS), "RecoverWith"
	case 5:
		r, l, uncond = p.RecoverCase(pred, h), "RecoverCase", false
	case 6:
		r, l, uncond = p.RecoverCaseT(pred, hT), "RecoverCaseT", false
	case 7:
		r, l, uncond = p.RecoverCaseWith(pred, hS), "RecoverCaseWith", false
	}
	vhOrd = nil
	s0 := zz.Int("s0")
	res, _ := r(s0)
	failed, _, wlog := vhRefRun(s0, a, b)
	zz.Assert(vhSameLog(vhOrd, wlog), l+": the program's steps run exactly once, in order")
	switch {
	case failed < 0:
		zz.Assert(res.IsSuccess() && res.Get() == b.v && hcalls == 0, l+": a success passes through, no handler call")
	case uncond || matches:
		werr := []vhStep{a, b}[failed].e
		zz.Assert(res.IsSuccess() && res.Get() == hv && hcalls == 1 && herr == werr, l+": the handler runs once with the failing step's own error")
	default:
		werr := []vhStep{a, b}[failed].e
		zz.Assert(res.IsFailure() && res.Failed().Get() == werr && hcalls == 0, l+": predicate does not match: the failure is returned unchanged, no handler call")
	}
}
