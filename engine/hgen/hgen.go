// Package hgen generates harness sources from the current /repo tree.
package hgen

type File struct {
	Virtual string
	Data    []byte
}

type genFn func(tier, repo string) ([]File, error)

var generators = map[string][]genFn{}
var assumptions = map[string][]string{}

func Generate(id, tier, repo string) ([]File, error) {
	var out []File
	for _, g := range generators[id] {
		fs, err := g(tier, repo)
		if err != nil {
			return nil, err
		}
		out = append(out, fs...)
	}
	return out, nil
}

func Assumptions(id string) []string { return assumptions[id] }

// ScratchPrograms returns generator-input programs for properties checked by translation validation.
func ScratchPrograms(id, tier string, seed int) []Program {
	switch id {
	case "C07":
		return ValuePrograms(tier, seed)
	case "C08":
		return DerivePrograms(tier, seed)
	case "C15":
		return JsonPrograms(tier, seed)
	}
	return nil
}
