//verif:overlay internal/zzverif_h/c04/list_shared.go
package c04

import (
	"github.com/csgura/fp"
	zz "github.com/csgura/fp/internal/zzverif"
	"github.com/csgura/fp/iterator"
	"github.com/csgura/fp/list"
)

// A lazy fp.List over a single-pass source is still a value: whoever looks at it, and whenever, sees the same
// contents - also when two goroutines force the same unevaluated cell at the same time, and when it is read
// again afterwards.
func VH_c04_lazy_list_same_contents_for_every_observer() {
	zz.Config("preempt", zz.Bound("preempt.list", 2, 3))
	in := zz.SliceInt("in", 3, 0, 0)
	i := 0
	it := fp.MakeIterator(func() bool { return i < len(in) }, func() int { v := in[i]; i++; return v })
	var l fp.List[int]
	if zz.Bool("collect") {
		l = list.Collect(it)
	} else {
		l = iterator.ToList(it)
	}
	var got [2][]int
	for t := 0; t < 2; t++ {
		t := t
		zz.Spawn(func() {
			if t == 0 {
				got[t] = l.ToSeq()
			} else {
				// the other observer goes for the second cell directly
				tl := l.Tail()
				if tl.NonEmpty() {
					got[t] = []int{tl.Head()}
				}
			}
		})
	}
	zz.Quiesce()
	later := l.ToSeq()
	same := len(later) == len(in) && len(got[0]) == len(in)
	for k := 0; same && k < len(in); k++ {
		same = later[k] == in[k] && got[0][k] == in[k]
	}
	if len(in) >= 2 {
		same = same && len(got[1]) == 1 && got[1][0] == in[1]
	} else {
		same = same && len(got[1]) == 0
	}
	zz.Assert(same, "a lazy list shows the same contents to concurrent observers and for ever after")
}
