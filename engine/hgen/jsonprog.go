package hgen

import (
	"fmt"
	"strings"
)

// C15: JSON round trips. encoding/json itself is environment (modelled by contract in the executor); what is
// executed for real is fp.Option's and fp.Unit's MarshalJSON/UnmarshalJSON and the MarshalJSON/UnmarshalJSON that
// gombok generates for @fp.Json structs.

const jsonTypes = `package j1

import (
	"encoding/json"

	"github.com/csgura/fp"
)

//go:generate gombok

// @fp.Value
// @fp.Json
type Rec struct {
	id   int
	name string
	ok   bool
	opt  fp.Option[int]
	ptr  *int
	list []int
	Pub  string
}

// @fp.Value
// @fp.Json
type Tagged struct {
	a int              ` + "`json:\"alpha\"`" + `
	b fp.Option[string] ` + "`json:\"beta,omitempty\"`" + `
}

// every field exported: the value type and its Mutable twin have the same layout
// @fp.Value
// @fp.Json
type AllPub struct {
	ID    int
	Name  string
	Count fp.Option[int]
	Tags  []int ` + "`json:\"tags,omitempty\"`" + `
}

// every field private
// @fp.Value
// @fp.Json
type AllPriv struct {
	id    int
	count fp.Option[int]
}

// one codec method written by hand: the generator supplies the other one (and only that one)
// @fp.Value
// @fp.Json
type HandEnc struct {
	a int
	b string
}

func (r HandEnc) MarshalJSON() ([]byte, error) {
	return json.Marshal(r.AsMutable())
}

// @fp.Value
// @fp.Json
type HandDec struct {
	a int
	b string
}

func (r *HandDec) UnmarshalJSON(data []byte) error {
	m := r.AsMutable()
	if err := json.Unmarshal(data, &m); err != nil {
		return err
	}
	*r = m.AsImmutable()
	return nil
}

// interface-typed fields: whatever a faithful value decodes to (a float64 number, a string, nil) comes back
// @fp.Value
// @fp.Json
type WithAny struct {
	id    int
	extra any
}

type Audit struct {
	Rev int
	By  string
}

// an embedded struct is one member, encoded under its type name - also when a key of the outer struct has the
// same name as a key inside it
// @fp.Value
// @fp.Json
type Order struct {
	Audit
	id  string
	Rev int
}

// @fp.Value
// @fp.Json
type Nest struct {
	r Rec
	n fp.Option[fp.Option[int]]
}
`

const jsonHarness = `package j1

import (
	"encoding/json"

	"github.com/csgura/fp"
	zz "scratchmod/zzverif"
)

func optEq(a, b fp.Option[int]) bool {
	if a.IsDefined() != b.IsDefined() {
		return false
	}
	return a.IsEmpty() || a.Get() == b.Get()
}

func mkOpt(n string) fp.Option[int] {
	if zz.Bool(n + ".some") {
		return fp.Some(zz.Int(n + ".v"))
	}
	return fp.None[int]()
}

// ---- fp.Option

func VH_c15_option_roundtrip() {
	x := mkOpt("x")
	b, err := x.MarshalJSON()
	zz.Assert(err == nil, "Option.MarshalJSON succeeds")
	if x.IsEmpty() {
		zz.Assert(string(b) == "null", "None encodes as null")
	} else {
		zz.Assert(len(b) > 0 && b[0] != 'n', "Some(v) encodes as the encoding of v, which is not null")
	}
	y := mkOpt("y") // arbitrary previous content of the target
	err = y.UnmarshalJSON(b)
	zz.Assert(err == nil && optEq(y, x), "Unmarshal(Marshal(x)) = x for Option")
	// through encoding/json, which dispatches to the methods
	b2, err2 := json.Marshal(x)
	var z fp.Option[int]
	err3 := json.Unmarshal(b2, &z)
	zz.Assert(err2 == nil && err3 == nil && optEq(z, x), "json.Unmarshal(json.Marshal(x)) = x for Option")
}

func VH_c15_option_nested_roundtrip() {
	inner := zz.Int("v")
	x := fp.Some(fp.Some(inner)) // an inner None encodes as null and is excluded by the property
	b, err := x.MarshalJSON()
	var y fp.Option[fp.Option[int]]
	err2 := y.UnmarshalJSON(b)
	zz.Assert(err == nil && err2 == nil && y.IsDefined() && y.Get().IsDefined() && y.Get().Get() == inner, "nested Option round trip")
	n := fp.None[fp.Option[int]]()
	bn, _ := n.MarshalJSON()
	var yn fp.Option[fp.Option[int]]
	zz.Assert(yn.UnmarshalJSON(bn) == nil && yn.IsEmpty(), "nested None round trip")
}

func VH_c15_option_arbitrary_input() {
	in := []byte(zz.Str("in", 4))
	y := mkOpt("y")
	before := y
	err := y.UnmarshalJSON(in)
	if err != nil {
		zz.Assert(optEq(y, before), "Option.UnmarshalJSON leaves the target unchanged when it returns an error")
	}
	if len(in) == 0 || in[0] == 'n' {
		zz.Assert(err == nil && y.IsEmpty(), "empty input or null decodes to None")
	}
	var np *fp.Option[int]
	zz.Assert(np.UnmarshalJSON(in) != nil, "nil receiver returns an error instead of panicking")
}

type pairT struct{ A, B int }

// a target that already holds Some(composite value): a failing decode leaves it as it was (the value is decoded
// aside and only stored on success). The document is one that real encoding/json rejects after it has decoded the
// first member.
func VH_c15_option_composite_target_unchanged_on_error() {
	y := fp.Some(pairT{zz.Int("a"), zz.Int("b")})
	before := y.Get()
	in := []byte("{\"A\":9,\"B\":\"not a number\"}")
	if zz.Bool("arbitrary") {
		in = []byte(zz.Str("in", 3))
	}
	if y.UnmarshalJSON(in) != nil {
		zz.Assert(y.IsDefined() && y.Get() == before, "Option[struct].UnmarshalJSON leaves a Some(...) target unchanged when it returns an error")
	}
}

func VH_c15_unit() {
	u := fp.Unit{}
	b, err := u.MarshalJSON()
	zz.Assert(err == nil && string(b) == "null", "Unit encodes as null")
	var v fp.Unit
	zz.Assert(v.UnmarshalJSON(b) == nil && v == u, "Unit round trip")
	zz.Assert(v.UnmarshalJSON([]byte(zz.Str("in", 3))) == nil, "Unit accepts arbitrary input without panic")
}

// ---- generated @fp.Json structs

func mkRec(t string) Rec {
	r := Rec{id: zz.Int(t + ".id"), name: zz.Str(t+".name", 1), ok: zz.Bool(t + ".ok"), opt: mkOpt(t + ".opt"), list: zz.SliceInt(t+".list", 1, 0, 0), Pub: zz.Str(t+".pub", 1)}
	if zz.Bool(t + ".ptr.nonnil") {
		v := zz.Int(t + ".ptr")
		r.ptr = &v
	}
	return r
}

func eqRec(a, b Rec) bool {
	if a.id != b.id || a.name != b.name || a.ok != b.ok || !optEq(a.opt, b.opt) || a.Pub != b.Pub {
		return false
	}
	if (a.ptr == nil) != (b.ptr == nil) || (a.ptr != nil && *a.ptr != *b.ptr) {
		return false
	}
	if len(a.list) != len(b.list) {
		return false
	}
	for i := range a.list {
		if a.list[i] != b.list[i] {
			return false
		}
	}
	return true
}

func VH_c15_struct_roundtrip() {
	x := mkRec("x")
	b, err := x.MarshalJSON()
	zz.Assert(err == nil, "generated MarshalJSON succeeds")
	y := mkRec("y")
	err = y.UnmarshalJSON(b)
	zz.Assert(err == nil && eqRec(y, x), "Unmarshal(Marshal(x)) = x for an @fp.Json struct (through the Mutable twin)")
	// what is handed to encoding/json is exactly the public Mutable twin
	bm, errm := json.Marshal(x.AsMutable())
	var m RecMutable
	zz.Assert(errm == nil && json.Unmarshal(bm, &m) == nil && eqRec(m.AsImmutable(), x), "the Mutable twin carries every field")
}

func VH_c15_struct_arbitrary_input() {
	in := []byte(zz.Str("in", 3))
	if zz.Bool("partial.document") {
		in = []byte("{\"Pub\":\"q\",\"Pub\":5}")
	}
	y := mkRec("y")
	before := y
	err := y.UnmarshalJSON(in)
	if err != nil {
		zz.Assert(eqRec(y, before), "generated UnmarshalJSON leaves the target unchanged on error")
	}
	var np *Rec
	zz.Assert(np.UnmarshalJSON(in) != nil, "generated UnmarshalJSON on a nil receiver returns an error")
}

func mkAllPub(t string) AllPub {
	return AllPub{ID: zz.Int(t + ".id"), Name: zz.Str(t+".name", 1), Count: mkOpt(t + ".count"), Tags: zz.SliceInt(t+".tags", 1, 0, 0)}
}

func eqAllPub(a, b AllPub) bool {
	if a.ID != b.ID || a.Name != b.Name || !optEq(a.Count, b.Count) || len(a.Tags) != len(b.Tags) {
		return false
	}
	for i := range a.Tags {
		if a.Tags[i] != b.Tags[i] {
			return false
		}
	}
	return true
}

func VH_c15_allpublic_struct() {
	x := mkAllPub("x")
	b, err := x.MarshalJSON()
	y := mkAllPub("y")
	err2 := y.UnmarshalJSON(b)
	zz.Assert(err == nil && err2 == nil && eqAllPub(y, x), "Unmarshal(Marshal(x)) = x for an all-public @fp.Json struct")
	in := []byte(zz.Str("in", 3))
	if zz.Bool("partial.document") {
		// a document that real encoding/json rejects only after it has decoded an earlier member
		in = []byte("{\"ID\":9,\"Name\":\"q\",\"ID\":\"not a number\"}")
	}
	z := mkAllPub("z")
	before := z
	if z.UnmarshalJSON(in) != nil {
		zz.Assert(eqAllPub(z, before), "all-public struct: UnmarshalJSON leaves the target unchanged on error")
	}
	var np *AllPub
	zz.Assert(np.UnmarshalJSON(in) != nil, "all-public struct: nil receiver returns an error")
}

func VH_c15_allprivate_struct() {
	x := AllPriv{id: zz.Int("x.id"), count: mkOpt("x.count")}
	b, err := x.MarshalJSON()
	y := AllPriv{id: zz.Int("y.id"), count: mkOpt("y.count")}
	err2 := y.UnmarshalJSON(b)
	zz.Assert(err == nil && err2 == nil && y.id == x.id && optEq(y.count, x.count), "Unmarshal(Marshal(x)) = x for an all-private @fp.Json struct")
	in := []byte(zz.Str("in", 3))
	z := AllPriv{id: zz.Int("z.id"), count: mkOpt("z.count")}
	before := z
	if z.UnmarshalJSON(in) != nil {
		zz.Assert(z.id == before.id && optEq(z.count, before.count), "all-private struct: UnmarshalJSON leaves the target unchanged on error")
	}
}

// ---- declaration level: the public Mutable twin that is handed to encoding/json has exactly these fields, json
// names (the declared tag, else the declared field name) and omitempty on string, pointer, slice and Option
// fields. Assignability to an unnamed struct type requires identical field names, types, tags and order, so a
// deviation is a compile error of this harness, reported as a violation.
var _ struct {
	Id   int            ` + "`json:\"id\"`" + `
	Name string         ` + "`json:\"name,omitempty\"`" + `
	Ok   bool           ` + "`json:\"ok\"`" + `
	Opt  fp.Option[int] ` + "`json:\"opt,omitempty\"`" + `
	Ptr  *int           ` + "`json:\"ptr,omitempty\"`" + `
	List []int          ` + "`json:\"list,omitempty\"`" + `
	Pub  string         ` + "`json:\"Pub,omitempty\"`" + `
} = RecMutable{}

var _ struct {
	A int               ` + "`json:\"alpha\"`" + `
	B fp.Option[string] ` + "`json:\"beta,omitempty\"`" + `
} = TaggedMutable{}

var _ struct {
	ID    int            ` + "`json:\"ID\"`" + `
	Name  string         ` + "`json:\"Name,omitempty\"`" + `
	Count fp.Option[int] ` + "`json:\"Count,omitempty\"`" + `
	Tags  []int          ` + "`json:\"tags,omitempty\"`" + `
} = AllPubMutable{}

var _ struct {
	Id    int            ` + "`json:\"id\"`" + `
	Count fp.Option[int] ` + "`json:\"count,omitempty\"`" + `
} = AllPrivMutable{}

var _ struct {
	R Rec                       ` + "`json:\"r\"`" + `
	N fp.Option[fp.Option[int]] ` + "`json:\"n,omitempty\"`" + `
} = NestMutable{}

var _ struct {
	Audit ` + "`json:\"Audit\"`" + `
	Id    string ` + "`json:\"id,omitempty\"`" + `
	Rev   int    ` + "`json:\"Rev\"`" + `
} = OrderMutable{}

func VH_c15_hand_written_codec_half() {
	x := HandEnc{a: zz.Int("x.a"), b: zz.Str("x.b", 1)}
	bs, err := x.MarshalJSON()
	y := HandEnc{a: zz.Int("y.a")}
	err2 := y.UnmarshalJSON(bs) // generated
	zz.Assert(err == nil && err2 == nil && y.a == x.a && y.b == x.b, "hand-written MarshalJSON + generated UnmarshalJSON round trip")
	u := HandDec{a: zz.Int("u.a"), b: zz.Str("u.b", 1)}
	bu, err3 := u.MarshalJSON() // generated
	v := HandDec{a: zz.Int("v.a")}
	err4 := v.UnmarshalJSON(bu)
	zz.Assert(err3 == nil && err4 == nil && v.a == u.a && v.b == u.b, "generated MarshalJSON + hand-written UnmarshalJSON round trip")
	// through encoding/json, which must find both methods on each type
	b2, e5 := json.Marshal(x)
	var z HandEnc
	e6 := json.Unmarshal(b2, &z)
	zz.Assert(e5 == nil && e6 == nil && z.a == x.a && z.b == x.b, "json.Unmarshal(json.Marshal(x)) = x with a hand-written encoder")
}

func VH_c15_interface_typed_field() {
	var e any
	switch zz.Choice("extra", 3) {
	case 0:
		e = float64(3)
	case 1:
		e = "s"
	}
	x := WithAny{id: zz.Int("x.id"), extra: e}
	b, err := x.MarshalJSON()
	y := WithAny{id: zz.Int("y.id")}
	err2 := y.UnmarshalJSON(b)
	zz.Assert(err == nil && err2 == nil && y.id == x.id && y.extra == x.extra, "Unmarshal(Marshal(x)) = x for an @fp.Json struct with an interface-typed field (a number stays a float64)")
}

func VH_c15_embedded_struct() {
	x := Order{Audit: Audit{Rev: zz.Int("x.a.rev"), By: zz.Str("x.a.by", 1)}, id: zz.Str("x.id", 1), Rev: zz.Int("x.rev")}
	b, err := x.MarshalJSON()
	y := Order{Audit: Audit{Rev: zz.Int("y.a.rev")}, Rev: zz.Int("y.rev")}
	err2 := y.UnmarshalJSON(b)
	zz.Assert(err == nil && err2 == nil && y.Audit == x.Audit && y.id == x.id && y.Rev == x.Rev, "Unmarshal(Marshal(x)) = x for an @fp.Json struct with an embedded struct whose key clashes with an outer key")
}

func VH_c15_tagged_and_nested() {
	t := Tagged{a: zz.Int("a")}
	if zz.Bool("b.some") {
		t.b = fp.Some(zz.Str("b", 1))
	}
	b, err := t.MarshalJSON()
	var u Tagged
	err2 := u.UnmarshalJSON(b)
	zz.Assert(err == nil && err2 == nil && u.a == t.a && u.b.IsDefined() == t.b.IsDefined() && (t.b.IsEmpty() || u.b.Get() == t.b.Get()), "tagged @fp.Json struct round trip")
	n := Nest{r: mkRec("r"), n: fp.Some(fp.Some(zz.Int("nn")))}
	bn, errn := n.MarshalJSON()
	var n2 Nest
	errn2 := n2.UnmarshalJSON(bn)
	zz.Assert(errn == nil && errn2 == nil && eqRec(n2.r, n.r) && n2.n.IsDefined() && n2.n.Get().IsDefined() && n2.n.Get().Get() == n.n.Get().Get(), "nested @fp.Json struct round trip")
}
`

// wideJson is program j2: @fp.Json structs at and beyond the widest tuple/HList arity the library has
// (max.Product = 22, so AsTuple/FromTuple/AsLabelled stop being generated): the codec is generated all the same
// and has to carry every field.
func wideJson() Program {
	var ty, hn strings.Builder
	ty.WriteString("package j2\n\nimport (\n\t\"encoding/json\"\n\n\t\"github.com/csgura/fp\"\n)\n\n//go:generate gombok\n\nvar _ json.Marshaler\nvar _ fp.Unit\n")
	hn.WriteString("package j2\n\nimport (\n\tzz \"scratchmod/zzverif\"\n)\n")
	for _, n := range []int{21, 22, 24} {
		name := fmt.Sprintf("Wide%d", n)
		fmt.Fprintf(&ty, "\n// @fp.Value\n// @fp.Json\ntype %s struct {\n", name)
		for i := 1; i <= n; i++ {
			fmt.Fprintf(&ty, "\tf%02d int\n", i)
		}
		ty.WriteString("}\n")
		fmt.Fprintf(&hn, "\nfunc VH_c15_wide_struct_%d() {\n\tx := %s{", n, name)
		for i := 1; i <= n; i++ {
			fmt.Fprintf(&hn, "f%02d: zz.Int(\"x.f%02d\"), ", i, i)
		}
		hn.WriteString("}\n\tb, err := x.MarshalJSON()\n")
		fmt.Fprintf(&hn, "\tvar y %s\n\terr2 := y.UnmarshalJSON(b)\n\tzz.Assert(err == nil && err2 == nil, \"%d-field @fp.Json struct: Marshal and Unmarshal succeed\")\n", name, n)
		for i := 1; i <= n; i++ {
			fmt.Fprintf(&hn, "\tzz.Assert(y.f%02d == x.f%02d, \"%d-field @fp.Json struct: Unmarshal(Marshal(x)) = x, field f%02d\")\n", i, i, n, i)
		}
		hn.WriteString("}\n")
	}
	return Program{Pkg: "j2", Files: map[string][]byte{"types.go": []byte(ty.String())}, Harness: map[string][]byte{"zz_verif_harness.go": []byte(hn.String())}, Desc: "@fp.Json structs of 21, 22 and 24 fields"}
}

// JsonPrograms returns the scratch programs of C15.
func JsonPrograms(tier string, seed int) []Program {
	return []Program{{Pkg: "j1", Files: map[string][]byte{"types.go": []byte(jsonTypes)}, Harness: map[string][]byte{"zz_verif_harness.go": []byte(jsonHarness)}, Desc: "@fp.Json structs, Option, Unit"}, wideJson()}
}
