#!/bin/bash
# Re-runs every stored seeded change against the check named first in its meta.json "caught_by" and reports
# whether it is still caught (exit code 1 with a VIOLATION line). /repo is restored after every seed.
cd /verif
for d in $(ls seeded | sort); do
  chk=$(python3 -c "import json,re;m=json.load(open('/verif/seeded/$d/meta.json'));c=re.search(r'C\d\d',m.get('caught_by','') or '');print(c.group(0) if c else m['property'])")
  s=$(date +%s)
  out=$(tools/seedcheck.sh /verif/seeded/$d/patch.diff $chk 2>&1)
  e=$(date +%s)
  if echo "$out" | grep -q "^VIOLATION"; then r=CAUGHT; elif echo "$out" | grep -q "PATCH DOES NOT APPLY"; then r=NOAPPLY; elif echo "$out" | grep -q "exit=2"; then r=INCONCLUSIVE; else r=MISSED; fi
  echo "$d $chk $r $((e-s))s"
done
