//verif:overlay internal/zzverif_h/selftest/h.go
package selftest

import (
	"github.com/csgura/fp"
	zz "github.com/csgura/fp/internal/zzverif"
)

// must be reported as a violation and must reproduce natively (vacuity / reachability witness of the pipeline)
func VH_st_must_fail() {
	o := fp.Some(zz.Int("x"))
	zz.Assert(o.Get() != 42, "x may be 42")
}

// must pass: a fact that needs the solver (not decided by term identity)
func VH_st_must_pass() {
	a, b := zz.Int("a"), zz.Int("b")
	zz.Assume(a > 0 && a < 1000 && b > 0 && b < 1000)
	zz.Assert(a*b == b*a && a+b > a, "commutativity and no overflow in range")
	s := zz.SliceInt("s", 2, 1, 1)
	t := append(s[:len(s):len(s)], 7)
	zz.Assert(len(t) == len(s)+1 && t[len(t)-1] == 7, "append on a clipped slice")
}

// a lost update that needs one specific interleaving; must reproduce natively under the recorded schedule
func VH_st_sched_must_fail() {
	c := 0
	inc := func() {
		v := c
		zz.Yield()
		c = v + 1
	}
	zz.Spawn(inc)
	zz.Spawn(inc)
	zz.Quiesce()
	zz.Assert(c == 2, "both increments are visible")
}

// an infinite loop must be reported as bound and reproduce natively as a hang
func VH_st_loop_must_fail() {
	x := zz.Int("x")
	for x != 0 {
		if x > 10 {
			x = 5
		}
	}
}
