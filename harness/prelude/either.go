//verif:overlay either/zz_verif_prelude.go
package either

import (
	"github.com/csgura/fp"
	zz "github.com/csgura/fp/internal/zzverif"
)

// Left payloads are symbolic ints tagged per operand so that "whose Left survived" is observable
func vhMk(name string) fp.Either[int, int] {
	if zz.Bool(name + ".ok") {
		return fp.Right[int](zz.Int(name + ".v"))
	}
	return fp.Left[int, int](zz.Int(name + ".l"))
}

func vhMkOf[T any](name string, v T) fp.Either[int, T] {
	if zz.Bool(name + ".ok") {
		return fp.Right[int](v)
	}
	return fp.Left[int, T](zz.Int(name + ".l"))
}

func vhUnit[T any](v T) fp.Either[int, T] { return Right[int](v) }

func vhRet(name string, args ...int) fp.Either[int, int] {
	if zz.UFBool(name+".ok", args...) {
		return fp.Right[int](zz.UFInt(name+".v", args...))
	}
	return fp.Left[int, int](zz.UFInt(name+".l", args...))
}

func vhEq[T comparable](a, b fp.Either[int, T]) bool {
	if a.IsRight() != b.IsRight() {
		return false
	}
	if a.IsRight() {
		return a.Get() == b.Get()
	}
	return a.Left() == b.Left()
}

func vhEqSlice(a, b fp.Either[int, []int]) bool {
	if a.IsRight() != b.IsRight() {
		return false
	}
	if a.IsRight() {
		x, y := a.Get(), b.Get()
		if len(x) != len(y) {
			return false
		}
		for i := range x {
			if x[i] != y[i] {
				return false
			}
		}
		return true
	}
	return a.Left() == b.Left()
}

func vhSeqToSlice(a fp.Either[int, fp.Seq[int]]) fp.Either[int, []int] {
	if a.IsRight() {
		return fp.Right[int]([]int(a.Get()))
	}
	return fp.Left[int, []int](a.Left())
}

func vhEqSeq(a, b fp.Either[int, fp.Seq[int]]) bool {
	return vhEqSlice(vhSeqToSlice(a), vhSeqToSlice(b))
}

func vhDrain(it fp.Iterator[int]) []int {
	var out []int
	for it.HasNext() {
		out = append(out, it.Next())
	}
	return out
}

func vhEqIter(a, b fp.Either[int, fp.Iterator[int]]) bool {
	if a.IsRight() != b.IsRight() {
		return false
	}
	if a.IsRight() {
		return vhEqSlice(fp.Right[int](vhDrain(a.Get())), fp.Right[int](vhDrain(b.Get())))
	}
	return a.Left() == b.Left()
}

// call log for C02: every user-supplied function appends its id and arguments
var vhCalls []int

func vhLog(id int, args ...int) {
	vhCalls = append(vhCalls, id)
	vhCalls = append(vhCalls, args...)
	vhCalls = append(vhCalls, -7777)
}

func vhLogEq(a, b []int) bool {
	if len(a) != len(b) {
		return false
	}
	for i := range a {
		if a[i] != b[i] {
			return false
		}
	}
	return true
}
