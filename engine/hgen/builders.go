package hgen

import (
	"fmt"
	"path/filepath"
	"regexp"
	"sort"
	"strconv"
	"strings"
)

// Applicative/Chain builders (try, option): for every arity N found in the source a harness supplies every
// operand in a symbolically chosen way (value, Try/Option, supplier function, FlatMap/Map/HList continuation),
// with a symbolic success flag per operand and suppliers that log their calls. Reference: the first failing
// operand decides the result (its own error), fn gets the operands in order, suppliers/continuations run left
// to right exactly once each up to and including the first failing one, continuations receive the previous
// operand / the reversed list of all earlier operands.
//
// mode "all": every position chooses among all kinds (kinds^N * 2^N paths, used for N <= 3).
// mode "one": one position chooses among all kinds, the others use the plain monadic operand (N*kinds*2^N).

type bKind struct {
	name    string
	method  string // builder method
	chain   bool   // only on MonadChain
	logs    bool
	pure    bool // the operand cannot fail
	viaOpt  bool // failure is reported as ErrOptionEmpty (try)
	cont    int  // 0 none, 1 previous value, 2 hlist
	tryOnly bool
}

var bKinds = []bKind{
	{name: "ApM", method: "ApM"}, // ApTry / ApOption of the package's own monad
	{name: "ApOption", method: "ApOption", viaOpt: true, tryOnly: true},
	{name: "Ap", method: "Ap", pure: true},
	{name: "ApMFunc", method: "ApMFunc", logs: true},
	{name: "ApOptionFunc", method: "ApOptionFunc", logs: true, viaOpt: true, tryOnly: true},
	{name: "ApFunc", method: "ApFunc", logs: true, pure: true},
	{name: "FlatMap", method: "FlatMap", chain: true, logs: true, cont: 1},
	{name: "Map", method: "Map", chain: true, logs: true, pure: true, cont: 1},
	{name: "HListFlatMap", method: "HListFlatMap", chain: true, logs: true, cont: 2},
	{name: "HListMap", method: "HListMap", chain: true, logs: true, pure: true, cont: 2},
}

func builderKinds(pkg string, chain bool) []bKind {
	var out []bKind
	for _, k := range bKinds {
		if k.chain && !chain {
			continue
		}
		if k.tryOnly && pkg != "try" {
			continue
		}
		out = append(out, k)
	}
	return out
}

func builderStageType(pkg string, chain bool, n, i int) string {
	rem := n - i
	if chain {
		ht := "hlist.Nil"
		if i > 0 {
			ht = "int"
		}
		return fmt.Sprintf("%s.MonadChain%d[%s, %s, %s, int]", pkg, rem, hlT(i, "hlist."), ht, ints(rem))
	}
	return fmt.Sprintf("%s.ApplicativeFunctor%d[%s, int]", pkg, rem, ints(rem))
}

func builderHarness(pkg string, chain bool, n int, onePos int, singleFail bool, label string) string {
	kinds := builderKinds(pkg, chain)
	mT, mOf := "fp.Try[int]", "asTry"
	if pkg == "option" {
		mT, mOf = "fp.Option[int]", "asOpt"
	}
	var sb strings.Builder
	w := func(f string, a ...any) { sb.WriteString(fmt.Sprintf(f, a...)) }
	w("\tbLog = nil\n\tzz.Config(\"loop\", 2000)\n")
	w("\tvar ops [%d]operand\n\tvar kinds [%d]int\n\tvar prev [%d]int\n\tvar seen [%d][]int\n\t_, _ = prev, seen\n", n, n, n, n)
	if singleFail {
		// at most one failing operand, at a symbolically chosen position
		w("\tfailAt := zz.Choice(\"failAt\", %d)\n", n+1)
		w("\tfor i := range ops {\n\t\tops[i] = operand{ok: failAt != i, v: zz.Int(\"v\" + itoa(i+1)), err: errs[i]}\n\t}\n")
	} else {
		w("\tfor i := range ops {\n\t\tops[i] = operand{ok: zz.Bool(\"ok\" + itoa(i+1)), v: zz.Int(\"v\" + itoa(i+1)), err: errs[i]}\n\t}\n")
	}
	if onePos < 0 {
		w("\tfor i := range kinds {\n\t\tkinds[i] = zz.Choice(\"kind\"+itoa(i+1), %d)\n\t}\n", len(kinds))
	} else {
		w("\tkinds[%d] = zz.Choice(\"kind%d\", %d)\n", onePos, onePos+1, len(kinds))
	}
	w("\tf := func(%s int) int { bLog = append(bLog, 99); return zz.UFInt(\"f\", %s) }\n", as(n), as(n))
	fam := "Applicative"
	if chain {
		fam = "Chain"
	}
	w("\ts0 := %s.%s%d(as.Func%d(f))\n", pkg, fam, n, n)
	for i := 0; i < n; i++ {
		last := i == n-1
		tgt := fmt.Sprintf("s%d", i+1)
		if last {
			w("\tvar r %s\n", mT)
			tgt = "r"
		} else {
			w("\tvar s%d %s\n", i+1, builderStageType(pkg, chain, n, i+1))
		}
		w("\t{\n\t\to := ops[%d]\n\t\tswitch kinds[%d] {\n", i, i)
		htT := "hlist.Nil"
		if i > 0 {
			htT = "int"
		}
		hT := hlT(i, "hlist.")
		for ki, k := range kinds {
			w("\t\tcase %d:\n", ki)
			meth := k.method
			switch meth {
			case "ApM":
				if pkg == "try" {
					meth = "ApTry"
				} else {
					meth = "ApOption"
				}
			case "ApMFunc":
				if pkg == "try" {
					meth = "ApTryFunc"
				} else {
					meth = "ApOptionFunc"
				}
			}
			logst := fmt.Sprintf("bLog = append(bLog, %d)", i+1)
			capt := ""
			param := ""
			switch k.cont {
			case 1:
				param = "p " + htT
				if i > 0 {
					capt = fmt.Sprintf("; prev[%d] = p", i)
				}
			case 2:
				param = "h " + hT
				// record the hlist contents, newest first
				c := ""
				e := "h"
				for j := 0; j < i; j++ {
					c += fmt.Sprintf("; seen[%d] = append(seen[%d], %s.Head())", i, i, e)
					e = fmt.Sprintf("hlist.Tail(%s)", e)
				}
				capt = c
			}
			var arg string
			switch {
			case k.name == "ApM":
				arg = "o." + mOf + "()"
			case k.name == "ApOption":
				arg = "o.asOpt()"
			case k.name == "Ap":
				arg = "o.v"
			case k.name == "ApMFunc":
				arg = fmt.Sprintf("func() %s { %s; return o.%s() }", mT, logst, mOf)
			case k.name == "ApOptionFunc":
				arg = fmt.Sprintf("func() fp.Option[int] { %s; return o.asOpt() }", logst)
			case k.name == "ApFunc":
				arg = fmt.Sprintf("func() int { %s; return o.v }", logst)
			case k.name == "FlatMap" || k.name == "HListFlatMap":
				arg = fmt.Sprintf("func(%s) %s { %s%s; return o.%s() }", param, mT, logst, capt, mOf)
			case k.name == "Map" || k.name == "HListMap":
				arg = fmt.Sprintf("func(%s) int { %s%s; return o.v }", param, logst, capt)
			}
			w("\t\t\t%s = s%d.%s(%s)\n", tgt, i, meth, arg)
		}
		w("\t\t}\n\t}\n")
	}
	// reference
	w("\tvar wlog []int\n\tvar eff [%d]operand\n\tfailed := -1\n", n)
	w("\tfor i := 0; i < %d; i++ {\n\t\tk := kindTab%s[kinds[i]]\n\t\teff[i] = ops[i]\n\t\tif k.pure {\n\t\t\teff[i].ok = true\n\t\t} else if k.viaOpt && !ops[i].ok {\n\t\t\teff[i].err = fp.ErrOptionEmpty\n\t\t}\n", n, tabName(pkg, chain))
	w("\t\tif failed < 0 && k.logs {\n\t\t\twlog = append(wlog, i+1)\n\t\t}\n\t\tif failed < 0 && !eff[i].ok {\n\t\t\tfailed = i\n\t\t}\n\t}\n")
	w("\tif failed < 0 {\n\t\twlog = append(wlog, 99)\n")
	effs := seqN(n, func(i int) string { return fmt.Sprintf("eff[%d].v", i-1) }, ", ")
	if pkg == "try" {
		w("\t\tzz.Assert(r.IsSuccess() && r.Get() == zz.UFInt(\"f\", %s), %q)\n", effs, label+": success applies fn to the operands in order")
		w("\t} else {\n\t\tzz.Assert(r.IsFailure() && r.Failed().Get() == eff[failed].err, %q)\n\t}\n", label+": the result is the first failing operand's own error")
	} else {
		w("\t\tzz.Assert(r.IsDefined() && r.Get() == zz.UFInt(\"f\", %s), %q)\n", effs, label+": success applies fn to the operands in order")
		w("\t} else {\n\t\tzz.Assert(r.IsEmpty(), %q)\n\t}\n", label+": None as soon as one operand is None")
	}
	w("\tzz.Assert(sameInts(bLog, wlog), %q)\n", label+": suppliers and continuations run left to right, once each, none after the first failure")
	if chain {
		w("\tfor i := 1; i < %d; i++ {\n\t\tk := kindTab%s[kinds[i]]\n\t\tif failed >= 0 && failed < i {\n\t\t\tcontinue\n\t\t}\n", n, tabName(pkg, chain))
		w("\t\tif k.cont == 1 {\n\t\t\tzz.Assert(prev[i] == eff[i-1].v, %q)\n\t\t}\n", label+": FlatMap/Map receive the previous operand's value")
		w("\t\tif k.cont == 2 {\n\t\t\tok := len(seen[i]) == i\n\t\t\tfor j := 0; j < i && ok; j++ {\n\t\t\t\tok = seen[i][j] == eff[i-1-j].v\n\t\t\t}\n\t\t\tzz.Assert(ok, %q)\n\t\t}\n\t}\n", label+": HList continuations receive all earlier operands, newest first")
	}
	return sb.String()
}

// builderNilable: every operand is a *int handed over with plain Ap; nil is an ordinary value of that type and
// must reach fn unchanged at its position
func builderNilable(pkg string, chain bool, n int, label string) string {
	var sb strings.Builder
	w := func(f string, a ...any) { sb.WriteString(fmt.Sprintf(f, a...)) }
	fam := "Applicative"
	if chain {
		fam = "Chain"
	}
	for i := 1; i <= n; i++ {
		w("\ta%d := zz.Int(\"a%d\")\n\tvar p%d *int\n\tif zz.Bool(\"nonnil%d\") {\n\t\tp%d = &a%d\n\t}\n", i, i, i, i, i, i)
	}
	ptrs := seqN(n, func(i int) string { return fmt.Sprintf("x%d", i) }, ", ")
	w("\tf := func(%s *int) int { return zz.UFInt(\"f\", %s) }\n", ptrs, seqN(n, func(i int) string { return fmt.Sprintf("enc(x%d)", i) }, ", "))
	chainExpr := fmt.Sprintf("%s.%s%d(as.Func%d(f))", pkg, fam, n, n)
	for i := 1; i <= n; i++ {
		chainExpr += fmt.Sprintf(".Ap(p%d)", i)
	}
	w("\tr := %s\n", chainExpr)
	want := fmt.Sprintf("zz.UFInt(\"f\", %s)", seqN(n, func(i int) string { return fmt.Sprintf("enc(p%d)", i) }, ", "))
	if pkg == "try" {
		w("\tzz.Assert(r.IsSuccess() && r.Get() == %s, %q)\n", want, label+": plain values (nil pointers included) reach fn at their positions")
	} else {
		w("\tzz.Assert(r.IsDefined() && r.Get() == %s, %q)\n", want, label+": plain values (nil pointers included) reach fn at their positions")
	}
	return sb.String()
}

func tabName(pkg string, chain bool) string {
	s := "A"
	if chain {
		s = "C"
	}
	return strings.Title(pkg) + s
}

func builderPrelude(pkgName string) string {
	var sb strings.Builder
	sb.WriteString("// generated by hgen (Applicative/Chain builders) from the exported identifiers of the current tree\npackage " + pkgName + `

import (
	"errors"

	"github.com/csgura/fp"
	"github.com/csgura/fp/as"
	"github.com/csgura/fp/hlist"
	zz "github.com/csgura/fp/internal/zzverif"
	"github.com/csgura/fp/option"
	"github.com/csgura/fp/try"
)

var (
	_ = hlist.Empty
	_ = option.Some[int]
	_ = try.Success[int]
	_ = as.Func2[int, int, int]
)

type operand struct {
	ok  bool
	v   int
	err error
}

func (o operand) asTry() fp.Try[int] {
	if o.ok {
		return fp.Success(o.v)
	}
	return fp.Failure[int](o.err)
}

func (o operand) asOpt() fp.Option[int] {
	if o.ok {
		return fp.Some(o.v)
	}
	return fp.None[int]()
}

type kindInfo struct {
	logs, pure, viaOpt bool
	cont               int
}

var bLog []int

var errs = []error{errors.New("e1"), errors.New("e2"), errors.New("e3"), errors.New("e4"), errors.New("e5"), errors.New("e6"), errors.New("e7"), errors.New("e8"), errors.New("e9"), errors.New("e10"), errors.New("e11"), errors.New("e12"), errors.New("e13"), errors.New("e14"), errors.New("e15"), errors.New("e16"), errors.New("e17"), errors.New("e18"), errors.New("e19"), errors.New("e20"), errors.New("e21"), errors.New("e22")}

func itoa(i int) string {
	if i >= 10 {
		return string(rune('0'+i/10)) + string(rune('0'+i%10))
	}
	return string(rune('0' + i))
}

func enc(p *int) int {
	if p == nil {
		return -1
	}
	return zz.UFInt("deref", *p)
}

func sameInts(a, b []int) bool {
	if len(a) != len(b) {
		return false
	}
	for i := range a {
		if a[i] != b[i] {
			return false
		}
	}
	return true
}
`)
	for _, pkg := range []string{"try", "option"} {
		for _, chain := range []bool{false, true} {
			sb.WriteString(fmt.Sprintf("\nvar kindTab%s = []kindInfo{\n", tabName(pkg, chain)))
			for _, k := range builderKinds(pkg, chain) {
				sb.WriteString(fmt.Sprintf("\t{logs: %v, pure: %v, viaOpt: %v, cont: %d}, // %s\n", k.logs, k.pure, k.viaOpt, k.cont, k.name))
			}
			sb.WriteString("}\n")
		}
	}
	return sb.String()
}

var builderRe = regexp.MustCompile(`^(Applicative|Chain)(\d+)$`)

// builderArities lists the arities of the Applicative/Chain constructors present in a package directory.
func builderArities(repo, pkg string) (map[string][]int, error) {
	fns, err := exportedFuncs(filepath.Join(repo, pkg))
	if err != nil {
		return nil, err
	}
	out := map[string][]int{}
	for n := range fns {
		if m := builderRe.FindStringSubmatch(n); m != nil {
			k, _ := strconv.Atoi(m[2])
			out[m[1]] = append(out[m[1]], k)
		}
	}
	for k := range out {
		sort.Ints(out[k])
	}
	return out, nil
}

// genBuilders: maxAll = largest arity explored with every position free; maxOne = largest arity explored with
// one free position at a time.
func genBuilders(id, pkgName string, maxAll, maxOne int) genFn {
	return func(tier, repo string) ([]File, error) {
		mAll, mOne := maxAll, maxOne
		if tier == "thorough" {
			mOne += 3
		}
		var sb strings.Builder
		sb.WriteString(builderPrelude(pkgName))
		var unc []string
		for _, pkg := range []string{"try", "option"} {
			ar, err := builderArities(repo, pkg)
			if err != nil {
				return nil, err
			}
			for _, fam := range []string{"Applicative", "Chain"} {
				chain := fam == "Chain"
				for _, n := range ar[fam] {
					label := fmt.Sprintf("%s.%s%d", pkg, fam, n)
					if n <= mOne {
						markCovered(strings.ToUpper(id), label)
					}
					if n <= 9 {
						sb.WriteString(fmt.Sprintf("\nfunc VH_%s_%s_%s%d_nilable() {\n%s}\n", id, pkg, fam, n, builderNilable(pkg, chain, n, label)))
					}
					switch {
					case n >= 2 && n <= mAll:
						sb.WriteString(fmt.Sprintf("\nfunc VH_%s_%s_%s%d_all() {\n%s}\n", id, pkg, fam, n, builderHarness(pkg, chain, n, -1, false, label)))
					case n >= 2 && n <= mOne:
						for p := 0; p < n; p++ {
							sb.WriteString(fmt.Sprintf("\nfunc VH_%s_%s_%s%d_pos%d() {\n%s}\n", id, pkg, fam, n, p+1, builderHarness(pkg, chain, n, p, false, fmt.Sprintf("%s (position %d free)", label, p+1))))
						}
					case n == 1:
						sb.WriteString(fmt.Sprintf("\nfunc VH_%s_%s_%s%d_all() {\n%s}\n", id, pkg, fam, n, builderHarness(pkg, chain, n, -1, false, label)))
					case mOne > mAll: // C14: arities above the all-failure-sets bound with at most one failing operand
						markCovered(strings.ToUpper(id), label)
						for p := 0; p < n; p++ {
							sb.WriteString(fmt.Sprintf("\nfunc VH_%s_%s_%s%d_pos%d_onefail() {\n%s}\n", id, pkg, fam, n, p+1, builderHarness(pkg, chain, n, p, true, fmt.Sprintf("%s (position %d free, at most one failing operand)", label, p+1))))
						}
					default:
						unc = append(unc, fmt.Sprintf("%s (arity above the bound %d)", label, mOne))
					}
				}
			}
		}
		sort.Strings(unc)
		Uncovered[strings.ToUpper(id)] = append(Uncovered[strings.ToUpper(id)], unc...)
		return []File{{Virtual: "internal/zzverif_h/" + pkgName + "/gen.go", Data: []byte(sb.String())}}, nil
	}
}

func init() {
	generators["C01"] = append(generators["C01"], genBuilders("c01", "c01b", 3, 3))
	generators["C02"] = append(generators["C02"], genBuilders("c02", "c02b", 3, 3))
	generators["C14"] = append(generators["C14"], genBuilders("c14", "c14b", 2, 6))
}
