//verif:overlay internal/zzverif_h/c18/h.go
package c18

import (
	"math"

	"github.com/csgura/fp"
	"github.com/csgura/fp/as"
	"github.com/csgura/fp/clone"
	"github.com/csgura/fp/hlist"
	zz "github.com/csgura/fp/internal/zzverif"
	"github.com/csgura/fp/lazy"
)

func check[T any](cl fp.Clone[T], v T, l string) {
	c := cl.Clone(v)
	zz.Assert(zz.DeepEq(v, c), l+": clone is structurally equal to the original")
	zz.Assert(zz.Disjoint(v, c), l+": clone shares no mutable storage with the original")
	// the instance is a function of its input: a second clone through the same instance is again an equal copy and
	// shares nothing with the original or with the first clone
	c2 := cl.Clone(v)
	zz.Assert(zz.DeepEq(v, c2), l+": second clone through the same instance is structurally equal to the original")
	zz.Assert(zz.Disjoint(v, c2) && zz.Disjoint(c, c2), l+": second clone shares nothing with the original or the first clone")
}

var gi = clone.Given[int]()

func lz[T any](c fp.Clone[T]) lazy.Eval[fp.Clone[T]] { return lazy.Done(c) }

func mkSlice(name string) []int { return zz.SliceInt(name, zz.Bound("slicelen", 2, 3), 1, 1) }

// slice without spare capacity/offset, for nested positions
func mkSliceS(name string) []int { return zz.SliceInt(name, 2, 0, 0) }

func mkPtrInt(name string) *int {
	if zz.Bool(name + ".nil") {
		return nil
	}
	v := zz.Int(name + ".v")
	return &v
}

func mkPtrSlice(name string) *[]int {
	if zz.Bool(name + ".nil") {
		return nil
	}
	s := mkSlice(name + ".s")
	return &s
}

// ---- depth 1

func VH_c18_given_ptr() {
	check(gi, zz.Int("x"), "Given[int]")
	check(clone.Given[string](), zz.Str("s", 2), "Given[string]")
	check(clone.Ptr(lz(gi)), mkPtrInt("p"), "Ptr(Given)")
}

func VH_c18_slice() { check(clone.Slice(gi), mkSlice("sl"), "Slice(Given)") }

func VH_c18_seq() { check(clone.Seq(gi), fp.Seq[int](mkSlice("sq")), "Seq(Given)") }

func mkMap(name string, n int) map[int]int {
	if zz.Bool(name + ".nil") {
		return nil
	}
	m := map[int]int{}
	k := zz.Choice(name+".n", n+1)
	for i := 0; i < k; i++ {
		m[zz.Int(name+".k"+string(rune('0'+i)))] = zz.Int(name + ".v" + string(rune('0'+i)))
	}
	return m
}

func VH_c18_gomap_option_tuple_hcons() {
	zz.Config("mapperm", 0)
	check(clone.GoMap(gi, gi), mkMap("m", 2), "GoMap(Given,Given)")
	var o fp.Option[int]
	if zz.Bool("o.some") {
		o = fp.Some(zz.Int("o.v"))
	}
	check(clone.Option(gi), o, "Option(Given)")
	check(clone.Tuple2(gi, gi), as.Tuple2(zz.Int("t1"), zz.Int("t2")), "Tuple2")
	check(clone.Tuple3(gi, gi, gi), as.Tuple3(zz.Int("u1"), zz.Int("u2"), zz.Int("u3")), "Tuple3")
	check(clone.HCons(gi, clone.HCons(gi, clone.HNil)), hlist.Concat(zz.Int("h1"), hlist.Concat(zz.Int("h2"), hlist.Empty())), "HCons")
}

// ---- depth 2

func VH_c18_ptr_of_slice() {
	check(clone.Ptr(lz(clone.Slice(gi))), mkPtrSlice("p"), "Ptr(Slice)")
}

func VH_c18_ptr_of_ptr() {
	var pp **int
	if !zz.Bool("pp.nil") {
		p := mkPtrInt("p")
		pp = &p
	}
	check(clone.Ptr(lz(clone.Ptr(lz(gi)))), pp, "Ptr(Ptr)")
}

func VH_c18_slice_of_ptr_aliased() {
	p, q := mkPtrInt("p"), mkPtrInt("q")
	var s []*int
	switch zz.Choice("shape", 4) {
	case 0:
		s = nil
	case 1:
		s = []*int{p}
	case 2:
		s = []*int{p, q}
	case 3:
		s = []*int{p, p} // internally aliased input
	}
	check(clone.Slice(clone.Ptr(lz(gi))), s, "Slice(Ptr)")
	check(clone.Seq(clone.Ptr(lz(gi))), fp.Seq[*int](s), "Seq(Ptr)")
}

func VH_c18_slice_of_slice() {
	a, b := mkSliceS("a"), mkSliceS("b")
	var s [][]int
	switch zz.Choice("shape", 3) {
	case 1:
		s = [][]int{a}
	case 2:
		s = [][]int{a, b}
	}
	check(clone.Slice(clone.Slice(gi)), s, "Slice(Slice)")
}

func VH_c18_option_of_ptr_and_slice() {
	var o fp.Option[*int]
	if zz.Bool("o.some") {
		o = fp.Some(mkPtrInt("p"))
	}
	check(clone.Option(clone.Ptr(lz(gi))), o, "Option(Ptr)")
}

func VH_c18_option_of_slice() {
	var os fp.Option[[]int]
	if zz.Bool("os.some") {
		os = fp.Some(mkSliceS("s"))
	}
	check(clone.Option(clone.Slice(gi)), os, "Option(Slice)")
}

func VH_c18_gomap_of_slice() {
	zz.Config("mapperm", 0)
	var m map[int][]int
	switch zz.Choice("shape", 3) {
	case 1:
		m = map[int][]int{zz.Int("k1"): mkSliceS("a")}
	case 2:
		m = map[int][]int{zz.Int("k1"): mkSliceS("a")}
		m[zz.Int("k2")] = mkSliceS("b")
	}
	check(clone.GoMap(gi, clone.Slice(gi)), m, "GoMap(Given,Slice)")
}

func VH_c18_gomap_of_ptr() {
	zz.Config("mapperm", 0)
	var mp map[int]*int
	if zz.Bool("mp.nonnil") {
		mp = map[int]*int{zz.Int("k"): mkPtrInt("p")}
	}
	check(clone.GoMap(gi, clone.Ptr(lz(gi))), mp, "GoMap(Given,Ptr)")
}

// keys are cloned too: a key type that holds a pointer must not be shared
func VH_c18_gomap_ptr_keys() {
	zz.Config("mapperm", 0)
	var mp map[*int]int
	if zz.Bool("mp.nonnil") {
		k := zz.Int("k")
		mp = map[*int]int{&k: zz.Int("v")}
	}
	check(clone.GoMap(clone.Ptr(lz(gi)), gi), mp, "GoMap(Ptr,Given)")
}

type pkey struct {
	p *int
	n int
}

func VH_c18_gomap_struct_keys() {
	zz.Config("mapperm", 0)
	k := zz.Int("k")
	mp := map[pkey][]int{{&k, zz.Int("n")}: mkSliceS("a")}
	ck := clone.Generic(fp.Generic[pkey, fp.Tuple2[*int, int]]{
		To:   func(x pkey) fp.Tuple2[*int, int] { return as.Tuple2(x.p, x.n) },
		From: func(t fp.Tuple2[*int, int]) pkey { return pkey{t.I1, t.I2} },
	}, clone.Tuple2(clone.Ptr(lz(gi)), gi))
	check(clone.GoMap(ck, clone.Slice(gi)), mp, "GoMap(Generic(Ptr,Given),Slice)")
}

func VH_c18_tuple2_of_refs() {
	t := as.Tuple2(mkSliceS("a"), mkPtrInt("p"))
	check(clone.Tuple2(clone.Slice(gi), clone.Ptr(lz(gi))), t, "Tuple2(Slice,Ptr)")
}

func VH_c18_tuple3_of_refs() {
	t3 := as.Tuple3(mkPtrInt("q"), zz.Int("x"), mkSliceS("b"))
	check(clone.Tuple3(clone.Ptr(lz(gi)), gi, clone.Slice(gi)), t3, "Tuple3(Ptr,Given,Slice)")
}

func VH_c18_hcons_of_refs() {
	h := hlist.Concat(mkSliceS("c"), hlist.Concat(mkPtrInt("r"), hlist.Empty()))
	check(clone.HCons(clone.Slice(gi), clone.HCons(clone.Ptr(lz(gi)), clone.HNil)), h, "HCons(Slice,HCons(Ptr))")
}

// ---- depth 3

func VH_c18_ptr_slice_ptr() {
	var p *[]*int
	if !zz.Bool("p.nil") {
		s := []*int{mkPtrInt("a"), mkPtrInt("b")}
		if zz.Bool("short") {
			s = s[:1]
		}
		p = &s
	}
	check(clone.Ptr(lz(clone.Slice(clone.Ptr(lz(gi))))), p, "Ptr(Slice(Ptr))")
}

func VH_c18_slice_gomap_slice() {
	zz.Config("mapperm", 0)
	var s []map[int][]int
	if zz.Bool("nonempty") {
		s = []map[int][]int{{zz.Int("k"): mkSliceS("a")}}
		if zz.Bool("two") {
			s = append(s, nil)
		}
	}
	check(clone.Slice(clone.GoMap(gi, clone.Slice(gi))), s, "Slice(GoMap(Given,Slice))")
}

func VH_c18_option_ptr_slice() {
	var o fp.Option[*[]int]
	if zz.Bool("o.some") {
		o = fp.Some(mkPtrSlice("p"))
	}
	check(clone.Option(clone.Ptr(lz(clone.Slice(gi)))), o, "Option(Ptr(Slice))")
}

type point struct {
	X []int
	Y *int
}

func VH_c18_generic() {
	g := fp.Generic[point, fp.Tuple2[[]int, *int]]{
		Type: "point",
		To:   func(p point) fp.Tuple2[[]int, *int] { return as.Tuple2(p.X, p.Y) },
		From: func(t fp.Tuple2[[]int, *int]) point { return point{t.I1, t.I2} },
	}
	check(clone.Generic(g, clone.Tuple2(clone.Slice(gi), clone.Ptr(lz(gi)))), point{mkSliceS("x"), mkPtrInt("y")}, "Generic(struct)")
}

// keys that are not equal to themselves: an entry under a NaN key is legal, is counted and ranged over, and can
// never be looked up - its value is part of the map all the same and is cloned like the others
func VH_c18_gomap_nan_keys() {
	zz.Config("mapperm", 0)
	m := map[float64][]int{}
	if zz.Bool("plain") {
		m[1.5] = mkSliceS("a")
	}
	m[math.NaN()] = mkSliceS("b")
	if zz.Bool("second.nan") {
		m[math.NaN()] = zz.SliceInt("c", 1, 0, 0) // another length, so that the entries cannot be confused whatever their order
	}
	check(clone.GoMap(clone.Given[float64](), clone.Slice(gi)), m, "GoMap(Given[float64],Slice) with NaN keys")
	type fk struct {
		f float64
		n int
	}
	ms := map[fk]*int{{math.NaN(), zz.Int("n")}: mkPtrInt("p")}
	check(clone.GoMap(clone.Given[fk](), clone.Ptr(lz(gi))), ms, "GoMap(Given[struct with a float],Ptr) with a NaN in the key")
}

// Generic of kind NewType (what gombok derives for `type MySeq []int`): the representation's instance is applied
type mySeq []int

func VH_c18_generic_newtype() {
	g := fp.Generic[mySeq, []int]{
		Type: "c18.mySeq",
		Kind: fp.GenericKindNewType,
		To:   func(v mySeq) []int { return []int(v) },
		From: func(v []int) mySeq { return mySeq(v) },
	}
	check(clone.Generic(g, clone.Slice(gi)), mySeq(mkSlice("s")), "Generic(NewType over a slice, Slice)")
	type box struct{ p *int }
	gb := fp.Generic[box, *int]{
		Type: "c18.box",
		Kind: fp.GenericKindStruct,
		To:   func(v box) *int { return v.p },
		From: func(p *int) box { return box{p} },
	}
	check(clone.Generic(gb, clone.Ptr(lz(gi))), box{mkPtrInt("p")}, "Generic(Struct, Ptr)")
	gt := fp.Generic[box, *int]{Type: "c18.box", Kind: fp.GenericKindTuple, To: gb.To, From: gb.From}
	check(clone.Generic(gt, clone.Ptr(lz(gi))), box{mkPtrInt("q")}, "Generic(Tuple kind, Ptr)")
}
