//verif:overlay internal/zzverif_h/iters/c20b.go
package iters

import (
	"github.com/csgura/fp"
	zz "github.com/csgura/fp/internal/zzverif"
	"github.com/csgura/fp/iterator"
)

// counted source: every element may be pulled from the source at most once
func counted(in []int, pulls *int) fp.Iterator[int] {
	i := 0
	return fp.MakeIterator(func() bool { return i < len(in) }, func() int {
		if i >= len(in) {
			panic("source exhausted")
		}
		*pulls++
		v := in[i]
		i++
		return v
	})
}

// twoSided drives the two iterators with an arbitrary interleaving of HasNext/Next calls on either side
func twoSided(name string, l, r fp.Iterator[int], el, er []int, pulls *int, n int) {
	steps := zz.Bound("dupscript", 6, 8)
	cl, cr := 0, 0
	for s := 0; s < steps; s++ {
		switch zz.Choice("act", 4) {
		case 0:
			zz.Assert(l.HasNext() == (cl < len(el)), name+": left HasNext")
		case 1:
			if cl < len(el) {
				zz.Assert(l.Next() == el[cl], name+": left delivers its sequence in order")
				cl++
			} else {
				zz.Assert(nextPanics(l), name+": left Next past the end panics")
			}
		case 2:
			zz.Assert(r.HasNext() == (cr < len(er)), name+": right HasNext")
		case 3:
			if cr < len(er) {
				zz.Assert(r.Next() == er[cr], name+": right delivers its sequence in order")
				cr++
			} else {
				zz.Assert(nextPanics(r), name+": right Next past the end panics")
			}
		}
		zz.Assert(*pulls <= n, name+": each source element is pulled at most once")
	}
	// whatever happened so far, both sides can still be drained completely
	for cl < len(el) {
		zz.Assert(l.HasNext(), name+": left complete (HasNext)")
		zz.Assert(l.Next() == el[cl], name+": left complete")
		cl++
	}
	for cr < len(er) {
		zz.Assert(r.HasNext(), name+": right complete (HasNext)")
		zz.Assert(r.Next() == er[cr], name+": right complete")
		cr++
	}
	zz.Assert(!l.HasNext() && !r.HasNext(), name+": both exhausted")
	zz.Assert(*pulls == n, name+": each source element pulled exactly once")
}

func VH_c20_duplicate() {
	n := zz.Bound("duplen", 2, 3)
	in := zz.SliceInt("in", n, 0, 0)
	pulls := 0
	l, r := iterator.Duplicate(counted(in, &pulls))
	twoSided("Duplicate", l, r, in, in, &pulls, len(in))
}

func VH_c20_span() {
	n := zz.Bound("duplen", 2, 3)
	in := zz.SliceInt("in", n, 0, 0)
	p := ufP("p")
	k := 0
	for k < len(in) && p(in[k]) {
		k++
	}
	pulls := 0
	l, r := iterator.Span(counted(in, &pulls), p)
	twoSidedLoose("Span", l, r, in[:k], in[k:], &pulls, len(in))
}

func VH_c20_partition() {
	n := zz.Bound("duplen", 2, 3)
	in := zz.SliceInt("in", n, 0, 0)
	p := ufP("p")
	var yes, no []int
	for _, x := range in {
		if p(x) {
			yes = append(yes, x)
		} else {
			no = append(no, x)
		}
	}
	pulls := 0
	l, r := iterator.Partition(counted(in, &pulls), p)
	twoSidedLoose("Partition", l, r, yes, no, &pulls, len(in))
}

// like twoSided, but the final "pulled exactly once" is relaxed to "at most once": a prefix/partition side may
// legitimately stop before the source is exhausted (TakeWhile stops at the first failing element)
func twoSidedLoose(name string, l, r fp.Iterator[int], el, er []int, pulls *int, n int) {
	steps := zz.Bound("dupscript2", 5, 7)
	cl, cr := 0, 0
	for s := 0; s < steps; s++ {
		switch zz.Choice("act", 4) {
		case 0:
			zz.Assert(l.HasNext() == (cl < len(el)), name+": left HasNext")
		case 1:
			if cl < len(el) {
				zz.Assert(l.Next() == el[cl], name+": left delivers its sequence in order")
				cl++
			} else {
				zz.Assert(nextPanics(l), name+": left Next past the end panics")
			}
		case 2:
			zz.Assert(r.HasNext() == (cr < len(er)), name+": right HasNext")
		case 3:
			if cr < len(er) {
				zz.Assert(r.Next() == er[cr], name+": right delivers its sequence in order")
				cr++
			} else {
				zz.Assert(nextPanics(r), name+": right Next past the end panics")
			}
		}
		zz.Assert(*pulls <= n, name+": each source element is pulled at most once")
	}
	for cl < len(el) {
		zz.Assert(l.HasNext() && l.Next() == el[cl], name+": left complete")
		cl++
	}
	for cr < len(er) {
		zz.Assert(r.HasNext() && r.Next() == er[cr], name+": right complete")
		cr++
	}
	zz.Assert(!l.HasNext() && !r.HasNext(), name+": both exhausted")
	zz.Assert(*pulls <= n, name+": each source element pulled at most once")
}

// ---- the zero value behaves as an empty iterator in every method

func VH_c20_zero_value() {
	var z fp.Iterator[int]
	zz.Assert(!z.HasNext() && z.IsEmpty() && !z.NonEmpty(), "zero Iterator: empty")
	zz.Assert(len(z.ToSeq()) == 0 && z.Count() == 0, "zero Iterator: ToSeq/Count")
	zz.Assert(z.NextOption().IsEmpty(), "zero Iterator: NextOption")
	p := ufP("p")
	zz.Assert(z.Find(p).IsEmpty() && !z.Exists(p) && z.ForAll(p), "zero Iterator: Find/Exists/ForAll")
	calls := 0
	z.Foreach(func(int) { calls++ })
	z.All()(func(int) bool { calls++; return true })
	zz.Assert(calls == 0, "zero Iterator: Foreach/All call nothing")
	zz.Assert(!z.Take(2).HasNext() && !z.Drop(2).HasNext(), "zero Iterator: Take/Drop")
	zz.Assert(!z.TakeWhile(p).HasNext() && !z.DropWhile(p).HasNext(), "zero Iterator: TakeWhile/DropWhile")
	zz.Assert(!z.Filter(p).HasNext() && !z.FilterNot(p).HasNext(), "zero Iterator: Filter/FilterNot")
	zz.Assert(!z.Map(ufF("f")).HasNext() && !z.TapEach(func(int) {}).HasNext(), "zero Iterator: Map/TapEach")
	zz.Assert(!z.FlatMap(func(x int) fp.Iterator[int] { return iterator.Of(x) }).HasNext(), "zero Iterator: FlatMap")
	e := zz.Int("e")
	a := z.Appended(e)
	zz.Assert(a.HasNext() && a.Next() == e && !a.HasNext(), "zero Iterator: Appended")
	c := z.Concat(iterator.Of(e))
	zz.Assert(c.HasNext() && c.Next() == e && !c.HasNext(), "zero Iterator: Concat on the left")
	d := iterator.Of(e).Concat(z)
	zz.Assert(d.HasNext() && d.Next() == e && !d.HasNext(), "zero Iterator: Concat on the right")
	zz.Assert(nextPanics(z), "zero Iterator: Next panics")
	zz.Assert(z.MakeString(",") == "", "zero Iterator: MakeString")
}

func VH_c20_all_rangefunc() {
	n := zz.Bound("inlen", 2, 3)
	in := zz.SliceInt("in", n, 0, 0)
	stop := zz.IntIn("stop", 0, len(in)+1)
	var got []int
	src(in).All()(func(v int) bool {
		got = append(got, v)
		return len(got) < stop
	})
	want := in
	if stop >= 1 && stop < len(in) {
		want = in[:stop]
	}
	if stop == 0 && len(in) > 0 {
		want = in[:1]
	}
	zz.Assert(sliceEq(got, want), "All: yields in order and stops when the consumer says so")
}
