//verif:overlay internal/zzverif_h/c02/h.go
package c02

import (
	"errors"
	"runtime"

	"github.com/csgura/fp"
	"github.com/csgura/fp/as"
	"github.com/csgura/fp/either"
	"github.com/csgura/fp/future"
	zz "github.com/csgura/fp/internal/zzverif"
	"github.com/csgura/fp/option"
	"github.com/csgura/fp/try"
)

var eA, eB, eC = errors.New("A"), errors.New("B"), errors.New("C")

func mkTry(name string, e error) fp.Try[int] {
	if zz.Bool(name + ".ok") {
		return fp.Success(zz.Int(name + ".v"))
	}
	return fp.Failure[int](e)
}

func mkOpt(name string) fp.Option[int] {
	if zz.Bool(name + ".some") {
		return fp.Some(zz.Int(name + ".v"))
	}
	return fp.None[int]()
}

func tryEq(a, b fp.Try[int]) bool {
	if a.IsSuccess() != b.IsSuccess() {
		return false
	}
	if a.IsSuccess() {
		return a.Get() == b.Get()
	}
	return a.Failed().Get() == b.Failed().Get()
}

func optEq(a, b fp.Option[int]) bool {
	if a.IsDefined() != b.IsDefined() {
		return false
	}
	return a.IsEmpty() || a.Get() == b.Get()
}

func tryUF(name string, e error, args ...int) fp.Try[int] {
	if zz.UFBool(name+".ok", args...) {
		return fp.Success(zz.UFInt(name+".v", args...))
	}
	return fp.Failure[int](e)
}

// ---- FlatMap: the anchor of every derived combinator

func VH_c02_flatmap_try_option_either() {
	calls := 0
	t := mkTry("t", eA)
	r := try.FlatMap(t, func(v int) fp.Try[int] { calls++; return tryUF("k", eB, v) })
	if t.IsSuccess() {
		zz.Assert(calls == 1 && tryEq(r, tryUF("k", eB, t.Get())), "try.FlatMap: continuation runs once on success")
	} else {
		zz.Assert(calls == 0 && r.IsFailure() && r.Failed().Get() == eA, "try.FlatMap: failure keeps its own error, continuation not run")
	}
	calls = 0
	r2 := t.FlatMap(func(v int) fp.Try[int] { calls++; return tryUF("k", eB, v) })
	zz.Assert(tryEq(r, r2) && calls == zz.Ite(t.IsSuccess(), 1, 0), "Try.FlatMap method agrees")

	calls = 0
	o := mkOpt("o")
	ro := option.FlatMap(o, func(v int) fp.Option[int] { calls++; return fp.Some(zz.UFInt("ko", v)) })
	if o.IsDefined() {
		zz.Assert(calls == 1 && ro.IsDefined() && ro.Get() == zz.UFInt("ko", o.Get()), "option.FlatMap on Some")
	} else {
		zz.Assert(calls == 0 && ro.IsEmpty(), "option.FlatMap on None: continuation not run")
	}

	calls = 0
	var e fp.Either[int, int]
	l := zz.Int("l")
	if zz.Bool("e.right") {
		e = fp.Right[int](zz.Int("e.v"))
	} else {
		e = fp.Left[int, int](l)
	}
	re := either.FlatMap(e, func(v int) fp.Either[int, int] { calls++; return fp.Right[int](zz.UFInt("ke", v)) })
	if e.IsRight() {
		zz.Assert(calls == 1 && re.IsRight() && re.Get() == zz.UFInt("ke", e.Get()), "either.FlatMap on Right")
	} else {
		zz.Assert(calls == 0 && re.IsLeft() && re.Left() == l, "either.FlatMap on Left keeps the Left value, continuation not run")
	}
}

// ---- successes pass through Recover*/OrElse*/Or* untouched; handlers run only on failure

func VH_c02_try_recover_family() {
	t := mkTry("t", eA)
	calls := 0
	var got error
	h := func(e error) int { calls++; got = e; return zz.UFInt("h") }
	r := t.Recover(h)
	if t.IsSuccess() {
		zz.Assert(calls == 0 && tryEq(r, t), "Try.Recover: success untouched, handler not run")
	} else {
		zz.Assert(calls == 1 && got == eA && r.IsSuccess() && r.Get() == zz.UFInt("h"), "Try.Recover: handler gets the error once")
	}
	calls = 0
	rw := t.RecoverWith(func(e error) fp.Try[int] { calls++; got = e; return tryUF("hw", eB) })
	if t.IsSuccess() {
		zz.Assert(calls == 0 && tryEq(rw, t), "Try.RecoverWith: success untouched")
	} else {
		zz.Assert(calls == 1 && got == eA && tryEq(rw, tryUF("hw", eB)), "Try.RecoverWith on failure")
	}
	pc, hc := 0, 0
	p := func(e error) bool { pc++; return zz.UFBool("p") }
	rc := t.RecoverCase(p, func(e error) int { hc++; got = e; return zz.UFInt("hc") })
	if t.IsSuccess() {
		zz.Assert(pc == 0 && hc == 0 && tryEq(rc, t), "Try.RecoverCase: success untouched")
	} else if zz.UFBool("p") {
		zz.Assert(hc == 1 && got == eA && rc.IsSuccess() && rc.Get() == zz.UFInt("hc"), "Try.RecoverCase: defined")
	} else {
		zz.Assert(hc == 0 && tryEq(rc, t), "Try.RecoverCase: not defined keeps the failure")
	}
	hc = 0
	rcw := t.RecoverCaseWith(p, func(e error) fp.Try[int] { hc++; got = e; return tryUF("hcw", eC) })
	if t.IsSuccess() {
		zz.Assert(hc == 0 && tryEq(rcw, t), "Try.RecoverCaseWith: success untouched")
	} else if zz.UFBool("p") {
		zz.Assert(hc == 1 && got == eA && tryEq(rcw, tryUF("hcw", eC)), "Try.RecoverCaseWith: defined")
	} else {
		zz.Assert(hc == 0 && tryEq(rcw, t), "Try.RecoverCaseWith: not defined keeps the failure")
	}
}

func VH_c02_try_orelse_family() {
	t := mkTry("t", eA)
	d := zz.Int("d")
	zz.Assert(t.OrElse(d) == zz.Ite(t.IsSuccess(), t.OrElse(0), d), "Try.OrElse")
	calls := 0
	v := t.OrElseGet(func() int { calls++; return d })
	if t.IsSuccess() {
		zz.Assert(calls == 0 && v == t.Get(), "Try.OrElseGet: success untouched, supplier not run")
	} else {
		zz.Assert(calls == 1 && v == d, "Try.OrElseGet on failure")
	}
	calls = 0
	u := mkTry("u", eB)
	o := t.Or(func() fp.Try[int] { calls++; return u })
	if t.IsSuccess() {
		zz.Assert(calls == 0 && tryEq(o, t), "Try.Or: success untouched")
	} else {
		zz.Assert(calls == 1 && tryEq(o, u), "Try.Or on failure")
	}
	zz.Assert(tryEq(t.OrTry(u), o), "Try.OrTry")
	calls = 0
	me := t.MapError(func(e error) error { calls++; return eC })
	if t.IsSuccess() {
		zz.Assert(calls == 0 && tryEq(me, t), "Try.MapError: success untouched")
	} else {
		zz.Assert(calls == 1 && me.IsFailure() && me.Failed().Get() == eC, "Try.MapError on failure")
	}
	calls = 0
	t.Foreach(func(int) { calls++ })
	zz.Assert(calls == zz.Ite(t.IsSuccess(), 1, 0), "Try.Foreach")
	f := t.Failed()
	if t.IsSuccess() {
		zz.Assert(f.IsFailure(), "Try.Failed of a success is a failure")
	} else {
		zz.Assert(f.IsSuccess() && f.Get() == eA, "Try.Failed exposes the error unchanged")
	}
	zz.Assert(t.OrZero() == zz.Ite(t.IsSuccess(), t.OrElse(0), 0), "Try.OrZero")
}

func VH_c02_option_family() {
	o := mkOpt("o")
	d := zz.Int("d")
	zz.Assert(o.OrElse(d) == zz.Ite(o.IsDefined(), o.OrElse(0), d), "Option.OrElse")
	calls := 0
	v := o.OrElseGet(func() int { calls++; return d })
	zz.Assert(calls == zz.Ite(o.IsDefined(), 0, 1) && v == o.OrElse(d), "Option.OrElseGet runs the supplier only on None")
	calls = 0
	u := mkOpt("u")
	r := o.Or(func() fp.Option[int] { calls++; return u })
	if o.IsDefined() {
		zz.Assert(calls == 0 && optEq(r, o), "Option.Or: Some untouched")
	} else {
		zz.Assert(calls == 1 && optEq(r, u), "Option.Or on None")
	}
	zz.Assert(optEq(o.OrOption(u), r), "Option.OrOption")
	calls = 0
	rc := o.Recover(func() int { calls++; return d })
	zz.Assert(calls == zz.Ite(o.IsDefined(), 0, 1) && rc.IsDefined() && rc.Get() == o.OrElse(d), "Option.Recover")
	calls = 0
	o.Foreach(func(int) { calls++ })
	zz.Assert(calls == zz.Ite(o.IsDefined(), 1, 0), "Option.Foreach")
	pc := 0
	fl := o.Filter(func(x int) bool { pc++; return zz.UFBool("p", x) })
	if o.IsDefined() {
		zz.Assert(pc == 1 && fl.IsDefined() == zz.UFBool("p", o.Get()), "Option.Filter")
	} else {
		zz.Assert(pc == 0 && fl.IsEmpty(), "Option.Filter on None")
	}
	var np *int
	zz.Assert(optEq(o.OrPtr(np), o), "Option.OrPtr(nil)")
	zz.Assert(optEq(o.OrPtr(&d), fp.Some(o.OrElse(d))), "Option.OrPtr(&d)")
}

func VH_c02_either_family() {
	l := zz.Int("l")
	var e fp.Either[int, int]
	if zz.Bool("e.right") {
		e = fp.Right[int](zz.Int("e.v"))
	} else {
		e = fp.Left[int, int](l)
	}
	d := zz.Int("d")
	zz.Assert(either.OrElse(e, d) == zz.Ite(e.IsRight(), either.OrElse(e, 0), d), "either.OrElse")
	calls := 0
	v := either.OrElseGet(e, func() int { calls++; return d })
	zz.Assert(calls == zz.Ite(e.IsRight(), 0, 1) && v == either.OrElse(e, d), "either.OrElseGet")
	lc, rc := 0, 0
	f := either.Fold(e, func(x int) int { lc++; return zz.UFInt("fl", x) }, func(x int) int { rc++; return zz.UFInt("fr", x) })
	if e.IsRight() {
		zz.Assert(lc == 0 && rc == 1 && f == zz.UFInt("fr", e.Get()), "either.Fold on Right")
	} else {
		zz.Assert(lc == 1 && rc == 0 && f == zz.UFInt("fl", l), "either.Fold on Left")
	}
	calls = 0
	r := e.Recover(func() int { calls++; return d })
	zz.Assert(calls == zz.Ite(e.IsRight(), 0, 1) && r.IsRight() && r.Get() == either.OrElse(e, d), "Either.Recover")
	sw := either.Swap(e)
	zz.Assert(sw.IsLeft() == e.IsRight(), "either.Swap")
}

// ---- FoldM stops at the first failed step without pulling further elements

func VH_c02_foldm_stops_pulling() {
	n := zz.Bound("foldlen", 3, 4)
	in := zz.SliceInt("in", n, 0, 0)
	pulls := 0
	i := 0
	src := fp.MakeIterator(func() bool { return i < len(in) }, func() int { pulls++; v := in[i]; i++; return v })
	calls := 0
	z := zz.Int("z")
	r := try.FoldM(src, z, func(b, a int) fp.Try[int] { calls++; return tryUF("f", eA, b, a) })
	want := fp.Success(z)
	steps := 0
	for _, x := range in {
		steps++
		want = tryUF("f", eA, want.Get(), x)
		if want.IsFailure() {
			break
		}
	}
	zz.Assert(tryEq(r, want), "try.FoldM result")
	zz.Assert(calls == steps && pulls == steps, "try.FoldM: returns at the first failed step without pulling further elements")

	pulls, calls, i = 0, 0, 0
	ro := option.FoldM(src, z, func(b, a int) fp.Option[int] {
		calls++
		if zz.UFBool("g.some", b, a) {
			return fp.Some(zz.UFInt("g.v", b, a))
		}
		return fp.None[int]()
	})
	acc, osteps, failed := z, 0, false
	for _, x := range in {
		osteps++
		if !zz.UFBool("g.some", acc, x) {
			failed = true
			break
		}
		acc = zz.UFInt("g.v", acc, x)
	}
	zz.Assert(ro.IsDefined() == !failed && (failed || ro.Get() == acc), "option.FoldM result")
	zz.Assert(calls == osteps && pulls == osteps, "option.FoldM: stops pulling at the first None")
}

// ---- Applicative / Chain builders: suppliers are evaluated left to right and only while everything before
// succeeded

func VH_c02_try_applicative_suppliers() {
	var log []int
	t1 := mkTry("t1", eA)
	t2 := mkTry("t2", eB)
	o3 := mkOpt("o3")
	f := func(a, b, c int) int { log = append(log, 9); return zz.UFInt("f", a, b, c) }
	r := try.Applicative3(as.Func3(f)).
		ApTry(t1).
		ApTryFunc(func() fp.Try[int] { log = append(log, 2); return t2 }).
		ApOptionFunc(func() fp.Option[int] { log = append(log, 3); return o3 })
	var wlog []int
	var want fp.Try[int]
	switch {
	case t1.IsFailure():
		want = fp.Failure[int](eA)
	case t2.IsFailure():
		wlog = []int{2}
		want = fp.Failure[int](eB)
	case o3.IsEmpty():
		wlog = []int{2, 3}
		want = fp.Failure[int](fp.ErrOptionEmpty)
	default:
		wlog = []int{2, 3, 9}
		want = fp.Success(zz.UFInt("f", t1.Get(), t2.Get(), o3.Get()))
	}
	zz.Assert(tryEq(r, want), "try.Applicative3: failure of the first failing operand, unchanged")
	ok := len(log) == len(wlog)
	for i := range wlog {
		ok = ok && i < len(log) && log[i] == wlog[i]
	}
	zz.Assert(ok, "try.Applicative3: later suppliers are not evaluated after a failure, earlier ones exactly once, in order")
}

func VH_c02_try_chain_suppliers() {
	var log []int
	t1 := mkTry("t1", eA)
	f := func(a, b, c int) int { log = append(log, 9); return zz.UFInt("f", a, b, c) }
	r := try.Chain3(as.Func3(f)).
		ApTry(t1).
		FlatMap(func(prev int) fp.Try[int] { log = append(log, 2); return tryUF("k2", eB, prev) }).
		ApFunc(func() int { log = append(log, 3); return 5 })
	var wlog []int
	var want fp.Try[int]
	switch {
	case t1.IsFailure():
		want = fp.Failure[int](eA)
	case tryUF("k2", eB, t1.Get()).IsFailure():
		wlog = []int{2}
		want = fp.Failure[int](eB)
	default:
		wlog = []int{2, 3, 9}
		want = fp.Success(zz.UFInt("f", t1.Get(), tryUF("k2", eB, t1.Get()).Get(), 5))
	}
	zz.Assert(tryEq(r, want), "try.Chain3: result")
	ok := len(log) == len(wlog)
	for i := range wlog {
		ok = ok && i < len(log) && log[i] == wlog[i]
	}
	zz.Assert(ok, "try.Chain3: steps after a failure are not run; FlatMap receives the previous operand's value")
}

func VH_c02_option_applicative_suppliers() {
	var log []int
	o1 := mkOpt("o1")
	o2 := mkOpt("o2")
	f := func(a, b int) int { log = append(log, 9); return zz.UFInt("f", a, b) }
	r := option.Applicative2(as.Func2(f)).
		ApOption(o1).
		ApOptionFunc(func() fp.Option[int] { log = append(log, 2); return o2 })
	var wlog []int
	want := fp.None[int]()
	switch {
	case o1.IsEmpty():
	case o2.IsEmpty():
		wlog = []int{2}
	default:
		wlog = []int{2, 9}
		want = fp.Some(zz.UFInt("f", o1.Get(), o2.Get()))
	}
	zz.Assert(optEq(r, want), "option.Applicative2 result")
	ok := len(log) == len(wlog)
	for i := range wlog {
		ok = ok && i < len(log) && log[i] == wlog[i]
	}
	zz.Assert(ok, "option.Applicative2: supplier evaluated only if everything before succeeded")
}

// ---- panics are captured, never lost; a normal return never becomes a failure

func panicValue(r fp.Try[int]) (any, bool) {
	if !r.IsFailure() {
		return nil, false
	}
	p, ok := r.Failed().Get().(try.Panic)
	if !ok {
		return nil, false
	}
	return p.Panic(), true
}

func VH_c02_try_of_call_callunit() {
	x := zz.Int("x")
	pv := zz.Int("panicvalue")
	doPanic := zz.Bool("panics")
	useErr := zz.Bool("panic.with.error")
	// 0: panic(value/error), 1..4: genuine runtime errors
	rtKind := 0
	if doPanic && !useErr {
		rtKind = zz.Choice("runtime.error.kind", 5)
	}
	var nilMap2 map[int]int
	var nilPtr2 *int
	var anyV2 any = "s"
	short2 := []int{1}
	body := func() int {
		if doPanic {
			if useErr {
				panic(eC)
			}
			switch rtKind {
			case 1:
				nilMap2[1] = 1
			case 2:
				return short2[x&1+1]
			case 3:
				return *nilPtr2
			case 4:
				return anyV2.(int)
			}
			panic(pv)
		}
		return x
	}
	check := func(r fp.Try[int], l string) {
		if !doPanic {
			zz.Assert(r.IsSuccess() && r.Get() == x, l+": a normal return is a Success")
			return
		}
		v, ok := panicValue(r)
		zz.Assert(ok, l+": a panic - runtime errors included - becomes a Failure exposing Panic()")
		if ok {
			switch {
			case useErr:
				zz.Assert(v == any(eC), l+": panic value (error) preserved")
			case rtKind == 0:
				zz.Assert(v == any(pv), l+": panic value preserved")
			default:
				_, re := v.(runtime.Error)
				zz.Assert(re, l+": the runtime error is exposed")
			}
		}
	}
	check(try.Of(body), "try.Of")
	retErr := zz.Bool("returns.error")
	r2 := try.Call(func() (int, error) {
		v := body()
		if retErr {
			return 0, eA
		}
		return v, nil
	})
	if !doPanic && retErr {
		zz.Assert(r2.IsFailure() && r2.Failed().Get() == eA, "try.Call: returned error unchanged")
	} else {
		check(r2, "try.Call")
	}
	r3 := try.CallUnit(func() error {
		body()
		if retErr {
			return eB
		}
		return nil
	})
	if doPanic {
		p, ok := r3.Failed().Get().(try.Panic)
		zz.Assert(r3.IsFailure() && ok && (useErr || rtKind != 0 || p.Panic() == any(pv)), "try.CallUnit: panic captured")
	} else if retErr {
		zz.Assert(r3.IsFailure() && r3.Failed().Get() == eB, "try.CallUnit: returned error unchanged")
	} else {
		zz.Assert(r3.IsSuccess(), "try.CallUnit: normal return is a Success")
	}
}

type inline struct{}

func (inline) ExecuteUnsafe(r fp.Runnable) { r.Run() }

type panicker interface{ Panic() any }

func VH_c02_future_apply_panics() {
	x := zz.Int("x")
	pv := zz.Int("panicvalue")
	doPanic := zz.Bool("panics")
	var ex []fp.Executor
	if zz.Bool("inline") {
		ex = []fp.Executor{inline{}}
	}
	// what is thrown: an arbitrary value, an error, or a genuine runtime error (nil map write, index out of
	// range, nil dereference, failed type assertion)
	kind := 0
	if doPanic {
		kind = zz.Choice("panic.kind", 6)
	}
	var nilMap map[int]int
	var nilPtr *int
	var anyV any = "s"
	short := []int{1}
	body := func() int {
		if doPanic {
			switch kind {
			case 0:
				panic(pv)
			case 1:
				panic(eB)
			case 2:
				nilMap[1] = 1
			case 3:
				return short[x&1+1]
			case 4:
				return *nilPtr
			case 5:
				return anyV.(int)
			}
		}
		return x
	}
	retErr := zz.Bool("returns.error")
	f1 := future.Apply(body, ex...)
	f2 := future.Apply2(func() (int, error) {
		v := body()
		if retErr {
			return 0, eA
		}
		return v, nil
	}, ex...)
	zz.Quiesce()
	zz.Assert(f1.IsCompleted() && f2.IsCompleted(), "future.Apply/Apply2 always complete")
	r1, r2 := f1.Value(), f2.Value()
	if doPanic {
		p1, ok1 := r1.Failed().Get().(panicker)
		p2, ok2 := r2.Failed().Get().(panicker)
		zz.Assert(r1.IsFailure() && ok1 && r2.IsFailure() && ok2, "future.Apply/Apply2: any panic, runtime errors included, becomes a Failure")
		switch kind {
		case 0:
			zz.Assert(p1.Panic() == any(pv) && p2.Panic() == any(pv), "future.Apply/Apply2: the Failure exposes the panic value")
		case 1:
			zz.Assert(p1.Panic() == any(eB) && p2.Panic() == any(eB), "future.Apply/Apply2: the Failure exposes a panicked error")
		default:
			_, re1 := p1.Panic().(runtime.Error)
			_, re2 := p2.Panic().(runtime.Error)
			zz.Assert(re1 && re2, "future.Apply/Apply2: the Failure exposes the runtime error")
		}
	} else {
		zz.Assert(r1.IsSuccess() && r1.Get() == x, "future.Apply: normal return is a Success")
		if retErr {
			zz.Assert(r2.IsFailure() && r2.Failed().Get() == eA, "future.Apply2: returned error unchanged")
		} else {
			zz.Assert(r2.IsSuccess() && r2.Get() == x, "future.Apply2: normal return is a Success")
		}
	}
}

// The panic value can itself be a captured panic: Get() on a Failure made from an earlier panic re-panics with that
// error. The new Failure exposes the value this function panicked with (that error), not the cause of the earlier
// panic.
func VH_c02_future_apply_rethrown_captured_panic() {
	pv := zz.Int("panicvalue")
	var first fp.Try[int]
	if zz.Bool("first.from.try.Of") {
		first = try.Of(func() int { panic(pv) })
	} else {
		f0 := future.Apply(func() int { panic(pv) }, inline{})
		zz.Quiesce()
		first = f0.Value()
	}
	zz.Assert(first.IsFailure(), "the first panic is captured")
	e1 := first.Failed().Get()
	var f fp.Future[int]
	if zz.Bool("apply2") {
		f = future.Apply2(func() (int, error) { return first.Get(), nil }, inline{})
	} else {
		f = future.Apply(func() int { return first.Get() }, inline{})
	}
	zz.Quiesce()
	r := f.Value()
	p, ok := r.Failed().Get().(panicker)
	zz.Assert(r.IsFailure() && ok, "a re-thrown captured panic becomes a Failure")
	if ok {
		zz.Assert(p.Panic() == any(e1), "future.Apply/Apply2: the Failure exposes the value the function panicked with (the captured error), not an earlier panic's cause")
	}
}
