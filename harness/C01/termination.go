//verif:overlay internal/zzverif_h/c01b/term.go
package c01b

import (
	"errors"

	"github.com/csgura/fp"
	"github.com/csgura/fp/either"
	zz "github.com/csgura/fp/internal/zzverif"
	"github.com/csgura/fp/option"
	"github.com/csgura/fp/try"
)

// C01 "terminates": FoldM / Traverse / SequenceIterator over an iterator return at the first failed step. The
// source counts its pulls and goes on for ever after the prefix under test, so a fold that keeps pulling behind
// the failure exceeds the pull budget (and, unbounded, the unwinding bound).

var errStep = errors.New("step failed")

func okAt(i int) bool { return zz.UFBool("ok", i) }
func valAt(i int) int { return zz.UFInt("val", i) }

// endless source of 1, 2, 3, ...; *pulls counts Next calls
func endless(pulls *int) fp.Iterator[int] {
	return fp.MakeIterator(func() bool { return true }, func() int { *pulls++; return *pulls })
}

// first failing position among 1..3 (assumed to exist)
func firstFail() int {
	k := 0
	for i := 1; i <= 3; i++ {
		if !okAt(i) {
			k = i
			break
		}
	}
	zz.Assume(k > 0)
	return k
}

func VH_c01_try_fold_traverse_return_at_first_failure() {
	k := firstFail()
	pulls, calls := 0, 0
	step := func(i int) fp.Try[int] {
		calls++
		if okAt(i) {
			return fp.Success(valAt(i))
		}
		return fp.Failure[int](errStep)
	}
	switch zz.Choice("which", 4) {
	case 0:
		r := try.FoldM(endless(&pulls), 0, func(acc, i int) fp.Try[int] { return try.Map(step(i), func(v int) int { return zz.UFInt("acc", acc, v) }) })
		zz.Assert(r.IsFailure() && r.Failed().Get() == errStep, "try.FoldM over an unbounded source: the first failure")
	case 1:
		r := try.Traverse(endless(&pulls), step)
		zz.Assert(r.IsFailure() && r.Failed().Get() == errStep, "try.Traverse over an unbounded source: the first failure")
	case 2:
		r := try.TraverseFunc(step)(endless(&pulls))
		zz.Assert(r.IsFailure() && r.Failed().Get() == errStep, "try.TraverseFunc over an unbounded source: the first failure")
	case 3:
		src := endless(&pulls)
		tries := fp.MakeIterator(src.HasNext, func() fp.Try[int] { return step(src.Next()) })
		r := try.SequenceIterator(tries)
		zz.Assert(r.IsFailure() && r.Failed().Get() == errStep, "try.SequenceIterator over an unbounded source: the first failure")
	}
	zz.Assert(pulls == k && calls == k, "try: nothing is pulled or evaluated behind the first failed step")
}

func VH_c01_option_fold_traverse_return_at_first_none() {
	k := firstFail()
	pulls, calls := 0, 0
	step := func(i int) fp.Option[int] {
		calls++
		if okAt(i) {
			return fp.Some(valAt(i))
		}
		return fp.None[int]()
	}
	switch zz.Choice("which", 3) {
	case 0:
		r := option.FoldM(endless(&pulls), 0, func(acc, i int) fp.Option[int] {
			return option.Map(step(i), func(v int) int { return zz.UFInt("acc", acc, v) })
		})
		zz.Assert(r.IsEmpty(), "option.FoldM over an unbounded source: None")
	case 1:
		r := option.Traverse(endless(&pulls), step)
		zz.Assert(r.IsEmpty(), "option.Traverse over an unbounded source: None")
	case 2:
		src := endless(&pulls)
		opts := fp.MakeIterator(src.HasNext, func() fp.Option[int] { return step(src.Next()) })
		r := option.SequenceIterator(opts)
		zz.Assert(r.IsEmpty(), "option.SequenceIterator over an unbounded source: None")
	}
	zz.Assert(pulls == k && calls == k, "option: nothing is pulled or evaluated behind the first None")
}

func VH_c01_either_fold_traverse_return_at_first_left() {
	k := firstFail()
	pulls, calls := 0, 0
	step := func(i int) fp.Either[string, int] {
		calls++
		if okAt(i) {
			return either.Right[string](valAt(i))
		}
		return either.Left[string, int]("left")
	}
	switch zz.Choice("which", 3) {
	case 0:
		r := either.FoldM(endless(&pulls), 0, func(acc, i int) fp.Either[string, int] {
			return either.Map(step(i), func(v int) int { return zz.UFInt("acc", acc, v) })
		})
		zz.Assert(r.IsLeft() && r.Left() == "left", "either.FoldM over an unbounded source: the first Left")
	case 1:
		r := either.Traverse(endless(&pulls), step)
		zz.Assert(r.IsLeft() && r.Left() == "left", "either.Traverse over an unbounded source: the first Left")
	case 2:
		src := endless(&pulls)
		es := fp.MakeIterator(src.HasNext, func() fp.Either[string, int] { return step(src.Next()) })
		r := either.SequenceIterator(es)
		zz.Assert(r.IsLeft() && r.Left() == "left", "either.SequenceIterator over an unbounded source: the first Left")
	}
	zz.Assert(pulls == k && calls == k, "either: nothing is pulled or evaluated behind the first Left")
}
