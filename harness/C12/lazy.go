//verif:overlay internal/zzverif_h/iters/c12d.go
package iters

import (
	"github.com/csgura/fp"
	zz "github.com/csgura/fp/internal/zzverif"
	"github.com/csgura/fp/iterator"
	"github.com/csgura/fp/list"
)

// ---- laziness of iterator combinators: unbounded source that logs pulls

func sv(i int) int { return zz.UFInt("src", i) }

func unbounded(pulls *int) fp.Iterator[int] {
	return fp.MakeIterator(func() bool { return true }, func() int {
		*pulls++
		return sv(*pulls)
	})
}

const horizon = 6

type lz struct {
	name string
	mk   func(s fp.Iterator[int]) fp.Iterator[int]
	// need(j): how many leading source elements determine the first j outputs (and whether a j-th exists);
	// returns -1 when that is not settled within the horizon (the harness then assumes the case away)
	need func(j int) int
	// stages: constant slack (one cached element per stage)
	stages int
	// ahead: outputs of look-ahead the pipeline is allowed (Filter searches for its next match as soon as it
	// hands one out; a consumer stage that caches one element therefore makes it look one output ahead)
	ahead int
}

func countUntil(j int, produces func(i int) int, stop func(i int) bool) int {
	got := 0
	for i := 1; i <= horizon; i++ {
		if stop != nil && stop(i) {
			return i
		}
		got += produces(i)
		if got >= j {
			return i
		}
	}
	return -1
}

func lazies() []lz {
	p := ufP("p")
	one := func(int) int { return 1 }
	return []lz{
		{"Map", func(s fp.Iterator[int]) fp.Iterator[int] { return s.Map(ufF("f")) }, func(j int) int { return j }, 1, 0},
		{"iterator.Map", func(s fp.Iterator[int]) fp.Iterator[int] { return iterator.Map(s, ufF("f")) }, func(j int) int { return j }, 1, 0},
		{"TapEach", func(s fp.Iterator[int]) fp.Iterator[int] { return s.TapEach(func(int) {}) }, func(j int) int { return j }, 1, 0},
		{"Filter", func(s fp.Iterator[int]) fp.Iterator[int] { return s.Filter(p) }, func(j int) int {
			return countUntil(j, func(i int) int {
				if p(sv(i)) {
					return 1
				}
				return 0
			}, nil)
		}, 1, 0},
		{"FilterNot", func(s fp.Iterator[int]) fp.Iterator[int] { return s.FilterNot(p) }, func(j int) int {
			return countUntil(j, func(i int) int {
				if !p(sv(i)) {
					return 1
				}
				return 0
			}, nil)
		}, 1, 0},
		{"FilterMap", func(s fp.Iterator[int]) fp.Iterator[int] {
			return iterator.FilterMap(s, func(x int) fp.Option[int] {
				if p(x) {
					return fp.Some(x)
				}
				return fp.None[int]()
			})
		}, func(j int) int {
			return countUntil(j, func(i int) int {
				if p(sv(i)) {
					return 1
				}
				return 0
			}, nil)
		}, 2, 0},
		{"TakeWhile", func(s fp.Iterator[int]) fp.Iterator[int] { return s.TakeWhile(p) }, func(j int) int {
			return countUntil(j, one, func(i int) bool { return !p(sv(i)) })
		}, 1, 0},
		{"DropWhile", func(s fp.Iterator[int]) fp.Iterator[int] { return s.DropWhile(p) }, func(j int) int {
			d := 0
			for d < horizon && p(sv(d+1)) {
				d++
			}
			if d+j > horizon {
				return -1
			}
			return d + j
		}, 1, 0},
		{"Take", func(s fp.Iterator[int]) fp.Iterator[int] { return s.Take(zz.IntIn("n", 0, 3)) }, func(j int) int { return j }, 1, 0},
		{"Drop", func(s fp.Iterator[int]) fp.Iterator[int] { return s.Drop(2) }, func(j int) int { return 2 + j }, 1, 0},
		{"FlatMap", func(s fp.Iterator[int]) fp.Iterator[int] {
			return s.FlatMap(func(x int) fp.Iterator[int] { return iterator.FromSeq(ufSlice("k", x)) })
		}, func(j int) int {
			return countUntil(j, func(i int) int { return len(ufSlice("k", sv(i))) }, nil)
		}, 1, 0},
		{"iterator.FlatMap", func(s fp.Iterator[int]) fp.Iterator[int] {
			return iterator.FlatMap(s, func(x int) fp.Iterator[int] { return iterator.FromSeq(ufSlice("k", x)) })
		}, func(j int) int {
			return countUntil(j, func(i int) int { return len(ufSlice("k", sv(i))) }, nil)
		}, 1, 0},
		{"ConcatLeft", func(s fp.Iterator[int]) fp.Iterator[int] { return s.Concat(iterator.Of(1, 2)) }, func(j int) int { return j }, 1, 0},
		{"ConcatRight", func(s fp.Iterator[int]) fp.Iterator[int] { return iterator.Of(zz.Int("h")).Concat(s) }, func(j int) int { return j - 1 }, 1, 0},
		{"Appended", func(s fp.Iterator[int]) fp.Iterator[int] { return s.Appended(7) }, func(j int) int { return j }, 1, 0},
		{"ZipWithIndex", func(s fp.Iterator[int]) fp.Iterator[int] { return tup2(iterator.ZipWithIndex(s)) }, func(j int) int { return (j + 1) / 2 }, 1, 0},
		{"Zip", func(s fp.Iterator[int]) fp.Iterator[int] {
			return tup2(iterator.Zip(s, iterator.Range(0, 1000000)))
		}, func(j int) int { return (j + 1) / 2 }, 1, 0},
		{"Scan", func(s fp.Iterator[int]) fp.Iterator[int] { return iterator.Scan(s, 0, ufF2("f")) }, func(j int) int {
			if j == 0 {
				return 0
			}
			return j - 1
		}, 1, 0},
		// Take must not ask its source again once n elements are out: the source's HasNext may have to search
		{"FlatMap.Take", func(s fp.Iterator[int]) fp.Iterator[int] {
			return s.FlatMap(func(x int) fp.Iterator[int] { return iterator.FromSeq(ufSlice("k", x)) }).Take(takeN)
		}, func(j int) int {
			if j > takeN {
				j = takeN
			}
			if j == 0 {
				return 0
			}
			return countUntil(j, func(i int) int { return len(ufSlice("k", sv(i))) }, nil)
		}, 1, 0},
		{"DropWhile.Take", func(s fp.Iterator[int]) fp.Iterator[int] { return s.DropWhile(p).Take(takeN) }, func(j int) int {
			if j > takeN {
				j = takeN
			}
			if j == 0 {
				return 0
			}
			d := 0
			for d < horizon && p(sv(d+1)) {
				d++
			}
			if d+j > horizon {
				return -1
			}
			return d + j
		}, 1, 0},
		{"FilterMap.Take", func(s fp.Iterator[int]) fp.Iterator[int] {
			return iterator.FilterMap(s, func(x int) fp.Option[int] {
				if p(x) {
					return fp.Some(x)
				}
				return fp.None[int]()
			}).Take(takeN)
		}, func(j int) int {
			if j > takeN {
				j = takeN
			}
			if j == 0 {
				return 0
			}
			return countUntil(j, func(i int) int {
				if p(sv(i)) {
					return 1
				}
				return 0
			}, nil)
		}, 2, 0},
		{"Pipeline.Filter.Map.TakeWhile", func(s fp.Iterator[int]) fp.Iterator[int] {
			return s.Filter(p).Map(ufF("f")).TakeWhile(ufP("q"))
		}, func(j int) int {
			q := ufP("q")
			got, i := 0, 1
			for ; i <= horizon; i++ {
				if !p(sv(i)) {
					continue
				}
				if !q(ufF("f")(sv(i))) {
					break
				}
				got++
				if got >= j {
					break
				}
			}
			if i > horizon {
				return -1
			}
			// Filter searches for its next match as soon as it has handed one out
			for n := i + 1; n <= horizon; n++ {
				if p(sv(n)) {
					return n
				}
			}
			return -1
		}, 3, 0},
	}
}

var takeN int

func lzfind(name string) lz {
	takeN = zz.IntIn("takeN", 0, 2)
	for _, l := range lazies() {
		if l.name == name {
			return l
		}
	}
	panic("unknown lazy case " + name)
}

// the consumer asks for k outputs (HasNext+Next each) and then once more whether there is another one
func lazyCheck(c lz) {
	k := zz.Choice("demand", 3)
	need := c.need(k + 1 + c.ahead)
	zz.Assume(need >= 0)
	pulls := 0
	it := c.mk(unbounded(&pulls))
	for i := 0; i < k; i++ {
		if !it.HasNext() {
			break
		}
		it.Next()
	}
	it.HasNext()
	zz.Assert(pulls <= need+c.stages, c.name+": pulls from the source only what the demand needs plus a constant look-ahead")
}

func VH_c12_lazy_Map()             { lazyCheck(lzfind("Map")) }
func VH_c12_lazy_iteratorMap()     { lazyCheck(lzfind("iterator.Map")) }
func VH_c12_lazy_TapEach()         { lazyCheck(lzfind("TapEach")) }
func VH_c12_lazy_Filter()          { lazyCheck(lzfind("Filter")) }
func VH_c12_lazy_FilterNot()       { lazyCheck(lzfind("FilterNot")) }
func VH_c12_lazy_FilterMap()       { lazyCheck(lzfind("FilterMap")) }
func VH_c12_lazy_TakeWhile()       { lazyCheck(lzfind("TakeWhile")) }
func VH_c12_lazy_DropWhile()       { lazyCheck(lzfind("DropWhile")) }
func VH_c12_lazy_Take()            { lazyCheck(lzfind("Take")) }
func VH_c12_lazy_Drop()            { lazyCheck(lzfind("Drop")) }
func VH_c12_lazy_FlatMap()         { lazyCheck(lzfind("FlatMap")) }
func VH_c12_lazy_iteratorFlatMap() { lazyCheck(lzfind("iterator.FlatMap")) }
func VH_c12_lazy_ConcatLeft()      { lazyCheck(lzfind("ConcatLeft")) }
func VH_c12_lazy_ConcatRight()     { lazyCheck(lzfind("ConcatRight")) }
func VH_c12_lazy_Appended()        { lazyCheck(lzfind("Appended")) }
func VH_c12_lazy_ZipWithIndex()    { lazyCheck(lzfind("ZipWithIndex")) }
func VH_c12_lazy_Zip()             { lazyCheck(lzfind("Zip")) }
func VH_c12_lazy_Scan()            { lazyCheck(lzfind("Scan")) }
func VH_c12_lazy_Pipeline()        { lazyCheck(lzfind("Pipeline.Filter.Map.TakeWhile")) }
func VH_c12_lazy_FlatMapTake()     { lazyCheck(lzfind("FlatMap.Take")) }
func VH_c12_lazy_DropWhileTake()   { lazyCheck(lzfind("DropWhile.Take")) }
func VH_c12_lazy_FilterMapTake()   { lazyCheck(lzfind("FilterMap.Take")) }

func VH_c12_lazy_duplicate_span_partition() {
	k := zz.Choice("demand", 3)
	p := ufP("p")
	pulls := 0
	var l fp.Iterator[int]
	need := k + 1
	switch zz.Choice("which", 3) {
	case 0:
		l, _ = iterator.Duplicate(unbounded(&pulls))
	case 1:
		l, _ = iterator.Span(unbounded(&pulls), p)
		need = countUntil(k+1, func(int) int { return 1 }, func(i int) bool { return !p(sv(i)) })
	case 2:
		l, _ = iterator.Partition(unbounded(&pulls), p)
		need = countUntil(k+1, func(i int) int {
			if p(sv(i)) {
				return 1
			}
			return 0
		}, nil)
	}
	zz.Assume(need >= 0)
	for i := 0; i < k; i++ {
		if !l.HasNext() {
			break
		}
		l.Next()
	}
	l.HasNext()
	zz.Assert(pulls <= need+2, "Duplicate/Span/Partition: one side pulls only what its demand needs")
}

// ---- lazy lists over an unbounded generator: demand-driven and memoised

func VH_c12_lazy_list() {
	var calls [12]int
	gen := list.Generate(func(i int) fp.Option[int] {
		if i < len(calls) {
			calls[i]++
		}
		return fp.Some(zz.UFInt("src", i))
	})
	p := ufP("p")
	var l fp.List[int]
	stages := 1
	switch zz.Choice("which", 6) {
	case 0:
		l = list.Map(gen, ufF("f"))
	case 1:
		l = ltup(list.ZipWithIndex(gen))
		stages = 2
	case 2:
		l = list.Scan(gen, 0, ufF2("g"))
	case 3:
		l = list.Combine(list.Of(1), gen)
	case 4:
		l = list.FlatMap(gen, func(x int) fp.List[int] { return list.Of(x, x) })
	case 5:
		l = list.FilterMap(gen, func(x int) fp.Option[int] {
			if p(x) {
				return fp.Some(x)
			}
			return fp.None[int]()
		})
		// assume matches are dense enough for the demand below
		zz.Assume(p(zz.UFInt("src", 1)) && p(zz.UFInt("src", 3)) && p(zz.UFInt("src", 5)))
		stages = 2
	}
	k := zz.Choice("demand", 3)
	walk(l, k)
	walk(l, k) // a second traversal must not re-run any cell
	total := 0
	for i := range calls {
		zz.Assert(calls[i] <= 1, "memoised list: every generator cell evaluated at most once")
		total += calls[i]
	}
	zz.Assert(total <= 2*(k+1)+stages+1, "lazy list: evaluates only a bounded prefix of an unbounded generator")
}
