#!/bin/bash
# usage: refcheck.sh <patch.diff> <check ids...>
# Applies a behaviour-preserving change to /repo, runs the given quick checks, restores /repo.
# Expected: every check exits 0 (OK), possibly with a NOTE about skipped white-box harnesses.
set -u
patch="$1"; shift
cd /repo || exit 9
if [ -n "$(git status --porcelain)" ]; then echo "REPO NOT CLEAN"; exit 9; fi
git apply "$patch" || { echo "PATCH DOES NOT APPLY"; exit 9; }
trap 'git -C /repo checkout -- . ; git -C /repo clean -fdq' EXIT
cd /verif
for id in "$@"; do
  out=$(timeout 1500 ./bin/verif check "$id" --noevidence 2>&1); rc=$?
  echo "$id exit=$rc $(echo "$out" | grep -E "^NOTE|VIOLATION|UNCONFIRMED|INCONCLUSIVE" | head -4 | tr '\n' ' ' | cut -c1-300)"
done
