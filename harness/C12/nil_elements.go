//verif:overlay internal/zzverif_h/iters/c12nil.go
package iters

import (
	"github.com/csgura/fp"
	zz "github.com/csgura/fp/internal/zzverif"
	"github.com/csgura/fp/iterator"
	"github.com/csgura/fp/lazy"
	"github.com/csgura/fp/list"
	"github.com/csgura/fp/ord"
	"github.com/csgura/fp/seq"
)

// Elements may be nil pointers: they are ordinary elements. Accessors that return an Option are defined exactly
// when an element exists (Some(nil) for a nil element), and the element-wise combinators keep nil elements in place.
func VH_c12_nil_elements() {
	cell := 5
	n := 1 + zz.Choice("n", 2)
	in := make([]*int, n)
	for i := range in {
		if !zz.Bool("nil" + string(rune('0'+i))) {
			in[i] = &cell
		}
	}
	isrc := func() fp.Iterator[*int] { return iterator.FromSeq(append([]*int{}, in...)) }
	lsrcP := func() fp.List[*int] { return list.FromSeq(append([]*int{}, in...)) }
	s := fp.Seq[*int](in)
	some := func(o fp.Option[*int], want *int) bool { return o.IsDefined() && o.Get() == want }
	all := func(*int) bool { return true }
	zz.Assert(some(s.Head(), in[0]) && some(seq.Head(in), in[0]) && some(list.Head(lsrcP()), in[0]), "Head of a sequence starting with a nil element is Some(nil)")
	zz.Assert(some(s.Last(), in[n-1]) && some(seq.Last(in), in[n-1]), "Last")
	zz.Assert(some(s.Get(0), in[0]) && s.Get(n).IsEmpty(), "Seq.Get")
	zz.Assert(some(s.Find(all), in[0]) && some(isrc().Find(all), in[0]), "Find returns the first element, nil or not")
	zz.Assert(some(isrc().NextOption(), in[0]), "NextOption")
	byNil := ord.FromCompare(func(a, b *int) int {
		switch {
		case a == nil && b != nil:
			return -1
		case a != nil && b == nil:
			return 1
		}
		return 0
	})
	zz.Assert(seq.Min(s, byNil).IsDefined() && iterator.Min(isrc(), byNil).IsDefined() && list.Min(lsrcP(), byNil).IsDefined(), "Min of a non-empty collection is defined")
	zz.Assert(seq.Max(s, byNil).IsDefined() && iterator.Max(isrc(), byNil).IsDefined() && list.Max(lsrcP(), byNil).IsDefined(), "Max of a non-empty collection is defined")
	same := func(got []*int) bool {
		if len(got) != len(in) {
			return false
		}
		for i := range got {
			if got[i] != in[i] {
				return false
			}
		}
		return true
	}
	id := func(p *int) *int { return p }
	zz.Assert(same(isrc().ToSeq()) && same(iterator.Map(isrc(), id).ToSeq()) && same(isrc().Filter(all).ToSeq()), "iterator combinators keep nil elements")
	zz.Assert(same(lsrcP().ToSeq()) && same(list.Map(lsrcP(), id).ToSeq()) && same(list.Collect(isrc()).ToSeq()), "list combinators keep nil elements")
	zz.Assert(same(seq.Map(s, id)) && same(s.Filter(all)) && same(s.Reverse().Reverse()), "seq combinators keep nil elements")
	fo := iterator.FilterMap(isrc(), func(p *int) fp.Option[*int] { return fp.Some(p) }).ToSeq()
	zz.Assert(same(fo), "FilterMap keeps Some(nil)")
	fr := iterator.FoldRight(isrc(), 0, func(p *int, r lazy.Eval[int]) lazy.Eval[int] { return r.Map(func(v int) int { return v + 1 }) }).Get()
	zz.Assert(fr == n, "FoldRight visits nil elements")
}
