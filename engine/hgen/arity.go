package hgen

import (
	"fmt"
	"os"
	"path/filepath"
	"regexp"
	"sort"
	"strconv"
	"strings"
)

// C14: every member of the arity-indexed families is instantiated at every arity present in the source and
// compared with its defining equation. Arguments are independent symbolic ints, functions are UFs of N
// arguments, so a dropped, duplicated or swapped position makes the negated assertion satisfiable.

type arityRule struct {
	dir  string
	re   *regexp.Regexp
	body func(n int, name string, fi funcInfo) string // "" = skip
}

func av(n int) string {
	return seqN(n, func(i int) string { return fmt.Sprintf("\ta%d := zz.Int(\"a%d\")\n", i, i) }, "")
}
func ufN(name string, n int) string {
	return fmt.Sprintf("\t%s := func(%s int) int { return zz.UFInt(%q, %s) }\n", name, as(n), name, as(n))
}
func ints(n int) string { return seqN(n, func(int) string { return "int" }, ", ") }
func curApp(n int) string {
	return seqN(n, func(i int) string { return fmt.Sprintf("(a%d)", i) }, "")
}
func hlT(n int, pkg string) string {
	s := pkg + "Nil"
	for i := 0; i < n; i++ {
		s = pkg + "Cons[int, " + s + "]"
	}
	return s
}

// hlist literal built only from hlist.Concat/Empty (the hand-written constructors), order given by idx
func hlLit(idx []int, pkg string) string {
	s := pkg + "Empty()"
	for i := len(idx) - 1; i >= 0; i-- {
		s = fmt.Sprintf("%sConcat(a%d, %s)", pkg, idx[i], s)
	}
	return s
}

func upto(n int) []int {
	r := make([]int, n)
	for i := range r {
		r[i] = i + 1
	}
	return r
}

func down(n int) []int {
	r := make([]int, n)
	for i := range r {
		r[i] = n - i
	}
	return r
}

// walks an hlist value expression and asserts its elements
func hlCheck(expr string, idx []int, pkg, label string) string {
	var sb strings.Builder
	sb.WriteString("\th0 := " + expr + "\n")
	for i, k := range idx {
		sb.WriteString(fmt.Sprintf("\tzz.Assert(h%d.Head() == a%d, %q)\n", i, k, fmt.Sprintf("%s: element %d", label, i+1)))
		if i+1 < len(idx) {
			sb.WriteString(fmt.Sprintf("\th%d := %sTail(h%d)\n", i+1, pkg, i))
		}
	}
	return sb.String()
}

func tupleT(n int) string { return fmt.Sprintf("fp.Tuple%d[%s]", n, ints(n)) }

func tupleFields(expr string, n int, label string) string {
	var sb strings.Builder
	sb.WriteString("\tt := " + expr + "\n")
	for i := 1; i <= n; i++ {
		sb.WriteString(fmt.Sprintf("\tzz.Assert(t.I%d == a%d, %q)\n", i, i, fmt.Sprintf("%s: argument %d reaches position %d", label, i, i)))
	}
	return sb.String()
}

func labelledFields(expr string, n int, label string) string {
	var sb strings.Builder
	sb.WriteString("\tt := " + expr + "\n")
	for i := 1; i <= n; i++ {
		sb.WriteString(fmt.Sprintf("\tzz.Assert(int(t.I%d) == a%d, %q)\n", i, i, fmt.Sprintf("%s: argument %d reaches position %d", label, i, i)))
	}
	return sb.String()
}

var arityRules = []arityRule{
	// ---- as
	{"as", regexp.MustCompile(`^Tuple(\d+)$`), func(n int, name string, fi funcInfo) string {
		if fi.NParams != n {
			return ""
		}
		b := av(n) + tupleFields(fmt.Sprintf("as.%s(%s)", name, as(n)), n, "as."+name)
		if n >= 2 {
			b += fmt.Sprintf("\tzz.Assert(t.Head() == a1 && t.Last() == a%d, %q)\n", n, "Tuple.Head/Last")
			b += fmt.Sprintf("\t%s := t.Unapply()\n\tzz.Assert(%s, %q)\n", seqN(n, func(i int) string { return fmt.Sprintf("u%d", i) }, ", "),
				seqN(n, func(i int) string { return fmt.Sprintf("u%d == a%d", i, i) }, " && "), "Tuple.Unapply keeps order")
			b += fmt.Sprintf("\t%s := t.Tail()\n\tzz.Assert(%s, %q)\n", seqN(n-1, func(i int) string { return fmt.Sprintf("x%d", i) }, ", "),
				seqN(n-1, func(i int) string { return fmt.Sprintf("x%d == a%d", i, i+1) }, " && "), "Tuple.Tail drops the first")
			b += fmt.Sprintf("\t%s := t.Init()\n\tzz.Assert(%s, %q)\n", seqN(n-1, func(i int) string { return fmt.Sprintf("y%d", i) }, ", "),
				seqN(n-1, func(i int) string { return fmt.Sprintf("y%d == a%d", i, i) }, " && "), "Tuple.Init drops the last")
		}
		return b
	}},
	{"as", regexp.MustCompile(`^Func(\d+)$`), func(n int, name string, fi funcInfo) string {
		return av(n) + ufN("f", n) + fmt.Sprintf("\tzz.Assert(as.%s(f)(%s) == f(%s), %q)\n", name, as(n), as(n), "as."+name)
	}},
	{"as", regexp.MustCompile(`^Supplier(\d+)$`), func(n int, name string, fi funcInfo) string {
		return av(n) + ufN("f", n) + fmt.Sprintf("\tzz.Assert(as.%s(f, %s)() == f(%s), %q)\n", name, as(n), as(n), "as."+name)
	}},
	{"as", regexp.MustCompile(`^Curried(\d+)$`), func(n int, name string, fi funcInfo) string {
		return av(n) + ufN("f", n) + fmt.Sprintf("\tzz.Assert(as.%s(f)%s == f(%s), %q)\n", name, curApp(n), as(n), "as."+name)
	}},
	{"as", regexp.MustCompile(`^UnTupled(\d+)$`), func(n int, name string, fi funcInfo) string {
		return av(n) + ufN("f", n) + fmt.Sprintf("\tft := func(t %s) int { return f(%s) }\n", tupleT(n), seqN(n, func(i int) string { return fmt.Sprintf("t.I%d", i) }, ", ")) +
			fmt.Sprintf("\tzz.Assert(as.%s(ft)(%s) == f(%s), %q)\n", name, as(n), as(n), "as."+name)
	}},
	{"as", regexp.MustCompile(`^HList(\d+)$`), func(n int, name string, fi funcInfo) string {
		lit := fmt.Sprintf("%s{%s}", tupleT(n), seqN(n, func(i int) string { return fmt.Sprintf("I%d: a%d", i, i) }, ", "))
		return av(n) + hlCheck(fmt.Sprintf("as.%s(%s)", name, lit), upto(n), "hlist.", "as."+name)
	}},
	{"as", regexp.MustCompile(`^Labelled(\d+)$`), func(n int, name string, fi funcInfo) string {
		if fi.NParams != n {
			return ""
		}
		nms := seqN(n, func(i int) string { return fmt.Sprintf("nm(a%d)", i) }, ", ")
		b := av(n) + labelledFields(fmt.Sprintf("as.%s(%s)", name, nms), n, "as."+name)
		if n >= 2 {
			b += fmt.Sprintf("\tzz.Assert(int(t.Head()) == a1 && int(t.Last()) == a%d, %q)\n", n, "Labelled.Head/Last")
			b += fmt.Sprintf("\t%s := t.Unapply()\n\tzz.Assert(%s, %q)\n", seqN(n, func(i int) string { return fmt.Sprintf("u%d", i) }, ", "),
				seqN(n, func(i int) string { return fmt.Sprintf("int(u%d) == a%d", i, i) }, " && "), "Labelled.Unapply keeps order")
			b += fmt.Sprintf("\t%s := t.Tail()\n\tzz.Assert(%s, %q)\n", seqN(n-1, func(i int) string { return fmt.Sprintf("x%d", i) }, ", "),
				seqN(n-1, func(i int) string { return fmt.Sprintf("int(x%d) == a%d", i, i+1) }, " && "), "Labelled.Tail drops the first")
			b += fmt.Sprintf("\t%s := t.Init()\n\tzz.Assert(%s, %q)\n", seqN(n-1, func(i int) string { return fmt.Sprintf("y%d", i) }, ", "),
				seqN(n-1, func(i int) string { return fmt.Sprintf("int(y%d) == a%d", i, i) }, " && "), "Labelled.Init drops the last")
		}
		return b
	}},
	{"product", regexp.MustCompile(`^LabelledFromHList(\d+)$`), func(n int, name string, fi funcInfo) string {
		lit := "hlist.Empty()"
		for i := n; i >= 1; i-- {
			lit = fmt.Sprintf("hlist.Concat(nm(a%d), %s)", i, lit)
		}
		return av(n) + labelledFields(fmt.Sprintf("product.%s(%s)", name, lit), n, "product."+name)
	}},
	// ---- curried
	{"curried", regexp.MustCompile(`^Func(\d+)$`), func(n int, name string, fi funcInfo) string {
		return av(n) + ufN("f", n) + fmt.Sprintf("\tzz.Assert(curried.%s(f)%s == f(%s), %q)\n", name, curApp(n), as(n), "curried."+name)
	}},
	{"curried", regexp.MustCompile(`^Revert(\d+)$`), func(n int, name string, fi funcInfo) string {
		return av(n) + fmt.Sprintf("\tcf := %s(%s)\n", curT(n), curF("f", n)) +
			fmt.Sprintf("\tzz.Assert(curried.%s(cf)(%s) == cf%s, %q)\n", name, as(n), curApp(n), "curried."+name)
	}},
	{"curried", regexp.MustCompile(`^Flip(\d+)$`), func(k int, name string, fi funcInfo) string {
		n := k + 1 // FlipK takes a curried function of K+1 arguments and moves the first argument last
		app := seqN(n-1, func(i int) string { return fmt.Sprintf("(a%d)", i+1) }, "") + "(a1)"
		return av(n) + fmt.Sprintf("\tcf := %s(%s)\n", curT(n), curF("f", n)) +
			fmt.Sprintf("\tzz.Assert(curried.%s(cf)%s == cf%s, %q)\n", name, app, curApp(n), "curried."+name+": first argument moved last")
	}},
	{"curried", regexp.MustCompile(`^FlipApply(\d+)$`), func(k int, name string, fi funcInfo) string {
		n := k + 1
		rest := seqN(n-1, func(i int) string { return fmt.Sprintf("a%d", i+1) }, ", ")
		return av(n) + fmt.Sprintf("\tcf := %s(%s)\n", curT(n), curF("f", n)) +
			fmt.Sprintf("\tzz.Assert(curried.%s(cf, %s)(a1) == cf%s, %q)\n", name, rest, curApp(n), "curried."+name)
	}},
	{"curried", regexp.MustCompile(`^SlipL(\d+)$`), func(n int, name string, fi funcInfo) string {
		app := fmt.Sprintf("(a%d)", n) + seqN(n-1, func(i int) string { return fmt.Sprintf("(a%d)", i) }, "")
		return av(n) + fmt.Sprintf("\tcf := %s(%s)\n", curT(n), curF("f", n)) +
			fmt.Sprintf("\tzz.Assert(curried.%s(cf)%s == cf%s, %q)\n", name, app, curApp(n), "curried."+name+": last argument moved first")
	}},
	{"curried", regexp.MustCompile(`^Compose(\d+)$`), func(n int, name string, fi funcInfo) string {
		return av(n) + fmt.Sprintf("\tcf := %s(%s)\n", curT(n), curF("f", n)) + ufN("g", 1) +
			fmt.Sprintf("\tzz.Assert(curried.%s(cf, g)%s == g(cf%s), %q)\n", name, curApp(n), curApp(n), "curried."+name)
	}},
	// ---- hlist
	{"hlist", regexp.MustCompile(`^Of(\d+)$`), func(n int, name string, fi funcInfo) string {
		return av(n) + hlCheck(fmt.Sprintf("hlist.%s(%s)", name, as(n)), upto(n), "hlist.", "hlist."+name)
	}},
	{"hlist", regexp.MustCompile(`^Case(\d+)$`), func(n int, name string, fi funcInfo) string {
		return av(n+1) + ufN("f", n) + fmt.Sprintf("\thl := %s\n\tzz.Assert(hlist.%s(hl, f) == f(%s), %q)\n", hlLit(upto(n+1), "hlist."), name, as(n), "hlist."+name+": the first N elements in order")
	}},
	{"hlist", regexp.MustCompile(`^Lift(\d+)$`), func(n int, name string, fi funcInfo) string {
		return av(n) + ufN("f", n) + fmt.Sprintf("\tzz.Assert(hlist.%s(f)(%s) == f(%s), %q)\n", name, hlLit(upto(n), "hlist."), as(n), "hlist."+name)
	}},
	{"hlist", regexp.MustCompile(`^Rift(\d+)$`), func(n int, name string, fi funcInfo) string {
		return av(n) + ufN("f", n) + fmt.Sprintf("\tzz.Assert(hlist.%s(f)(%s) == f(%s), %q)\n", name, hlLit(down(n), "hlist."), as(n), "hlist."+name+": takes the reversed list")
	}},
	{"hlist", regexp.MustCompile(`^Reverse(\d+)$`), func(n int, name string, fi funcInfo) string {
		return av(n) + hlCheck(fmt.Sprintf("hlist.%s(%s)", name, hlLit(upto(n), "hlist.")), down(n), "hlist.", "hlist."+name)
	}},
	// ---- product
	{"product", regexp.MustCompile(`^Tuple(\d+)$`), func(n int, name string, fi funcInfo) string {
		if fi.NParams != n {
			return ""
		}
		return av(n) + tupleFields(fmt.Sprintf("product.%s(%s)", name, as(n)), n, "product."+name)
	}},
	{"product", regexp.MustCompile(`^TupleFromHList(\d+)$`), func(n int, name string, fi funcInfo) string {
		return av(n) + tupleFields(fmt.Sprintf("product.%s(%s)", name, hlLit(upto(n), "hlist.")), n, "product."+name)
	}},
	{"product", regexp.MustCompile(`^Lift(\d+)$`), func(n int, name string, fi funcInfo) string {
		lit := fmt.Sprintf("%s{%s}", tupleT(n), seqN(n, func(i int) string { return fmt.Sprintf("I%d: a%d", i, i) }, ", "))
		return av(n) + ufN("f", n) + fmt.Sprintf("\tzz.Assert(product.%s(f)(%s) == f(%s), %q)\n", name, lit, as(n), "product."+name)
	}},
	{"product", regexp.MustCompile(`^Flatten(\d+)$`), func(n int, name string, fi funcInfo) string {
		// right-nested pairs (a1,(a2,(...,(aN-1,aN))))
		lit := fmt.Sprintf("a%d", n)
		typ := "int"
		for i := n - 1; i >= 1; i-- {
			typ2 := fmt.Sprintf("fp.Tuple2[int, %s]", typ)
			lit = fmt.Sprintf("%s{I1: a%d, I2: %s}", typ2, i, lit)
			typ = typ2
		}
		return av(n) + tupleFields(fmt.Sprintf("product.%s(%s)", name, lit), n, "product."+name)
	}},
	// ---- fp
	{".", regexp.MustCompile(`^Compose(\d+)$`), func(n int, name string, fi funcInfo) string {
		if fi.NParams != n {
			return ""
		}
		fs := seqN(n, func(i int) string { return ufN(fmt.Sprintf("f%d", i), 1) }, "")
		want := "a1"
		for i := 1; i <= n; i++ {
			want = fmt.Sprintf("f%d(%s)", i, want)
		}
		return av(1) + fs + fmt.Sprintf("\tzz.Assert(fp.%s(%s)(a1) == %s, %q)\n", name, seqN(n, func(i int) string { return fmt.Sprintf("f%d", i) }, ", "), want, "fp."+name+": applies f1 first")
	}},
	{".", regexp.MustCompile(`^Id(\d+)$`), func(n int, name string, fi funcInfo) string {
		return av(n) + fmt.Sprintf("\tzz.Assert(fp.%s(%s) == a%d, %q)\n", name, as(n), n, "fp."+name+": returns the last argument")
	}},
	// ---- fn1
	{"fn1", regexp.MustCompile(`^Merge(\d+)$`), func(n int, name string, fi funcInfo) string {
		if fi.NParams != n {
			return ""
		}
		fs := seqN(n, func(i int) string { return ufN(fmt.Sprintf("f%d", i), 1) }, "")
		var sb strings.Builder
		sb.WriteString("\tx := zz.Int(\"x\")\n" + fs)
		sb.WriteString(fmt.Sprintf("\tt := fn1.%s(%s)(x)\n", name, seqN(n, func(i int) string { return fmt.Sprintf("f%d", i) }, ", ")))
		for i := 1; i <= n; i++ {
			sb.WriteString(fmt.Sprintf("\tzz.Assert(t.I%d == f%d(x), %q)\n", i, i, fmt.Sprintf("fn1.%s: function %d fills position %d", name, i, i)))
		}
		return sb.String()
	}},
	// ---- unit
	{"unit", regexp.MustCompile(`^Func(\d+)$`), func(n int, name string, fi funcInfo) string {
		return av(n) + "\tcalls, seen := 0, 0\n" + fmt.Sprintf("\tf := func(%s int) { calls++; seen = zz.UFInt(\"f\", %s) }\n", as(n), as(n)) +
			fmt.Sprintf("\tunit.%s(f)(%s)\n\tzz.Assert(calls == 1 && seen == zz.UFInt(\"f\", %s), %q)\n", name, as(n), as(n), "unit."+name+": calls f once with the arguments in order")
	}},
	// ---- try function lifters
	{"try", regexp.MustCompile(`^Func(\d+)$`), func(n int, name string, fi funcInfo) string {
		return av(n) + "\tfail := zz.Bool(\"fail\")\n" + fmt.Sprintf("\tf := func(%s int) (int, error) {\n\t\tif fail {\n\t\t\treturn 0, errX\n\t\t}\n\t\treturn zz.UFInt(\"f\", %s), nil\n\t}\n", as(n), as(n)) +
			fmt.Sprintf("\tr := try.%s(f)(%s)\n\tif fail {\n\t\tzz.Assert(r.IsFailure() && r.Failed().Get() == errX, %q)\n\t} else {\n\t\tzz.Assert(r.IsSuccess() && r.Get() == zz.UFInt(\"f\", %s), %q)\n\t}\n", name, as(n), "try."+name+": error unchanged", as(n), "try."+name+": arguments in order")
	}},
	{"try", regexp.MustCompile(`^Pure(\d+)$`), func(n int, name string, fi funcInfo) string {
		if n == 0 {
			return ""
		}
		return av(n) + ufN("f", n) + fmt.Sprintf("\tr := try.%s(f)(%s)\n\tzz.Assert(r.IsSuccess() && r.Get() == f(%s), %q)\n", name, as(n), as(n), "try."+name)
	}},
	{"try", regexp.MustCompile(`^Curried(\d+)$`), func(n int, name string, fi funcInfo) string {
		return av(n) + fmt.Sprintf("\tf := func(%s int) (int, error) { return zz.UFInt(\"f\", %s), nil }\n", as(n), as(n)) +
			fmt.Sprintf("\tr := try.%s(f)%s\n\tzz.Assert(r.IsSuccess() && r.Get() == zz.UFInt(\"f\", %s), %q)\n", name, curApp(n), as(n), "try."+name)
	}},
	{"try", regexp.MustCompile(`^CurriedPure(\d+)$`), func(n int, name string, fi funcInfo) string {
		return av(n) + ufN("f", n) + fmt.Sprintf("\tr := try.%s(f)%s\n\tzz.Assert(r.IsSuccess() && r.Get() == f(%s), %q)\n", name, curApp(n), as(n), "try."+name)
	}},
	{"try", regexp.MustCompile(`^Unit(\d+)$`), func(n int, name string, fi funcInfo) string {
		if n == 0 {
			return ""
		}
		return av(n) + "\tfail := zz.Bool(\"fail\")\n\tcalls, seen := 0, 0\n" +
			fmt.Sprintf("\tf := func(%s int) error {\n\t\tcalls++\n\t\tseen = zz.UFInt(\"f\", %s)\n\t\tif fail {\n\t\t\treturn errX\n\t\t}\n\t\treturn nil\n\t}\n", as(n), as(n)) +
			fmt.Sprintf("\tr := try.%s(f)(%s)\n\tzz.Assert(calls == 1 && seen == zz.UFInt(\"f\", %s), %q)\n", name, as(n), as(n), "try."+name+": calls f once with the arguments in order") +
			fmt.Sprintf("\tif fail {\n\t\tzz.Assert(r.IsFailure() && r.Failed().Get() == errX, %q)\n\t} else {\n\t\tzz.Assert(r.IsSuccess(), %q)\n\t}\n", "try."+name+": error unchanged", "try."+name+": nil error is success")
	}},
	{"try", regexp.MustCompile(`^CurriedUnit(\d+)$`), func(n int, name string, fi funcInfo) string {
		return av(n) + "\tfail := zz.Bool(\"fail\")\n\tcalls, seen := 0, 0\n" +
			fmt.Sprintf("\tf := func(%s int) error {\n\t\tcalls++\n\t\tseen = zz.UFInt(\"f\", %s)\n\t\tif fail {\n\t\t\treturn errX\n\t\t}\n\t\treturn nil\n\t}\n", as(n), as(n)) +
			fmt.Sprintf("\tr := try.%s[%s, int](f)%s\n\tzz.Assert(calls == 1 && seen == zz.UFInt(\"f\", %s), %q)\n", name, ints(n), curApp(n), as(n), "try."+name+": calls f once with the arguments in order") +
			fmt.Sprintf("\tif fail {\n\t\tzz.Assert(r.IsFailure() && r.Failed().Get() == errX, %q)\n\t} else {\n\t\tzz.Assert(r.IsSuccess(), %q)\n\t}\n", "try."+name+": error unchanged", "try."+name+": nil error is success")
	}},
	{"try", regexp.MustCompile(`^Ptr(\d+)$`), func(n int, name string, fi funcInfo) string {
		if fi.NParams != 1 {
			return ""
		}
		return av(n) + ptrFn(n) + fmt.Sprintf("\tr := try.%s(f)(%s)\n", name, as(n)) + ptrCheck(n, "try."+name)
	}},
	{"try", regexp.MustCompile(`^CurriedPtr(\d+)$`), func(n int, name string, fi funcInfo) string {
		return av(n) + ptrFn(n) + fmt.Sprintf("\tr := try.%s(f)%s\n", name, curApp(n)) + ptrCheck(n, "try."+name)
	}},
	{"try", regexp.MustCompile(`^Compose(\d+)$`), func(n int, name string, fi funcInfo) string {
		if fi.NParams != n {
			return ""
		}
		var sb strings.Builder
		sb.WriteString("\ta1 := zz.Int(\"a1\")\n\tvar log []int\n")
		for i := 1; i <= n; i++ {
			sb.WriteString(fmt.Sprintf("\tok%d := zz.Bool(\"ok%d\")\n\tf%d := func(x int) fp.Try[int] {\n\t\tlog = append(log, %d)\n\t\tif ok%d {\n\t\t\treturn fp.Success(zz.UFInt(\"f%d\", x))\n\t\t}\n\t\treturn fp.Failure[int](errs14[%d])\n\t}\n", i, i, i, i, i, i, i-1))
		}
		sb.WriteString(fmt.Sprintf("\tr := try.%s(%s)(a1)\n", name, seqN(n, func(i int) string { return fmt.Sprintf("f%d", i) }, ", ")))
		sb.WriteString("\twant, failed := a1, -1\n")
		for i := 1; i <= n; i++ {
			sb.WriteString(fmt.Sprintf("\tif failed < 0 {\n\t\tif ok%d {\n\t\t\twant = zz.UFInt(\"f%d\", want)\n\t\t} else {\n\t\t\tfailed = %d\n\t\t}\n\t}\n", i, i, i-1))
		}
		sb.WriteString(fmt.Sprintf("\tif failed < 0 {\n\t\tzz.Assert(r.IsSuccess() && r.Get() == want && len(log) == %d, %q)\n\t} else {\n\t\tzz.Assert(r.IsFailure() && r.Failed().Get() == errs14[failed] && len(log) == failed+1, %q)\n\t}\n", n, "try."+name+": applies f1 first, each once", "try."+name+": stops at the first failing function with its error"))
		sb.WriteString("\tfor i := range log {\n\t\tzz.Assert(log[i] == i+1, \"" + "try." + name + ": functions run left to right\")\n\t}\n")
		return sb.String()
	}},
	{"as", regexp.MustCompile(`^Tupled(\d+)$`), func(n int, name string, fi funcInfo) string {
		lit := fmt.Sprintf("%s{%s}", tupleT(n), seqN(n, func(i int) string { return fmt.Sprintf("I%d: a%d", i, i) }, ", "))
		return av(n) + ufN("f", n) + fmt.Sprintf("\tzz.Assert(as.%s(as.Func%d(f))(%s) == f(%s), %q)\n", name, n, lit, as(n), "as."+name)
	}},
	{".", regexp.MustCompile(`^Flip(\d+)$`), func(n int, name string, fi funcInfo) string {
		if n != 2 {
			return ""
		}
		return av(2) + ufN("f", 2) + fmt.Sprintf("\tzz.Assert(fp.%s(f)(a2)(a1) == f(a1, a2), %q)\n", name, "fp."+name+": takes the second argument first")
	}},
}

func ptrFn(n int) string {
	return "\tmode := zz.Choice(\"mode\", 3)\n" + fmt.Sprintf("\tf := func(%s int) (*int, error) {\n\t\tswitch mode {\n\t\tcase 0:\n\t\t\treturn nil, errX\n\t\tcase 1:\n\t\t\treturn nil, nil\n\t\t}\n\t\tv := zz.UFInt(\"f\", %s)\n\t\treturn &v, nil\n\t}\n", as(n), as(n))
}

func ptrCheck(n int, label string) string {
	return fmt.Sprintf("\tswitch mode {\n\tcase 0:\n\t\tzz.Assert(r.IsFailure() && r.Failed().Get() == errX, %q)\n\tcase 1:\n\t\tzz.Assert(r.IsFailure(), %q)\n\tdefault:\n\t\tzz.Assert(r.IsSuccess() && r.Get() == zz.UFInt(\"f\", %s), %q)\n\t}\n", label+": error unchanged", label+": nil pointer without error is a failure", as(n), label+": arguments in order, pointer dereferenced")
}

// typeclass TupleN instances: component-wise meaning at every arity
func typeclassTuple(dir string, n int) string {
	lit := func(p string) string {
		return fmt.Sprintf("%s{%s}", tupleT(n), seqN(n, func(i int) string { return fmt.Sprintf("I%d: %s%d", i, p, i) }, ", "))
	}
	vars := func(p string) string {
		return seqN(n, func(i int) string { return fmt.Sprintf("\t%s%d := zz.Int(\"%s%d\")\n", p, i, p, i) }, "")
	}
	switch dir {
	case "eq":
		return vars("a") + vars("b") + fmt.Sprintf("\te := eq.Tuple%d(%s)\n", n, seqN(n, func(int) string { return "eq.Given[int]()" }, ", ")) +
			fmt.Sprintf("\tzz.Assert(e.Eqv(%s, %s) == (%s), %q)\n", lit("a"), lit("b"), seqN(n, func(i int) string { return fmt.Sprintf("a%d == b%d", i, i) }, " && "), fmt.Sprintf("eq.Tuple%d: conjunction of the component equalities", n))
	case "hash":
		return vars("a") + vars("b") + fmt.Sprintf("\th := hash.Tuple%d(%s)\n", n, seqN(n, func(int) string { return "cheapH" }, ", ")) +
			fmt.Sprintf("\tzz.Assert(h.Eqv(%s, %s) == (%s), %q)\n", lit("a"), lit("b"), seqN(n, func(i int) string { return fmt.Sprintf("a%d == b%d", i, i) }, " && "), fmt.Sprintf("hash.Tuple%d.Eqv component-wise", n)) +
			fmt.Sprintf("\tif h.Eqv(%s, %s) {\n\t\tzz.Assert(h.Hash(%s) == h.Hash(%s), %q)\n\t}\n", lit("a"), lit("b"), lit("a"), lit("b"), fmt.Sprintf("hash.Tuple%d: Eqv-equal tuples hash equally", n))
	case "ord":
		lex := "false"
		for i := n; i >= 1; i-- {
			lex = fmt.Sprintf("a%d < b%d || (a%d == b%d && (%s))", i, i, i, i, lex)
		}
		return vars("a") + vars("b") + fmt.Sprintf("\to := ord.Tuple%d(%s)\n", n, seqN(n, func(int) string { return "ord.Given[int]()" }, ", ")) +
			fmt.Sprintf("\tzz.Assert(o.Less(%s, %s) == (%s), %q)\n", lit("a"), lit("b"), lex, fmt.Sprintf("ord.Tuple%d: lexicographic in position order", n)) +
			fmt.Sprintf("\tzz.Assert(o.Eqv(%s, %s) == (%s), %q)\n", lit("a"), lit("b"), seqN(n, func(i int) string { return fmt.Sprintf("a%d == b%d", i, i) }, " && "), fmt.Sprintf("ord.Tuple%d.Eqv component-wise", n))
	case "ordwide":
		// component instances whose Compare is lawful but not normalised to -1/0/+1
		lex := "false"
		for i := n; i >= 1; i-- {
			lex = fmt.Sprintf("a%d < b%d || (a%d == b%d && (%s))", i, i, i, i, lex)
		}
		return vars("a") + vars("b") + fmt.Sprintf("\to := ord.Tuple%d(%s)\n", n, seqN(n, func(int) string { return "wideOrd" }, ", ")) +
			fmt.Sprintf("\tzz.Assert(o.Less(%s, %s) == (%s), %q)\n", lit("a"), lit("b"), lex, fmt.Sprintf("ord.Tuple%d over components with a non-normalised Compare: still lexicographic", n))
	case "monoid":
		return vars("a") + vars("b") + fmt.Sprintf("\tm := monoid.Tuple%d(%s)\n", n, seqN(n, func(int) string { return "monoid.Sum[int]()" }, ", ")) +
			fmt.Sprintf("\tc := m.Combine(%s, %s)\n\tz := m.Empty()\n", lit("a"), lit("b")) +
			fmt.Sprintf("\tzz.Assert(%s, %q)\n", seqN(n, func(i int) string { return fmt.Sprintf("c.I%d == a%d+b%d", i, i, i) }, " && "), fmt.Sprintf("monoid.Tuple%d combines position by position", n)) +
			fmt.Sprintf("\tzz.Assert(%s, %q)\n", seqN(n, func(i int) string { return fmt.Sprintf("z.I%d == 0", i) }, " && "), fmt.Sprintf("monoid.Tuple%d.Empty is the tuple of identities", n))
	case "clone":
		return vars("a") + fmt.Sprintf("\tc := clone.Tuple%d(%s).Clone(%s)\n", n, seqN(n, func(i int) string { return fmt.Sprintf("tagClone(%d)", i) }, ", "), lit("a")) +
			fmt.Sprintf("\tzz.Assert(%s, %q)\n", seqN(n, func(i int) string { return fmt.Sprintf("c.I%d == zz.UFInt(\"cl\", %d, a%d)", i, i, i) }, " && "), fmt.Sprintf("clone.Tuple%d clones position i with instance i", n))
	}
	return ""
}

const c14Prelude = `
var errX = errors.New("x")

var errs14 = []error{errors.New("e1"), errors.New("e2"), errors.New("e3"), errors.New("e4"), errors.New("e5"), errors.New("e6")}

// a fp.Named value that is distinguishable per position
type nm int

func (nm) Name() string { return "n" }

type cheap struct{}

func (cheap) Eqv(a, b int) bool { return a == b }
func (cheap) Hash(a int) uint32 { return uint32(a) }

var cheapH fp.Hashable[int] = cheap{}

// a lawful Ord whose Compare returns other magnitudes than 1
var wideOrd = ord.FromCompare(func(a, b int) int {
	if a < b {
		return -5
	}
	if a > b {
		return 7
	}
	return 0
})

// a Clone instance that is distinguishable per position
func tagClone(i int) fp.Clone[int] {
	return fp.CloneFunc[int](func(v int) int { return zz.UFInt("cl", i, v) })
}
`

func genArity(tier, repo string) ([]File, error) {
	type entry struct{ name, body string }
	var hs []entry
	var unc, elsewhere []string
	mc := map[string]map[string]bool{}
	dirs := map[string]map[string]funcInfo{}
	for _, r := range arityRules {
		if _, ok := dirs[r.dir]; !ok {
			fns, err := exportedFuncs(filepath.Join(repo, r.dir))
			if err != nil {
				return nil, err
			}
			dirs[r.dir] = fns
		}
	}
	for dir, fns := range dirs {
		names := make([]string, 0, len(fns))
		for n := range fns {
			names = append(names, n)
		}
		sort.Strings(names)
		for _, n := range names {
			mm := arityRe.FindStringSubmatch(n)
			if mm == nil {
				continue
			}
			matched := false
			for _, r := range arityRules {
				if r.dir != dir {
					continue
				}
				m := r.re.FindStringSubmatch(n)
				if m == nil {
					continue
				}
				k, _ := strconv.Atoi(m[1])
				if k == 0 {
					continue
				}
				b := r.body(k, n, fns[n])
				if b == "" {
					continue
				}
				matched = true
				pk := dir
				if pk == "." {
					pk = "fp"
				}
				hs = append(hs, entry{pk + "_" + n, b})
			}
			if !matched {
				if mc[dir] == nil {
					mc[dir] = monadCovered(repo, dir)
				}
				if mc[dir][n] {
					elsewhere = append(elsewhere, dir+"."+n+" (C01/C02: generated monad family)")
				} else {
					unc = append(unc, dir+"."+n)
				}
			}
		}
	}
	// methods of fp.FuncN (ApplyFirstK, ApplyLastK, Widen), found in the source of the root package
	{
		srcs, _ := filepath.Glob(filepath.Join(repo, "*.go"))
		re := regexp.MustCompile(`(?m)^func \(r Func(\d+)\[[^\]]*\]\) (ApplyFirst|ApplyLast|Widen)(\d*)\(`)
		seen := map[string]bool{}
		for _, f := range srcs {
			if strings.HasSuffix(f, "_test.go") {
				continue
			}
			b, err := os.ReadFile(f)
			if err != nil {
				continue
			}
			for _, m := range re.FindAllStringSubmatch(string(b), -1) {
				n, _ := strconv.Atoi(m[1])
				key := "Func" + m[1] + "_" + m[2] + m[3]
				if seen[key] || n < 2 {
					continue
				}
				seen[key] = true
				recv := fmt.Sprintf("fp.Func%d[%s, int](f)", n, ints(n))
				var body string
				switch m[2] {
				case "ApplyFirst":
					body = fmt.Sprintf("\tzz.Assert(%s.%s%s(%s)(a%d) == f(%s), %q)\n", recv, m[2], m[3], as(n-1), n, as(n), "Func"+m[1]+"."+m[2]+m[3]+": fixes the first arguments in order")
				case "ApplyLast":
					rest := seqN(n-1, func(i int) string { return fmt.Sprintf("a%d", i+1) }, ", ")
					body = fmt.Sprintf("\tzz.Assert(%s.%s%s(%s)(a1) == f(%s), %q)\n", recv, m[2], m[3], rest, as(n), "Func"+m[1]+"."+m[2]+m[3]+": fixes the last arguments in order")
				case "Widen":
					body = fmt.Sprintf("\tzz.Assert(%s.Widen()(%s) == f(%s), %q)\n", recv, as(n), as(n), "Func"+m[1]+".Widen")
				}
				hs = append(hs, entry{"fp_" + key, av(n) + ufN("f", n) + body})
			}
		}
	}
	// typeclass tuples
	for _, dir := range []string{"eq", "hash", "ord", "monoid", "clone"} {
		fns, err := exportedFuncs(filepath.Join(repo, dir))
		if err != nil {
			return nil, err
		}
		for n := range fns {
			m := regexp.MustCompile(`^Tuple(\d+)$`).FindStringSubmatch(n)
			if m == nil {
				continue
			}
			k, _ := strconv.Atoi(m[1])
			if k < 2 {
				continue
			}
			if dir == "ord" && k > 10 {
				// ord.TupleN's Compare re-evaluates Eqv and Less at every level (2^N calls): beyond the step bound
				unc = append(unc, fmt.Sprintf("ord.Tuple%d (exponential-time Compare exceeds the step bound)", k))
				continue
			}
			if b := typeclassTuple(dir, k); b != "" {
				hs = append(hs, entry{dir + "_" + n, b})
			}
			if dir == "ord" && k <= 8 {
				hs = append(hs, entry{"ordwide_" + n, typeclassTuple("ordwide", k)})
			}
		}
	}
	sort.Slice(hs, func(i, j int) bool { return hs[i].name < hs[j].name })
	sort.Strings(unc)
	Uncovered["C14"] = unc
	sort.Strings(elsewhere)
	Elsewhere["C14"] = elsewhere
	var sb strings.Builder
	sb.WriteString(`// generated by hgen (arity families) from the exported identifiers of the current tree
package c14

import (
	"errors"

	"github.com/csgura/fp"
	"github.com/csgura/fp/as"
	"github.com/csgura/fp/clone"
	"github.com/csgura/fp/curried"
	"github.com/csgura/fp/eq"
	"github.com/csgura/fp/fn1"
	"github.com/csgura/fp/hash"
	"github.com/csgura/fp/hlist"
	zz "github.com/csgura/fp/internal/zzverif"
	"github.com/csgura/fp/monoid"
	"github.com/csgura/fp/ord"
	"github.com/csgura/fp/product"
	"github.com/csgura/fp/try"
	"github.com/csgura/fp/unit"
)

var (
	_ = as.Tuple2[int, int]
	_ = clone.Given[int]
	_ = curried.Func2[int, int, int]
	_ = eq.Given[int]
	_ = fn1.Merge[int, int, int]
	_ = hash.Number[int]
	_ = hlist.Empty
	_ = monoid.Sum[int]
	_ = ord.Given[int]
	_ = product.Tuple2[int, int]
	_ = try.Success[int]
	_ = unit.Func1[int]
	_ fp.Unit
)
`)
	sb.WriteString(c14Prelude)
	for _, h := range hs {
		sb.WriteString(fmt.Sprintf("\nfunc VH_c14_%s() {\n%s}\n", h.name, h.body))
	}
	return []File{{Virtual: "internal/zzverif_h/c14/gen.go", Data: []byte(sb.String())}}, nil
}

func init() {
	generators["C14"] = append(generators["C14"], genArity)
}
