//verif:overlay internal/zzverif_h/c02/chains.go
package c02

import (
	"github.com/csgura/fp"
	"github.com/csgura/fp/as"
	"github.com/csgura/fp/hlist"
	zz "github.com/csgura/fp/internal/zzverif"
	"github.com/csgura/fp/try"
)

// Every way of supplying an operand to a Chain/Applicative builder, at every position, with every subset of
// failing operands: the result is the first failing operand's own error, suppliers/continuations run left to
// right and stop after the first failure.

type operand struct {
	ok  bool
	v   int
	err error
}

const (
	opApTry = iota
	opApOption
	opAp
	opApTryFunc
	opApOptionFunc
	opApFunc
	opFlatMap    // chains only
	opMap        // chains only
	nApplicative = opFlatMap
	nChain       = opMap + 1
)

var chainLog []int

func (o operand) asTry() fp.Try[int] {
	if o.ok {
		return fp.Success(o.v)
	}
	return fp.Failure[int](o.err)
}

func (o operand) asOpt() fp.Option[int] {
	if o.ok {
		return fp.Some(o.v)
	}
	return fp.None[int]()
}

// effective outcome of an operand supplied in a given way
func effective(kind int, o operand) operand {
	switch kind {
	case opApOption, opApOptionFunc:
		if !o.ok {
			return operand{ok: false, err: fp.ErrOptionEmpty}
		}
	case opAp, opApFunc, opMap:
		return operand{ok: true, v: o.v}
	}
	return o
}

func logs(kind int) bool { return kind >= opApTryFunc }

type c3 = try.MonadChain3[hlist.Nil, hlist.Nil, int, int, int, int]
type c2 = try.MonadChain2[hlist.Cons[int, hlist.Nil], int, int, int, int]
type c1 = try.MonadChain1[hlist.Cons[int, hlist.Cons[int, hlist.Nil]], int, int, int]

func VH_c02_chain3_all_operand_kinds() {
	chainLog = nil
	errs := []error{eA, eB, eC}
	var ops [3]operand
	var kinds [3]int
	for i := range ops {
		ops[i] = operand{ok: zz.Bool("ok" + string(rune('1'+i))), v: zz.Int("v" + string(rune('1'+i))), err: errs[i]}
		kinds[i] = zz.Choice("kind"+string(rune('1'+i)), nChain)
	}
	f := func(a, b, c int) int { chainLog = append(chainLog, 9); return zz.UFInt("f", a, b, c) }
	var prev [3]int // value handed to a FlatMap/Map continuation at position i (the previous operand's value)
	var s2 c2
	o, k := ops[0], kinds[0]
	b0 := try.Chain3(as.Func3(f))
	switch k {
	case opApTry:
		s2 = b0.ApTry(o.asTry())
	case opApOption:
		s2 = b0.ApOption(o.asOpt())
	case opAp:
		s2 = b0.Ap(o.v)
	case opApTryFunc:
		s2 = b0.ApTryFunc(func() fp.Try[int] { chainLog = append(chainLog, 1); return o.asTry() })
	case opApOptionFunc:
		s2 = b0.ApOptionFunc(func() fp.Option[int] { chainLog = append(chainLog, 1); return o.asOpt() })
	case opApFunc:
		s2 = b0.ApFunc(func() int { chainLog = append(chainLog, 1); return o.v })
	case opFlatMap:
		s2 = b0.FlatMap(func(hlist.Nil) fp.Try[int] { chainLog = append(chainLog, 1); return o.asTry() })
	case opMap:
		s2 = b0.Map(func(hlist.Nil) int { chainLog = append(chainLog, 1); return o.v })
	}
	var s1 c1
	o, k = ops[1], kinds[1]
	switch k {
	case opApTry:
		s1 = s2.ApTry(o.asTry())
	case opApOption:
		s1 = s2.ApOption(o.asOpt())
	case opAp:
		s1 = s2.Ap(o.v)
	case opApTryFunc:
		s1 = s2.ApTryFunc(func() fp.Try[int] { chainLog = append(chainLog, 2); return o.asTry() })
	case opApOptionFunc:
		s1 = s2.ApOptionFunc(func() fp.Option[int] { chainLog = append(chainLog, 2); return o.asOpt() })
	case opApFunc:
		s1 = s2.ApFunc(func() int { chainLog = append(chainLog, 2); return o.v })
	case opFlatMap:
		s1 = s2.FlatMap(func(p int) fp.Try[int] { chainLog = append(chainLog, 2); prev[1] = p; return o.asTry() })
	case opMap:
		s1 = s2.Map(func(p int) int { chainLog = append(chainLog, 2); prev[1] = p; return o.v })
	}
	var r fp.Try[int]
	o, k = ops[2], kinds[2]
	switch k {
	case opApTry:
		r = s1.ApTry(o.asTry())
	case opApOption:
		r = s1.ApOption(o.asOpt())
	case opAp:
		r = s1.Ap(o.v)
	case opApTryFunc:
		r = s1.ApTryFunc(func() fp.Try[int] { chainLog = append(chainLog, 3); return o.asTry() })
	case opApOptionFunc:
		r = s1.ApOptionFunc(func() fp.Option[int] { chainLog = append(chainLog, 3); return o.asOpt() })
	case opApFunc:
		r = s1.ApFunc(func() int { chainLog = append(chainLog, 3); return o.v })
	case opFlatMap:
		r = s1.FlatMap(func(p int) fp.Try[int] { chainLog = append(chainLog, 3); prev[2] = p; return o.asTry() })
	case opMap:
		r = s1.Map(func(p int) int { chainLog = append(chainLog, 3); prev[2] = p; return o.v })
	}
	// reference
	var wlog []int
	var eff [3]operand
	failed := -1
	for i := 0; i < 3; i++ {
		eff[i] = effective(kinds[i], ops[i])
		if failed < 0 && logs(kinds[i]) {
			wlog = append(wlog, i+1)
		}
		if failed < 0 && !eff[i].ok {
			failed = i
		}
	}
	if failed < 0 {
		wlog = append(wlog, 9)
		zz.Assert(r.IsSuccess() && r.Get() == zz.UFInt("f", eff[0].v, eff[1].v, eff[2].v), "Chain3: success applies fn to the operands in order")
	} else {
		zz.Assert(r.IsFailure() && r.Failed().Get() == eff[failed].err, "Chain3: the result is the first failing operand's own error")
	}
	ok := len(chainLog) == len(wlog)
	for i := range wlog {
		ok = ok && i < len(chainLog) && chainLog[i] == wlog[i]
	}
	zz.Assert(ok, "Chain3: suppliers and continuations run left to right, none after the first failure, earlier ones once")
	for i := 1; i < 3; i++ {
		if (kinds[i] == opFlatMap || kinds[i] == opMap) && (failed < 0 || failed >= i) {
			zz.Assert(prev[i] == eff[i-1].v, "Chain3: FlatMap/Map receive the previous operand's value")
		}
	}
}

func VH_c02_applicative3_all_operand_kinds() {
	chainLog = nil
	errs := []error{eA, eB, eC}
	var ops [3]operand
	var kinds [3]int
	for i := range ops {
		ops[i] = operand{ok: zz.Bool("ok" + string(rune('1'+i))), v: zz.Int("v" + string(rune('1'+i))), err: errs[i]}
		kinds[i] = zz.Choice("kind"+string(rune('1'+i)), nApplicative)
	}
	f := func(a, b, c int) int { chainLog = append(chainLog, 9); return zz.UFInt("f", a, b, c) }
	b0 := try.Applicative3(as.Func3(f))
	var s2 try.ApplicativeFunctor2[int, int, int]
	o, k := ops[0], kinds[0]
	switch k {
	case opApTry:
		s2 = b0.ApTry(o.asTry())
	case opApOption:
		s2 = b0.ApOption(o.asOpt())
	case opAp:
		s2 = b0.Ap(o.v)
	case opApTryFunc:
		s2 = b0.ApTryFunc(func() fp.Try[int] { chainLog = append(chainLog, 1); return o.asTry() })
	case opApOptionFunc:
		s2 = b0.ApOptionFunc(func() fp.Option[int] { chainLog = append(chainLog, 1); return o.asOpt() })
	case opApFunc:
		s2 = b0.ApFunc(func() int { chainLog = append(chainLog, 1); return o.v })
	}
	var s1 try.ApplicativeFunctor1[int, int]
	o, k = ops[1], kinds[1]
	switch k {
	case opApTry:
		s1 = s2.ApTry(o.asTry())
	case opApOption:
		s1 = s2.ApOption(o.asOpt())
	case opAp:
		s1 = s2.Ap(o.v)
	case opApTryFunc:
		s1 = s2.ApTryFunc(func() fp.Try[int] { chainLog = append(chainLog, 2); return o.asTry() })
	case opApOptionFunc:
		s1 = s2.ApOptionFunc(func() fp.Option[int] { chainLog = append(chainLog, 2); return o.asOpt() })
	case opApFunc:
		s1 = s2.ApFunc(func() int { chainLog = append(chainLog, 2); return o.v })
	}
	var r fp.Try[int]
	o, k = ops[2], kinds[2]
	switch k {
	case opApTry:
		r = s1.ApTry(o.asTry())
	case opApOption:
		r = s1.ApOption(o.asOpt())
	case opAp:
		r = s1.Ap(o.v)
	case opApTryFunc:
		r = s1.ApTryFunc(func() fp.Try[int] { chainLog = append(chainLog, 3); return o.asTry() })
	case opApOptionFunc:
		r = s1.ApOptionFunc(func() fp.Option[int] { chainLog = append(chainLog, 3); return o.asOpt() })
	case opApFunc:
		r = s1.ApFunc(func() int { chainLog = append(chainLog, 3); return o.v })
	}
	var wlog []int
	var eff [3]operand
	failed := -1
	for i := 0; i < 3; i++ {
		eff[i] = effective(kinds[i], ops[i])
		if failed < 0 && logs(kinds[i]) {
			wlog = append(wlog, i+1)
		}
		if failed < 0 && !eff[i].ok {
			failed = i
		}
	}
	if failed < 0 {
		wlog = append(wlog, 9)
		zz.Assert(r.IsSuccess() && r.Get() == zz.UFInt("f", eff[0].v, eff[1].v, eff[2].v), "Applicative3: success applies fn to the operands in order")
	} else {
		zz.Assert(r.IsFailure() && r.Failed().Get() == eff[failed].err, "Applicative3: the result is the first failing operand's own error")
	}
	ok := len(chainLog) == len(wlog)
	for i := range wlog {
		ok = ok && i < len(chainLog) && chainLog[i] == wlog[i]
	}
	zz.Assert(ok, "Applicative3: suppliers run left to right, none after the first failure, earlier ones once")
}
