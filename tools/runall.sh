#!/bin/bash
# runs every registered quick (or thorough) check sequentially and validates the evidence
tier=${1:-quick}
cd /verif
for id in $(python3 -c "import json;print(' '.join(c['property_id'] for c in json.load(open('MANIFEST.json'))['checks']))"); do
  s=$(date +%s)
  out=$(./bin/verif check $id --tier $tier 2>&1); rc=$?
  e=$(date +%s)
  echo "$id rc=$rc $((e-s))s $(echo "$out" | grep -E "^$id:" | cut -c1-150)"
  [ $rc -ne 0 ] && echo "$out" | grep -E "VIOLATION|INCONCL|UNCONF|^  " | head -8
done
python3-vt - <<'PY'
import json,jsonschema,glob
sch=json.load(open('/root/.vp/EVIDENCE.schema.json'))
for f in sorted(glob.glob('/verif/evidence/*.json')):
    try:
        jsonschema.validate(json.load(open(f)),sch); 
    except Exception as e:
        print('EVIDENCE INVALID',f,str(e)[:200])
print('evidence validated')
PY
