//verif:overlay internal/zzverif_h/c03/sets.go
package c03

import (
	"github.com/csgura/fp"
	"github.com/csgura/fp/hash"
	"github.com/csgura/fp/immutable"
	zz "github.com/csgura/fp/internal/zzverif"
	"github.com/csgura/fp/iterator"
	"github.com/csgura/fp/list"
	"github.com/csgura/fp/seq"
)

type mset struct{ ks []int }

func (m *mset) has(k int) bool {
	for _, x := range m.ks {
		if x == k {
			return true
		}
	}
	return false
}
func (m *mset) add(k int) {
	if !m.has(k) {
		m.ks = append(append([]int{}, m.ks...), k)
	}
}
func (m *mset) del(k int) {
	var out []int
	for _, x := range m.ks {
		if x != k {
			out = append(out, x)
		}
	}
	m.ks = out
}

func agreeSet(s fp.Set[int], md *mset, extra []int, l string) {
	zz.Assert(s.Size() == len(md.ks), l+": Size is the number of distinct elements")
	zz.Assert(s.IsEmpty() == (len(md.ks) == 0) && s.NonEmpty() == (len(md.ks) > 0), l+": IsEmpty/NonEmpty")
	for _, k := range md.ks {
		zz.Assert(s.Contains(k), l+": Contains an included element")
	}
	for _, k := range extra {
		zz.Assert(s.Contains(k) == md.has(k), l+": Contains agrees for probe elements")
	}
	seen := make([]int, len(md.ks))
	n := 0
	for it := s.Iterator(); it.HasNext(); {
		e := it.Next()
		n++
		found := false
		for i, k := range md.ks {
			if k == e {
				seen[i]++
				found = true
			}
		}
		zz.Assert(found, l+": Iterator yields only elements of the set")
		if n > len(md.ks)+2 {
			break
		}
	}
	zz.Assert(n == len(md.ks), l+": Iterator yields Size elements")
	for i := range seen {
		zz.Assert(seen[i] == 1, l+": Iterator yields every element exactly once")
	}
}

func mkSet(name string, h *hasher, nkeys int, ctor int) (fp.Set[int], *mset) {
	md := &mset{}
	var ks []int
	for i := 0; i < nkeys; i++ {
		h.keys = append(h.keys, 100+i)
		h.hs = append(h.hs, uint32(i+1))
		ks = append(ks, 100+i)
		md.add(100 + i)
	}
	h.reps = []uint32{0, 1, 20}
	switch ctor {
	case 0:
		return immutable.Set[int](h, ks...), md
	case 1:
		s := immutable.Set[int](h)
		for _, k := range ks {
			s = s.Incl(k)
		}
		return s, md
	case 2:
		return seq.ToSet(fp.Seq[int](ks), fp.Hashable[int](h)), md
	case 3:
		return iterator.ToSet(iterator.FromSeq(ks), fp.Hashable[int](h)), md
	case 4:
		return list.ToSet(list.FromSeq(ks), fp.Hashable[int](h)), md
	case 5:
		b := immutable.SetBuilder[int](h)
		for _, k := range ks {
			b = b.Add(k)
		}
		return b.Build(), md
	}
	// zero value: starts empty, whatever nkeys says
	return fp.Set[int]{}, &mset{}
}

func setHistory(nkeys int, ctor int, two bool) {
	zz.Config("loop", 2000)
	symKeys = nil
	h := &hasher{}
	if ctor < 0 {
		ctor = zz.Choice("ctor", 7)
	}
	s, md := mkSet("s", h, nkeys, ctor)
	agreeSet(s, md, nil, "set start")
	ka := zz.Int("ka")
	kb := ka
	if two {
		kb = zz.Int("kb")
	}
	for i, k := range []int{ka, kb} {
		tag := string(rune('1' + i))
		switch zz.Choice("op"+tag, 3) {
		case 0:
			s = s.Incl(k)
			md.add(k)
		case 1:
			s = s.Excl(k)
			md.del(k)
		case 2:
			other := fp.Set[int]{}.Incl(k).Incl(ka)
			s = s.Concat(other)
			md.add(k)
			md.add(ka)
		}
		agreeSet(s, md, []int{ka, kb}, "set step"+tag)
	}
}

func VH_c03_set_empty()        { setHistory(0, -1, true) }
func VH_c03_set_small()        { setHistory(3, -1, false) }
func VH_c03_set_small_two()    { setHistory(3, 1, true) }
func VH_c03_set_bitmap()       { setHistory(10, 0, false) }
func VH_c03_set_bitmap_build() { setHistory(10, 5, false) }

// binary operations, including the zero value on either side
func VH_c03_set_algebra() {
	symKeys = nil
	h := &hasher{}
	mk := func(name string) (fp.Set[int], *mset) {
		md := &mset{}
		var s fp.Set[int]
		if zz.Bool(name + ".zero") {
			s = fp.Set[int]{}
		} else {
			h.reps = []uint32{0, 1}
			s = immutable.Set[int](h)
		}
		n := zz.Choice(name+".n", 3)
		for i := 0; i < n; i++ {
			k := zz.Int(name + ".e" + string(rune('0'+i)))
			s = s.Incl(k)
			md.add(k)
		}
		return s, md
	}
	a, ma := mk("a")
	b, mb := mk("b")
	var all []int
	all = append(append(all, ma.ks...), mb.ks...)
	d, i := &mset{}, &mset{}
	sub := true
	for _, k := range ma.ks {
		if mb.has(k) {
			i.add(k)
		} else {
			d.add(k)
			sub = false
		}
	}
	agreeSet(a.Diff(b), d, all, "Diff")
	agreeSet(a.Intersect(b), i, all, "Intersect")
	zz.Assert(a.SubsetOf(b) == sub, "SubsetOf")
	u := &mset{}
	for _, k := range all {
		u.add(k)
	}
	agreeSet(a.Concat(b), u, all, "Concat is union")
}

// the zero-value Map behaves like an empty map under every operation
func VH_c03_zero_map() {
	var z fp.Map[int, int]
	md := &model{}
	agree(z, md, []int{zz.Int("p")}, "zero Map")
	ka, kb := zz.Int("ka"), zz.Int("kb")
	m := z
	for i, k := range []int{ka, kb, ka} {
		tag := string(rune('1' + i))
		m = step(m, md, k, tag)
		agree(m, md, []int{ka, kb}, "zero Map step"+tag)
	}
	agree(z, &model{}, []int{ka, kb}, "zero Map unchanged")
}

// values (and set elements' payloads) may be nil pointers: a key bound to nil is present, Get is Some(nil)
func VH_c03_nil_values_are_values() {
	cell := 3
	var p0, p1 *int
	if zz.Bool("p0.nonnil") {
		p0 = &cell
	}
	if zz.Bool("p1.nonnil") {
		p1 = &cell
	}
	k0, k1 := zz.Int("k0"), zz.Int("k1")
	zz.Assume(k0 != k1)
	m := immutable.Map[int, *int](hash.Number[int]()).Updated(k0, p0).Updated(k1, p1)
	zz.Assert(m.Size() == 2 && m.Get(k0).IsDefined() && m.Get(k0).Get() == p0 && m.Get(k1).IsDefined() && m.Get(k1).Get() == p1, "a key bound to a nil value is present and Get returns Some(nil)")
	zz.Assert(m.Contains(k0) && m.Contains(k1), "Contains for keys bound to nil")
	n := 0
	for it := m.Iterator(); it.HasNext(); {
		t := it.Next()
		zz.Assert((t.I1 == k0 && t.I2 == p0) || (t.I1 == k1 && t.I2 == p1), "Iterator yields the nil-valued entries")
		n++
	}
	zz.Assert(n == 2, "Iterator yields every entry once")
	u := m.UpdatedWith(k0, func(o fp.Option[*int]) fp.Option[*int] {
		zz.Assert(o.IsDefined() && o.Get() == p0, "UpdatedWith sees Some(nil) for a key bound to nil")
		return fp.Some[*int](nil)
	})
	zz.Assert(u.Size() == 2 && u.Get(k0).IsDefined() && u.Get(k0).Get() == nil, "UpdatedWith returning Some(nil) keeps the key")
	r := m.Removed(k0)
	zz.Assert(r.Size() == 1 && r.Get(k0).IsEmpty() && r.Get(k1).IsDefined(), "Removed")
}
