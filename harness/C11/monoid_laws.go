//verif:overlay internal/zzverif_h/c11/h.go
package c11

import (
	"errors"

	"github.com/csgura/fp"
	"github.com/csgura/fp/hlist"
	zz "github.com/csgura/fp/internal/zzverif"
	"github.com/csgura/fp/iterator"
	"github.com/csgura/fp/lazy"
	"github.com/csgura/fp/list"
	"github.com/csgura/fp/monoid"
	"github.com/csgura/fp/semigroup"
	"github.com/csgura/fp/seq"
)

func semiLaws[T any](m fp.Semigroup[T], a, b, c T, eq func(x, y T) bool, l string) {
	zz.Assert(eq(m.Combine(m.Combine(a, b), c), m.Combine(a, m.Combine(b, c))), l+": Combine associative")
}

func monoidLaws[T any](m fp.Monoid[T], a, b, c T, eq func(x, y T) bool, l string) {
	semiLaws[T](m, a, b, c, eq, l)
	zz.Assert(eq(m.Combine(m.Empty(), a), a), l+": Empty is a left identity")
	zz.Assert(eq(m.Combine(a, m.Empty()), a), l+": Empty is a right identity")
}

// results are values: a later Combine that shares an operand with an earlier one changes neither the earlier
// result nor the operands (x·d stays x++d however often x is combined again)
func valueLaws[T any](m fp.Semigroup[T], a, b, c T, eq func(x, y T) bool, snap func(T) T, l string) {
	a0, b0, c0 := snap(a), snap(b), snap(c)
	ab := m.Combine(a, b)
	ab0 := snap(ab)
	ac := m.Combine(a, c)
	ac0 := snap(ac)
	abc := m.Combine(ab, c)
	abc0 := snap(abc)
	abb := m.Combine(ab, b)
	abb0 := snap(abb)
	zz.Assert(eq(ab, ab0) && eq(ac, ac0), l+": an earlier result is unchanged by a later Combine with the same left operand")
	zz.Assert(eq(abc, abc0) && eq(abb, abb0), l+": results built on a shared intermediate result stay intact")
	zz.Assert(eq(a, a0) && eq(b, b0) && eq(c, c0), l+": Combine does not modify its operands")
	zz.Assert(eq(m.Combine(a, b), ab0) && eq(m.Combine(ab0, c), abc0), l+": Combine is a function of the operand values")
}

func snapSlice(x []int) []int {
	if x == nil {
		return nil
	}
	return append([]int{}, x...)
}

func eqInt(x, y int) bool    { return x == y }
func eqBool(x, y bool) bool  { return x == y }
func eqStr(x, y string) bool { return x == y }

func sliceEq(a, b []int) bool {
	if len(a) != len(b) {
		return false
	}
	for i := range a {
		if a[i] != b[i] {
			return false
		}
	}
	return true
}

// ---- named instances

func VH_c11_sum_product() {
	a, b, c := zz.Int("a"), zz.Int("b"), zz.Int("c")
	monoidLaws(monoid.Sum[int](), a, b, c, eqInt, "monoid.Sum")
	zz.Assert(monoid.Sum[int]().Combine(a, b) == a+b && monoid.Sum[int]().Empty() == 0, "Sum adds")
	monoidLaws(fp.Sum[int](), a, b, c, eqInt, "fp.Sum")
	semiLaws(semigroup.Sum[int](), a, b, c, eqInt, "semigroup.Sum")
	zz.Assert(semigroup.Sum[int]().Combine(a, b) == a+b, "semigroup.Sum adds")
	zz.Assert(monoid.Product[int]().Combine(a, b) == a*b && monoid.Product[int]().Empty() == 1, "Product multiplies")
	zz.Assert(fp.Product[int]().Combine(a, b) == a*b && fp.Product[int]().Empty() == 1, "fp.Product multiplies")
	zz.Assert(semigroup.Product[int](0, 0).Combine(a, b) == a*b, "semigroup.Product multiplies")
}

func VH_c11_product_laws() {
	a, b, c := zz.Int("a"), zz.Int("b"), zz.Int("c")
	monoidLaws(monoid.Product[int](), a, b, c, eqInt, "monoid.Product")
	monoidLaws(fp.Product[int](), a, b, c, eqInt, "fp.Product")
}

func VH_c11_any_all() {
	a, b, c := zz.Bool("a"), zz.Bool("b"), zz.Bool("c")
	monoidLaws(monoid.Any, a, b, c, eqBool, "monoid.Any")
	monoidLaws(monoid.All, a, b, c, eqBool, "monoid.All")
	zz.Assert(monoid.Any.Combine(a, b) == (a || b), "Any is disjunction")
	zz.Assert(monoid.All.Combine(a, b) == (a && b), "All is conjunction")
	zz.Assert(semigroup.Any.Combine(a, b) == (a || b), "semigroup.Any is disjunction")
	zz.Assert(semigroup.All.Combine(a, b) == (a && b), "semigroup.All is conjunction")
	semiLaws(semigroup.Any, a, b, c, eqBool, "semigroup.Any")
	semiLaws(semigroup.All, a, b, c, eqBool, "semigroup.All")
}

func VH_c11_string() {
	n := zz.Bound("strlen", 2, 2)
	a, b, c := zz.Str("a", n), zz.Str("b", n), zz.Str("c", n)
	monoidLaws(monoid.String, a, b, c, eqStr, "monoid.String")
	zz.Assert(monoid.String.Combine(a, b) == a+b, "String concatenates")
}

func VH_c11_unit() {
	u := fp.Unit{}
	monoidLaws(monoid.Unit, u, u, u, func(x, y fp.Unit) bool { return x == y }, "monoid.Unit")
}

// ---- Option / Try / Ptr

func mkOpt(name string) fp.Option[int] {
	if zz.Bool(name + ".some") {
		return fp.Some(zz.Int(name + ".v"))
	}
	return fp.None[int]()
}

func optEq(a, b fp.Option[int]) bool {
	if a.IsDefined() != b.IsDefined() {
		return false
	}
	return a.IsEmpty() || a.Get() == b.Get()
}

func VH_c11_option() {
	a, b, c := mkOpt("a"), mkOpt("b"), mkOpt("c")
	monoidLaws(monoid.Option(monoid.Sum[int]()), a, b, c, optEq, "monoid.Option")
	semiLaws(semigroup.Option(semigroup.Sum[int]()), a, b, c, optEq, "semigroup.Option")
	s := semigroup.Option(semigroup.Sum[int]())
	zz.Assert(optEq(s.Combine(fp.None[int](), a), a) && optEq(s.Combine(a, fp.None[int]()), a), "semigroup.Option: None is neutral")
}

var errs = [3]error{errors.New("e0"), errors.New("e1"), errors.New("e2")}

func mkTry(name string, i int) fp.Try[int] {
	if zz.Bool(name + ".ok") {
		return fp.Success(zz.Int(name + ".v"))
	}
	return fp.Failure[int](errs[i])
}

func tryEq(a, b fp.Try[int]) bool {
	if a.IsSuccess() != b.IsSuccess() {
		return false
	}
	if a.IsSuccess() {
		return a.Get() == b.Get()
	}
	return a.Failed().Get() == b.Failed().Get()
}

func VH_c11_try() {
	a, b, c := mkTry("a", 0), mkTry("b", 1), mkTry("c", 2)
	monoidLaws(monoid.Try(monoid.Sum[int]()), a, b, c, tryEq, "monoid.Try")
	// meaning: successes are combined, otherwise the first failing operand's own error (left to right)
	calls := 0
	m := monoid.Try(monoid.New(func() int { return 0 }, func(x, y int) int { calls++; return x + y }))
	ab := m.Combine(a, b)
	switch {
	case a.IsFailure():
		zz.Assert(ab.IsFailure() && ab.Failed().Get() == errs[0] && calls == 0, "monoid.Try: the left operand's failure comes first")
	case b.IsFailure():
		zz.Assert(ab.IsFailure() && ab.Failed().Get() == errs[1] && calls == 0, "monoid.Try: the right operand's failure when the left succeeded")
	default:
		zz.Assert(ab.IsSuccess() && ab.Get() == a.Get()+b.Get() && calls == 1, "monoid.Try combines successes")
	}
	// and a fold over several failures reports the first one
	xs := fp.Seq[fp.Try[int]]{a, b, c}
	want := m.Combine(m.Combine(m.Combine(m.Empty(), a), b), c)
	zz.Assert(tryEq(seq.Reduce(xs, m), want) && tryEq(iterator.Reduce(iterator.FromSeq(xs), m), want) && tryEq(list.Reduce(list.FromSeq(xs), m), want), "Reduce over monoid.Try = left fold from Empty")
	first := -1
	for i, t := range xs {
		if t.IsFailure() && first < 0 {
			first = i
		}
	}
	if first >= 0 {
		zz.Assert(want.IsFailure() && want.Failed().Get() == errs[first], "fold over monoid.Try reports the first failure in order")
	}
}

func mkPtr(name string) *int {
	if zz.Bool(name + ".nonnil") {
		v := zz.Int(name + ".v")
		return &v
	}
	return nil
}

func ptrEq(a, b *int) bool {
	if a == nil || b == nil {
		return a == nil && b == nil
	}
	return *a == *b
}

func VH_c11_ptr() {
	a, b, c := mkPtr("a"), mkPtr("b"), mkPtr("c")
	// the operands may be the very same pointer
	switch zz.Choice("alias", 4) {
	case 1:
		b = a
	case 2:
		c = b
	case 3:
		b, c = a, a
	}
	monoidLaws(monoid.Ptr(lazy.Done(monoid.Sum[int]())), a, b, c, ptrEq, "monoid.Ptr")
	semiLaws(semigroup.Ptr(lazy.Done(semigroup.Sum[int]())), a, b, c, ptrEq, "semigroup.Ptr")
	// meaning: nil is the identity, otherwise the targets are combined (also for p . p)
	ab := monoid.Ptr(lazy.Done(monoid.Sum[int]())).Combine(a, b)
	switch {
	case a == nil:
		zz.Assert(ptrEq(ab, b), "monoid.Ptr: nil . b = b")
	case b == nil:
		zz.Assert(ptrEq(ab, a), "monoid.Ptr: a . nil = a")
	default:
		zz.Assert(ab != nil && *ab == *a+*b, "monoid.Ptr combines the targets")
	}
}

// ---- Merge*

func VH_c11_merge_seq_slice() {
	n := zz.Bound("seqlen", 2, 2)
	a, b, c := zz.SliceInt("a", n, 1, 0), zz.SliceInt("b", n, 1, 0), zz.SliceInt("c", n, 0, 0)
	eqSeq := func(x, y fp.Seq[int]) bool { return sliceEq(x, y) }
	monoidLaws(monoid.MergeSeq[int](), fp.Seq[int](a), fp.Seq[int](b), fp.Seq[int](c), eqSeq, "MergeSeq")
	monoidLaws(monoid.MergeSlice[int](), a, b, c, sliceEq, "MergeSlice")
	ab := monoid.MergeSlice[int]().Combine(a, b)
	zz.Assert(sliceEq(ab, append(append([]int{}, a...), b...)), "MergeSlice concatenates left then right")
}

func VH_c11_merge_seq_slice_values() {
	n := zz.Bound("seqlen", 2, 2)
	a, b, c := zz.SliceInt("a", n, 2, 0), zz.SliceInt("b", n, 1, 0), zz.SliceInt("c", n, 1, 0)
	eqSeq := func(x, y fp.Seq[int]) bool { return sliceEq(x, y) }
	snapSeq := func(x fp.Seq[int]) fp.Seq[int] { return snapSlice(x) }
	if zz.Bool("seq") {
		valueLaws[fp.Seq[int]](monoid.MergeSeq[int](), fp.Seq[int](a), fp.Seq[int](b), fp.Seq[int](c), eqSeq, snapSeq, "MergeSeq")
	} else {
		valueLaws[[]int](monoid.MergeSlice[int](), a, b, c, sliceEq, snapSlice, "MergeSlice")
	}
}

func mkMap(name string, n int) map[int]int {
	if zz.Bool(name + ".nil") {
		return nil // a nil map is an ordinary (empty) operand
	}
	m := map[int]int{}
	k := zz.Choice(name+".n", n+1)
	for i := 0; i < k; i++ {
		m[zz.Int(name+".k"+string(rune('0'+i)))] = zz.Int(name + ".v" + string(rune('0'+i)))
	}
	return m
}

func mapEq(a, b map[int]int) bool {
	if len(a) != len(b) {
		return false
	}
	for k, v := range a {
		w, ok := b[k]
		if !ok || w != v {
			return false
		}
	}
	return true
}

func VH_c11_merge_gomap() {
	zz.Config("mapperm", 0)
	a, b := mkMap("a", 2), mkMap("b", 2)
	m := monoid.MergeGoMap[int, int]()
	ab := m.Combine(a, b)
	p := zz.Int("probe")
	bv, bok := b[p]
	av, aok := a[p]
	gv, gok := ab[p]
	zz.Assert(gok == (aok || bok), "MergeGoMap: union of keys")
	if bok {
		zz.Assert(gv == bv, "MergeGoMap: right bias")
	} else if aok {
		zz.Assert(gv == av, "MergeGoMap: left value kept when absent on the right")
	}
	zz.Assert(mapEq(m.Combine(m.Empty(), a), a) && mapEq(m.Combine(a, m.Empty()), a), "MergeGoMap: identity")
}

// Go maps are mutable: Combine must build a new map and leave both operands (and earlier results) alone,
// also when the two operands are the same map
func VH_c11_merge_gomap_values() {
	zz.Config("mapperm", 0)
	a, b, c := mkMap("a", 2), mkMap("b", 1), mkMap("c", 1)
	switch zz.Choice("alias", 3) {
	case 1:
		b = a
	case 2:
		c = a
	}
	snap := func(m map[int]int) map[int]int {
		if m == nil {
			return nil
		}
		r := map[int]int{}
		for k, v := range m {
			r[k] = v
		}
		return r
	}
	valueLaws[map[int]int](monoid.MergeGoMap[int, int](), a, b, c, mapEq, snap, "MergeGoMap")
}

func VH_c11_merge_gomap_assoc() {
	zz.Config("mapperm", 0)
	a, b, c := mkMap("a", 1), mkMap("b", 2), mkMap("c", 1)
	semiLaws[map[int]int](monoid.MergeGoMap[int, int](), a, b, c, mapEq, "MergeGoMap")
}

// ---- function-valued monoids, compared extensionally at a symbolic point

func endo(name string) fp.Endo[int] {
	return func(x int) int { return zz.UFInt(name, x) }
}

func VH_c11_endo_dual() {
	x := zz.Int("x")
	eqEndo := func(f, g fp.Endo[int]) bool { return f(x) == g(x) }
	a, b, c := endo("fa"), endo("fb"), endo("fc")
	monoidLaws(monoid.Endo[int](), a, b, c, eqEndo, "monoid.Endo")
	semiLaws(semigroup.Endo[int](), a, b, c, eqEndo, "semigroup.Endo")
	zz.Assert(monoid.Endo[int]().Combine(a, b)(x) == a(b(x)), "Endo composes (Combine(a,b) = a after b)")
	zz.Assert(monoid.Endo[int]().Empty()(x) == x, "Endo identity")

	// Dual flips the argument order of the wrapped monoid (observable on a non-commutative one)
	n := 2
	s1, s2, s3 := zz.Str("s1", n), zz.Str("s2", n), zz.Str("s3", n)
	d := monoid.Dual(monoid.String)
	eqD := func(p, q fp.Dual[string]) bool { return p.GetDual == q.GetDual }
	monoidLaws(d, fp.Dual[string]{GetDual: s1}, fp.Dual[string]{GetDual: s2}, fp.Dual[string]{GetDual: s3}, eqD, "monoid.Dual")
	zz.Assert(d.Combine(fp.Dual[string]{GetDual: s1}, fp.Dual[string]{GetDual: s2}).GetDual == s2+s1, "Dual flips")
	zz.Assert(semigroup.Dual[string](monoid.String).Combine(fp.Dual[string]{GetDual: s1}, fp.Dual[string]{GetDual: s2}).GetDual == s2+s1, "semigroup.Dual flips")
}

func VH_c11_eval() {
	a, b, c := zz.Int("a"), zz.Int("b"), zz.Int("c")
	eqE := func(p, q lazy.Eval[int]) bool { return p.Get() == q.Get() }
	monoidLaws(monoid.Eval(monoid.Sum[int]()), lazy.Done(a), lazy.Call(func() int { return b }), lazy.Done(c), eqE, "monoid.Eval")
	semiLaws(semigroup.Eval(semigroup.Sum[int]()), lazy.Done(a), lazy.Done(b), lazy.Done(c), eqE, "semigroup.Eval")
}

func VH_c11_imap() {
	// isomorphism int <-> int given by an uninterpreted pair with fba(fab(x)) = x assumed at the points used
	fab := func(x int) int { return zz.UFInt("fab", x) }
	fba := func(x int) int { return zz.UFInt("fba", x) }
	a, b, c := zz.Int("a"), zz.Int("b"), zz.Int("c")
	m := monoid.IMap(monoid.Sum[int](), fab, fba)
	iso := func(v int) { zz.Assume(fba(fab(v)) == v) }
	iso(fba(a) + fba(b))
	iso(fba(b) + fba(c))
	iso(0)
	zz.Assume(fab(fba(a)) == a)
	monoidLaws(m, a, b, c, eqInt, "monoid.IMap")
	zz.Assert(m.Combine(a, b) == fab(fba(a)+fba(b)), "IMap transports Combine")
	s := semigroup.IMap(semigroup.Sum[int](), fab, fba)
	zz.Assert(s.Combine(a, b) == fab(fba(a)+fba(b)), "semigroup.IMap transports Combine")
}

func VH_c11_hcons() {
	type H = hlist.Cons[int, hlist.Cons[string, hlist.Nil]]
	mk := func(n string) H {
		return hlist.Concat(zz.Int(n+".i"), hlist.Concat(zz.Str(n+".s", 1), hlist.Empty()))
	}
	eqH := func(x, y H) bool {
		return x.Head() == y.Head() && hlist.Tail(x).Head() == hlist.Tail(y).Head()
	}
	m := monoid.HCons(monoid.Sum[int](), monoid.HCons(monoid.String, monoid.HNil))
	a, b, c := mk("a"), mk("b"), mk("c")
	monoidLaws(m, a, b, c, eqH, "monoid.HCons")
	ab := m.Combine(a, b)
	zz.Assert(ab.Head() == a.Head()+b.Head() && hlist.Tail(ab).Head() == hlist.Tail(a).Head()+hlist.Tail(b).Head(), "HCons combines component-wise")
}

// ---- Reduce / FoldMap = left fold from Empty (lawful monoids: String detects reordering, Sum)

func strs(name string, n int) []string {
	k := zz.Choice(name+".n", n+1)
	var out []string
	for i := 0; i < k; i++ {
		out = append(out, zz.Str(name+string(rune('0'+i)), 1))
	}
	return out
}

func VH_c11_reduce_string() {
	n := zz.Bound("reducelen", 3, 4)
	xs := strs("x", n)
	want := ""
	for _, s := range xs {
		want = want + s
	}
	zz.Assert(seq.Reduce(fp.Seq[string](xs), monoid.String) == want, "seq.Reduce = left fold")
	zz.Assert(iterator.Reduce(iterator.FromSeq(xs), monoid.String) == want, "iterator.Reduce = left fold")
	zz.Assert(list.Reduce(list.FromSeq(xs), monoid.String) == want, "list.Reduce = left fold")
}

func VH_c11_reduce_sum() {
	n := zz.Bound("reducelen", 3, 4)
	xs := zz.SliceInt("xs", n, 0, 0)
	want := 0
	for _, x := range xs {
		want += x
	}
	zz.Assert(seq.Reduce(fp.Seq[int](xs), monoid.Sum[int]()) == want, "seq.Reduce(Sum)")
	zz.Assert(iterator.Reduce(iterator.FromSeq(xs), monoid.Sum[int]()) == want, "iterator.Reduce(Sum)")
	zz.Assert(list.Reduce(list.FromSeq(xs), monoid.Sum[int]()) == want, "list.Reduce(Sum)")
}

// Reduce starts from Empty - which matters for the empty input when Empty is not the zero value of the carrier
// (Product: 1, All: true, Option(Sum): Some(0)) - and FoldMap agrees with it
func VH_c11_reduce_empty_is_identity() {
	n := zz.Bound("reducelen2", 2, 3)
	xs := zz.SliceInt("xs", n, 0, 0)
	wantP := 1
	for _, x := range xs {
		wantP = wantP * x
	}
	p := monoid.Product[int]()
	zz.Assert(seq.Reduce(fp.Seq[int](xs), p) == wantP, "seq.Reduce(Product) = fold from 1")
	zz.Assert(iterator.Reduce(iterator.FromSeq(xs), p) == wantP, "iterator.Reduce(Product) = fold from 1")
	zz.Assert(list.Reduce(list.FromSeq(xs), p) == wantP, "list.Reduce(Product) = fold from 1")
	zz.Assert(seq.FoldMap(fp.Seq[int](xs), p, func(x int) int { return x }) == wantP, "seq.FoldMap(Product, id) = fold from 1")
	bs := make([]bool, len(xs))
	wantA := true
	for i, x := range xs {
		bs[i] = zz.UFBool("b", x)
		wantA = wantA && bs[i]
	}
	zz.Assert(seq.Reduce(fp.Seq[bool](bs), monoid.All) == wantA, "seq.Reduce(All) = fold from true")
	zz.Assert(iterator.Reduce(iterator.FromSeq(bs), monoid.All) == wantA, "iterator.Reduce(All) = fold from true")
	zz.Assert(list.Reduce(list.FromSeq(bs), monoid.All) == wantA, "list.Reduce(All) = fold from true")
	mo := monoid.Option(monoid.Sum[int]())
	os := make([]fp.Option[int], len(xs))
	wantO := mo.Empty()
	for i, x := range xs {
		os[i] = fp.Some(x)
		wantO = mo.Combine(wantO, os[i])
	}
	zz.Assert(optEq(seq.Reduce(fp.Seq[fp.Option[int]](os), mo), wantO), "seq.Reduce(Option(Sum)) = fold from Empty")
	zz.Assert(optEq(iterator.Reduce(iterator.FromSeq(os), mo), wantO), "iterator.Reduce(Option(Sum)) = fold from Empty")
	zz.Assert(optEq(list.Reduce(list.FromSeq(os), mo), wantO), "list.Reduce(Option(Sum)) = fold from Empty")
}

// Reduce over lists of every representation (slice-backed, cons chain, cons prefix in front of a slice-backed or
// lazy tail) with a non-commutative monoid equals the left-to-right fold
func VH_c11_reduce_list_shapes() {
	n := zz.Bound("reducelen3", 3, 4)
	xs := zz.SliceInt("xs", n, 0, 0)
	strs := make([]string, len(xs))
	want := ""
	for i, x := range xs {
		strs[i] = string([]byte{byte('a' + zz.UFInt("ch", x)&3)})
		want += strs[i]
	}
	k := zz.IntIn("prefix", 0, len(strs))
	var l fp.List[string]
	switch zz.Choice("tail", 3) {
	case 0:
		l = list.FromSeq(append([]string{}, strs[k:]...))
	case 1:
		rest := strs[k:]
		l = list.Generate(func(i int) fp.Option[string] {
			if i < len(rest) {
				return fp.Some(rest[i])
			}
			return fp.None[string]()
		})
	case 2:
		l = list.Empty[string]()
		for i := len(strs) - 1; i >= k; i-- {
			l = list.Concat(strs[i], l)
		}
	}
	for i := k - 1; i >= 0; i-- {
		l = list.Concat(strs[i], l) // cons cells in front
	}
	zz.Assert(list.Reduce(l, monoid.String) == want, "list.Reduce(String) over a cons prefix and any tail = left-to-right fold")
	zz.Assert(list.FoldMap(l, monoid.String, func(s string) string { return s }) == want, "list.FoldMap(String, id) = left-to-right fold")
	zz.Assert(seq.Reduce(fp.Seq[string](strs), monoid.String) == want && iterator.Reduce(iterator.FromSeq(strs), monoid.String) == want, "seq/iterator Reduce agree")
}

func VH_c11_foldmap() {
	n := zz.Bound("reducelen", 3, 4)
	xs := zz.SliceInt("xs", n, 0, 0)
	f := func(x int) string {
		if zz.UFBool("f.empty", x) {
			return ""
		}
		return string([]byte{byte(zz.UFInt("f.ch", x))})
	}
	want := ""
	for _, x := range xs {
		want = want + f(x)
	}
	zz.Assert(seq.FoldMap(fp.Seq[int](xs), monoid.String, f) == want, "seq.FoldMap = left fold of Combine over f")
	zz.Assert(list.FoldMap(list.FromSeq(xs), monoid.String, f) == want, "list.FoldMap = left fold of Combine over f")
	g := func(x int) int { return zz.UFInt("g", x) }
	ws := 0
	for _, x := range xs {
		ws += g(x)
	}
	zz.Assert(seq.FoldMap(fp.Seq[int](xs), monoid.Sum[int](), g) == ws, "seq.FoldMap(Sum)")
	zz.Assert(list.FoldMap(list.FromSeq(xs), monoid.Sum[int](), g) == ws, "list.FoldMap(Sum)")
}

func VH_c11_fold_using_map() {
	n := zz.Bound("reducelen2", 3, 3)
	xs := zz.SliceInt("xs", n, 0, 0)
	f := func(b, a int) int { return zz.UFInt("f", b, a) }
	z := zz.Int("z")
	wl := z
	for _, x := range xs {
		wl = f(wl, x)
	}
	zz.Assert(list.FoldLeftUsingMap(list.FromSeq(xs), z, f) == wl, "FoldLeftUsingMap = left fold (Dual Endo)")
	g := func(a, b int) int { return zz.UFInt("g", a, b) }
	wr := z
	for i := len(xs) - 1; i >= 0; i-- {
		wr = g(xs[i], wr)
	}
	zz.Assert(list.FoldRightUsingMap(list.FromSeq(xs), z, g) == wr, "FoldRightUsingMap = right fold (Endo)")
}

// Option over inner semigroups whose Go zero value is NOT neutral (last, min, product): None is the identity on
// both sides, two Somes combine through the inner Combine, and the result is associative.
func VH_c11_option_inner_zero_not_neutral() {
	a, b, c := mkOpt("a"), mkOpt("b"), mkOpt("c")
	var op func(x, y int) int
	switch zz.Choice("inner", 3) {
	case 0:
		op = func(x, y int) int { return y } // last
	case 1:
		op = func(x, y int) int { return min(x, y) }
	case 2:
		op = func(x, y int) int { return x * y }
	}
	want := func(x, y fp.Option[int]) fp.Option[int] {
		switch {
		case x.IsEmpty():
			return y
		case y.IsEmpty():
			return x
		}
		return fp.Some(op(x.Get(), y.Get()))
	}
	s := semigroup.Option(semigroup.New(op))
	zz.Assert(optEq(s.Combine(a, b), want(a, b)), "semigroup.Option: None is neutral on both sides, Somes combine through the inner semigroup")
	zz.Assert(optEq(s.Combine(s.Combine(a, b), c), s.Combine(a, s.Combine(b, c))), "semigroup.Option: associative over an inner semigroup whose zero value is not neutral")
}
