//verif:overlay internal/zzverif_h/c06/apply.go
package c06

import (
	"runtime"

	"github.com/csgura/fp"
	"github.com/csgura/fp/future"
	zz "github.com/csgura/fp/internal/zzverif"
)

type panicker interface{ Panic() any }

// A future created by Apply / Apply2 / FuncN / UnitN always completes: with the function's result, with its
// returned error, or - whatever is thrown: an arbitrary value, an error, a genuine runtime error - with a Failure
// that exposes the panic value. Inline and default (goroutine) executor, all schedules.
func VH_c06_apply_always_completes() {
	x := zz.Int("x")
	pv := zz.Int("panicvalue")
	mode := zz.Choice("mode", 8) // 0 return, 1 return error, 2.. panic kinds
	var ex []fp.Executor
	if zz.Bool("inline") {
		ex = []fp.Executor{inline{}}
	} else {
		zz.Config("preempt", zz.Bound("preempt.apply", 1, 2))
	}
	var nilMap map[int]int
	var nilPtr *int
	var anyV any = "s"
	short := []int{1}
	body := func(a int) (int, error) {
		switch mode {
		case 1:
			return 0, eA
		case 2:
			panic(pv)
		case 3:
			panic(eB)
		case 4:
			nilMap[1] = 1
		case 5:
			return short[a&1+1], nil
		case 6:
			return *nilPtr, nil
		case 7:
			return anyV.(int), nil
		}
		return zz.UFInt("f", a), nil
	}
	var fs []fp.Future[int]
	switch zz.Choice("constructor", 4) {
	case 0:
		fs = append(fs, future.Apply2(func() (int, error) { return body(x) }, ex...))
	case 1:
		if mode == 1 {
			mode = 0
		}
		fs = append(fs, future.Apply(func() int { v, _ := body(x); return v }, ex...))
	case 2:
		fs = append(fs, future.Func1(body, ex...)(x))
	case 3:
		fs = append(fs, future.Map(future.Unit1(func(a int) error { _, e := body(a); return e }, ex...)(x), func(fp.Unit) int { return zz.UFInt("f", x) }, inline{}))
	}
	zz.Quiesce()
	for _, f := range fs {
		zz.Assert(f.IsCompleted(), "a future created by Apply/Apply2/FuncN/UnitN always completes")
		if !f.IsCompleted() {
			continue
		}
		v := f.Value()
		switch {
		case mode == 0:
			zz.Assert(v.IsSuccess() && v.Get() == zz.UFInt("f", x), "normal return is a Success")
		case mode == 1:
			zz.Assert(v.IsFailure() && v.Failed().Get() == eA, "a returned error is the Failure, unchanged")
		default:
			p, ok := v.Failed().Get().(panicker)
			zz.Assert(v.IsFailure() && ok, "a panic becomes a Failure")
			if ok {
				switch mode {
				case 2:
					zz.Assert(p.Panic() == any(pv), "the Failure exposes the panic value")
				case 3:
					zz.Assert(p.Panic() == any(eB), "the Failure exposes a panicked error")
				default:
					_, re := p.Panic().(runtime.Error)
					zz.Assert(re, "the Failure exposes the runtime error")
				}
			}
		}
	}
}
