package gosym

import (
	"fmt"
	"go/types"
	"math"
	"strings"

	"golang.org/x/tools/go/ssa"

	"verif/engine/sym"
)

const ZZ = "github.com/csgura/fp/internal/zzverif."

// ZZScratch: the same intrinsics when the harness lives in a scratch module outside the fp module
const ZZScratch = "scratchmod/zzverif."

type extFn func(m *Machine, caller *frame, fn *ssa.Function, args []Value) Value

var externals map[string]extFn

func (m *Machine) cstr(v Value, what string) string {
	s, ok := m.ConcreteStr(v.(StrV))
	if !ok {
		m.unsupported(what + ": string argument must be concrete")
	}
	return s
}

func (m *Machine) cint(v Value, what string) int {
	t := v.(*sym.Term)
	if !t.IsConst() {
		m.unsupported(what + ": int argument must be concrete")
	}
	return int(t.SVal())
}

func (m *Machine) freshName(name string) string {
	k := m.nameCount[name]
	m.nameCount[name] = k + 1
	if k == 0 {
		return name
	}
	return fmt.Sprintf("%s#%d", name, k)
}

func (m *Machine) nondet(kind, name string, w int) *sym.Term {
	n := m.freshName(name)
	t := m.S.Var(n, w)
	m.Tape = append(m.Tape, TapeEntry{Kind: kind, Name: n, T: t, W: w})
	return t
}

func (m *Machine) choice(name string, n int) int {
	k := m.Choose(n)
	m.Tape = append(m.Tape, TapeEntry{Kind: "choice", Name: m.freshName(name), Conc: int64(k)})
	return k
}

func (m *Machine) ufArgs(v Value) []*sym.Term {
	var ts []*sym.Term
	for _, e := range m.sliceElems(v.(SliceV)) {
		ts = append(ts, e.(*sym.Term))
	}
	return ts
}

func init() {
	externals = map[string]extFn{
		// ---------------- intrinsics
		ZZ + "Int": func(m *Machine, c *frame, fn *ssa.Function, a []Value) Value {
			return m.nondet("int", m.cstr(a[0], "Int"), 64)
		},
		ZZ + "Uint32": func(m *Machine, c *frame, fn *ssa.Function, a []Value) Value {
			return m.nondet("u32", m.cstr(a[0], "Uint32"), 32)
		},
		ZZ + "Uint64": func(m *Machine, c *frame, fn *ssa.Function, a []Value) Value {
			return m.nondet("u64", m.cstr(a[0], "Uint64"), 64)
		},
		ZZ + "Byte": func(m *Machine, c *frame, fn *ssa.Function, a []Value) Value {
			return m.nondet("byte", m.cstr(a[0], "Byte"), 8)
		},
		ZZ + "Bool": func(m *Machine, c *frame, fn *ssa.Function, a []Value) Value {
			return m.nondet("bool", m.cstr(a[0], "Bool"), 0)
		},
		ZZ + "IntIn": func(m *Machine, c *frame, fn *ssa.Function, a []Value) Value {
			t := m.nondet("int", m.cstr(a[0], "IntIn"), 64)
			lo, hi := a[1].(*sym.Term), a[2].(*sym.Term)
			m.Assume(m.S.And(m.S.Cmp("bvsle", lo, t), m.S.Cmp("bvsle", t, hi)))
			return t
		},
		ZZ + "Time": func(m *Machine, c *frame, fn *ssa.Function, a []Value) Value {
			name := m.cstr(a[0], "Time")
			sec := m.nondet("int", name+".sec", 64)
			nsec := m.nondet("int", name+".nsec", 64)
			lim := m.S.Const(64, 1<<40)
			m.Assume(m.S.And(m.S.Cmp("bvsle", m.S.BvNeg(lim), sec), m.S.Cmp("bvsle", sec, lim)))
			m.Assume(m.S.And(m.S.Cmp("bvsle", m.S.Const(64, 0), nsec), m.S.Cmp("bvslt", nsec, m.S.Const(64, 1000000000))))
			st := under(fn.Signature.Results().At(0).Type()).(*types.Struct)
			out := make(StructV, st.NumFields())
			for i := 0; i < st.NumFields(); i++ {
				switch st.Field(i).Name() {
				case "wall":
					out[i] = nsec
				case "ext":
					out[i] = m.S.Bin("bvadd", sec, m.S.Const(64, 62135596800))
				case "loc":
					out[i] = PtrV{}
				default:
					m.unsupported("time.Time has an unknown field " + st.Field(i).Name())
				}
			}
			return out
		},
		ZZ + "Choice": func(m *Machine, c *frame, fn *ssa.Function, a []Value) Value {
			k := m.choice(m.cstr(a[0], "Choice"), m.cint(a[1], "Choice n"))
			return m.S.Const(64, uint64(k))
		},
		ZZ + "Str": func(m *Machine, c *frame, fn *ssa.Function, a []Value) Value {
			name := m.cstr(a[0], "Str")
			mx := m.cint(a[1], "Str maxLen")
			n := m.choice(name+".len", mx+1)
			b := make([]*sym.Term, n)
			for i := range b {
				b[i] = m.nondet("byte", fmt.Sprintf("%s[%d]", name, i), 8)
			}
			return StrV{B: b}
		},
		ZZ + "SliceInt": func(m *Machine, c *frame, fn *ssa.Function, a []Value) Value {
			name := m.cstr(a[0], "SliceInt")
			maxLen, maxSpare, maxOff := m.cint(a[1], "maxLen"), m.cint(a[2], "maxSpare"), m.cint(a[3], "maxOff")
			isNil := false
			n := m.choice(name+".len", maxLen+2) - 1 // -1 = nil slice
			if n < 0 {
				isNil = true
				n = 0
			}
			if isNil {
				return SliceV{}
			}
			spare := m.choice(name+".spare", maxSpare+1)
			off := m.choice(name+".off", maxOff+1)
			total := off + n + spare
			arr := make(ArrayV, total)
			for i := range arr {
				arr[i] = m.nondet("int", fmt.Sprintf("%s[%d]", name, i-off), 64)
			}
			et := types.Typ[types.Int]
			return SliceV{Arr: m.newObj(arr, "input slice "+name, et), Off: off, Len: n, Cap: n + spare}
		},
		ZZ + "UFInt": func(m *Machine, c *frame, fn *ssa.Function, a []Value) Value {
			name := m.cstr(a[0], "UFInt")
			args := m.ufArgs(a[1])
			t := m.S.UF(name, 64, args...)
			m.Tape = append(m.Tape, TapeEntry{Kind: "uf", Name: name, T: t, Args: args, W: 64})
			return t
		},
		ZZ + "UFBool": func(m *Machine, c *frame, fn *ssa.Function, a []Value) Value {
			name := m.cstr(a[0], "UFBool")
			args := m.ufArgs(a[1])
			t := m.S.UF(name, 0, args...)
			m.Tape = append(m.Tape, TapeEntry{Kind: "uf", Name: name, T: t, Args: args, W: 0})
			return t
		},
		ZZ + "Assume": func(m *Machine, c *frame, fn *ssa.Function, a []Value) Value {
			m.Assume(a[0].(*sym.Term))
			return nil
		},
		ZZ + "Assert": func(m *Machine, c *frame, fn *ssa.Function, a []Value) Value {
			m.AssertProp(a[0].(*sym.Term), m.cstr(a[1], "Assert label"))
			return nil
		},
		ZZ + "BAnd": func(m *Machine, c *frame, fn *ssa.Function, a []Value) Value {
			return m.S.And(a[0].(*sym.Term), a[1].(*sym.Term))
		},
		ZZ + "BOr": func(m *Machine, c *frame, fn *ssa.Function, a []Value) Value {
			return m.S.Or(a[0].(*sym.Term), a[1].(*sym.Term))
		},
		ZZ + "BNot": func(m *Machine, c *frame, fn *ssa.Function, a []Value) Value {
			return m.S.Not(a[0].(*sym.Term))
		},
		ZZ + "Ite": func(m *Machine, c *frame, fn *ssa.Function, a []Value) Value {
			return m.S.Ite(a[0].(*sym.Term), a[1].(*sym.Term), a[2].(*sym.Term))
		},
		ZZ + "BIte": func(m *Machine, c *frame, fn *ssa.Function, a []Value) Value {
			return m.S.Ite(a[0].(*sym.Term), a[1].(*sym.Term), a[2].(*sym.Term))
		},
		ZZ + "Eq": func(m *Machine, c *frame, fn *ssa.Function, a []Value) Value {
			return m.S.Eq(a[0].(*sym.Term), a[1].(*sym.Term))
		},
		ZZ + "Reach": func(m *Machine, c *frame, fn *ssa.Function, a []Value) Value {
			m.Reached[m.cstr(a[0], "Reach")] = true
			return nil
		},
		ZZ + "Bound": func(m *Machine, c *frame, fn *ssa.Function, a []Value) Value {
			name := m.cstr(a[0], "Bound")
			q, t := m.cint(a[1], "Bound quick"), m.cint(a[2], "Bound thorough")
			v := q
			if m.E.Tier == "thorough" {
				v = t
			}
			m.Bounds[name] = v
			return m.S.Const(64, uint64(v))
		},
		ZZ + "Config": func(m *Machine, c *frame, fn *ssa.Function, a []Value) Value {
			key := m.cstr(a[0], "Config")
			v := m.cint(a[1], "Config value")
			switch key {
			case "loop":
				m.Lim.LoopBound = v
			case "depth":
				m.Lim.MaxDepth = v
			case "steps":
				m.Lim.MaxSteps = v
			case "mapperm":
				m.Lim.MapPermMax = v
			case "preempt":
				m.Lim.Preempt = v
				if m.sched != nil {
					m.sched.maxPre = v
				}
			default:
				m.unsupported("unknown Config key " + key)
			}
			m.Bounds["cfg."+key] = v
			return nil
		},
		ZZ + "Freeze": func(m *Machine, c *frame, fn *ssa.Function, a []Value) Value {
			m.freeze(m.cstr(a[0], "Freeze label"), m.sliceElems(a[1].(SliceV)))
			return nil
		},
		ZZ + "CheckFrozen": func(m *Machine, c *frame, fn *ssa.Function, a []Value) Value {
			m.checkFrozen(m.cstr(a[0], "CheckFrozen label"))
			return nil
		},
		ZZ + "Disjoint": func(m *Machine, c *frame, fn *ssa.Function, a []Value) Value {
			return m.S.Bool(m.disjoint(a[0], a[1]))
		},
		ZZ + "DeepEq": func(m *Machine, c *frame, fn *ssa.Function, a []Value) Value {
			return m.deepEq(a[0], a[1], 0)
		},
		ZZ + "StackMark": func(m *Machine, c *frame, fn *ssa.Function, a []Value) Value {
			m.peak = m.depth
			m.depthMark = m.depth
			return nil
		},
		ZZ + "PeakDepth": func(m *Machine, c *frame, fn *ssa.Function, a []Value) Value {
			return m.S.Const(64, uint64(m.peak-m.depthMark))
		},
		ZZ + "Spawn": func(m *Machine, c *frame, fn *ssa.Function, a []Value) Value {
			m.spawn(c, a[0].(FuncV), nil)
			return nil
		},
		ZZ + "Yield": func(m *Machine, c *frame, fn *ssa.Function, a []Value) Value {
			m.schedPoint("yield")
			return nil
		},
		ZZ + "Quiesce": func(m *Machine, c *frame, fn *ssa.Function, a []Value) Value {
			m.Quiesce()
			return nil
		},
		ZZ + "Replaying": func(m *Machine, c *frame, fn *ssa.Function, a []Value) Value {
			return m.S.False()
		},

		// ---------------- sync/atomic
		"sync/atomic.LoadPointer":           atomicLoad,
		"sync/atomic.LoadInt32":             atomicLoad,
		"sync/atomic.LoadInt64":             atomicLoad,
		"sync/atomic.LoadUint32":            atomicLoad,
		"sync/atomic.LoadUint64":            atomicLoad,
		"sync/atomic.LoadUintptr":           atomicLoad,
		"sync/atomic.StorePointer":          atomicStore,
		"sync/atomic.StoreInt32":            atomicStore,
		"sync/atomic.StoreInt64":            atomicStore,
		"sync/atomic.StoreUint32":           atomicStore,
		"sync/atomic.StoreUint64":           atomicStore,
		"sync/atomic.StoreUintptr":          atomicStore,
		"sync/atomic.CompareAndSwapPointer": atomicCAS,
		"sync/atomic.CompareAndSwapInt32":   atomicCAS,
		"sync/atomic.CompareAndSwapInt64":   atomicCAS,
		"sync/atomic.CompareAndSwapUint32":  atomicCAS,
		"sync/atomic.CompareAndSwapUint64":  atomicCAS,
		"sync/atomic.AddInt32":              atomicAdd,
		"sync/atomic.AddInt64":              atomicAdd,
		"sync/atomic.AddUint32":             atomicAdd,
		"sync/atomic.AddUint64":             atomicAdd,
		"sync/atomic.SwapPointer":           atomicSwap,
		"sync/atomic.SwapInt32":             atomicSwap,
		"sync/atomic.SwapInt64":             atomicSwap,
		"(*sync/atomic.Value).Load": func(m *Machine, c *frame, fn *ssa.Function, a []Value) Value {
			m.schedPoint("atomic.Value.Load")
			p := a[0].(PtrV)
			return m.Load(PtrV{p.Obj, extPath(p.Path, 0)})
		},
		"(*sync/atomic.Value).Store": func(m *Machine, c *frame, fn *ssa.Function, a []Value) Value {
			m.schedPoint("atomic.Value.Store")
			if a[1].(IfaceV).T == nil {
				m.runtimePanic("sync/atomic: store of nil value into Value")
			}
			p := a[0].(PtrV)
			m.Store(PtrV{p.Obj, extPath(p.Path, 0)}, a[1])
			return nil
		},
		"(*sync/atomic.Value).CompareAndSwap": func(m *Machine, c *frame, fn *ssa.Function, a []Value) Value {
			m.schedPoint("atomic.Value.CAS")
			p := a[0].(PtrV)
			cell := PtrV{p.Obj, extPath(p.Path, 0)}
			cur := m.Load(cell)
			eq := m.Equal(types.NewInterfaceType(nil, nil), cur, a[1])
			if m.Branch(eq) {
				m.Store(cell, a[2])
				return m.S.True()
			}
			return m.S.False()
		},

		// ---------------- sync
		"(*sync.Mutex).Lock":      mutexLock,
		"(*sync.Mutex).Unlock":    mutexUnlock,
		"(*sync.RWMutex).Lock":    mutexLock,
		"(*sync.RWMutex).Unlock":  mutexUnlock,
		"(*sync.RWMutex).RLock":   mutexLock,
		"(*sync.RWMutex).RUnlock": mutexUnlock,
		"(*sync.Mutex).TryLock": func(m *Machine, c *frame, fn *ssa.Function, a []Value) Value {
			m.schedPoint("mutex trylock")
			cell := mutexCell(a[0].(PtrV))
			if m.Load(cell).(*sym.Term).C != 0 {
				return m.S.False()
			}
			m.Store(cell, m.S.Const(32, 1))
			return m.S.True()
		},
		// sync.Once as a primitive: one scheduling point on entry, callers arriving while f runs block until it
		// has finished, one scheduling point after f. State lives in the Once's own done/mutex words.
		"(*sync.Once).Do": func(m *Machine, c *frame, fn *ssa.Function, a []Value) Value {
			p := a[0].(PtrV)
			if p.Obj == nil {
				m.runtimePanic("runtime error: invalid memory address or nil pointer dereference")
			}
			cell := mutexCell(p) // first word of the struct: 0 = fresh, 1 = running, 2 = done
			get := func() uint64 { return getPath(cell.Obj.Val, cell.Path).(*sym.Term).C }
			w := getPath(cell.Obj.Val, cell.Path).(*sym.Term).W
			m.schedPoint("once")
			if get() == 2 {
				return nil
			}
			if get() == 1 {
				m.blockOn(func() bool { return get() == 2 }, "once in progress")
				return nil
			}
			m.Store(cell, m.S.Const(w, 1))
			defer func() {
				// also on panic: Once counts the call as done
				cell.Obj.Val = setPath(cell.Obj.Val, cell.Path, m.S.Const(w, 2))
			}()
			m.call(c, a[1], nil, 0)
			m.Store(cell, m.S.Const(w, 2))
			m.schedPoint("once done")
			return nil
		},
		// sync.Pool by contract: Get returns New() or ANY object handed to Put earlier and not yet taken (the choice
		// is a decision of the path); objects are never dropped, which only widens the set of behaviours
		"(*sync.Pool).Put": func(m *Machine, c *frame, fn *ssa.Function, a []Value) Value {
			p := a[0].(PtrV)
			if p.Obj == nil {
				m.runtimePanic("runtime error: invalid memory address or nil pointer dereference")
			}
			if iv, ok := a[1].(IfaceV); ok && iv.T == nil {
				return nil
			}
			if m.pools == nil {
				m.pools = map[*Object][]Value{}
			}
			m.pools[p.Obj] = append(append([]Value{}, m.pools[p.Obj]...), a[1])
			return nil
		},
		"(*sync.Pool).Get": func(m *Machine, c *frame, fn *ssa.Function, a []Value) Value {
			p := a[0].(PtrV)
			if p.Obj == nil {
				m.runtimePanic("runtime error: invalid memory address or nil pointer dereference")
			}
			items := m.pools[p.Obj]
			k := m.Choose(len(items) + 1)
			if k < len(items) {
				v := items[k]
				ni := append([]Value{}, items[:k]...)
				ni = append(ni, items[k+1:]...)
				m.pools[p.Obj] = ni
				return v
			}
			// New
			st := under(p.Obj.Typ).(*types.Struct)
			sv := getPath(p.Obj.Val, p.Path).(StructV)
			for i := 0; i < st.NumFields(); i++ {
				if st.Field(i).Name() == "New" {
					if f, ok := sv[i].(FuncV); ok && (f.Fn != nil || f.Native != nil) {
						return m.call(c, f, nil, 0)
					}
				}
			}
			return IfaceV{}
		},
		"(*sync.WaitGroup).Add": func(m *Machine, c *frame, fn *ssa.Function, a []Value) Value {
			m.unsupported("sync.WaitGroup")
			return nil
		},

		// ---------------- runtime and friends
		"runtime/debug.Stack": func(m *Machine, c *frame, fn *ssa.Function, a []Value) Value {
			return SliceV{}
		},
		"runtime.SetFinalizer": func(m *Machine, c *frame, fn *ssa.Function, a []Value) Value { return nil },
		"runtime.Gosched": func(m *Machine, c *frame, fn *ssa.Function, a []Value) Value {
			m.schedPoint("gosched")
			return nil
		},
		"runtime.KeepAlive": func(m *Machine, c *frame, fn *ssa.Function, a []Value) Value { return nil },

		// ---------------- encoding/json by contract (environment): see jsonMarshal/jsonUnmarshal
		"encoding/json.Marshal":   jsonMarshal,
		"encoding/json.Unmarshal": jsonUnmarshal,
		// json.Decoder over a *bytes.Reader: Decode is Unmarshal of the reader's bytes; with UseNumber every number
		// that lands in an interface-typed position comes back as json.Number instead of float64
		"encoding/json.NewDecoder": func(m *Machine, c *frame, fn *ssa.Function, a []Value) Value {
			iv, ok := a[0].(IfaceV)
			if !ok || iv.T == nil {
				m.unsupported("json.NewDecoder(nil)")
			}
			rp, ok := iv.V.(PtrV)
			if !ok || rp.Obj == nil || !strings.HasSuffix(iv.T.String(), "bytes.Reader") {
				m.unsupported("json.NewDecoder over " + iv.T.String())
			}
			rs := getPath(rp.Obj.Val, rp.Path).(StructV)
			bs, ok := rs[0].(SliceV)
			if !ok {
				m.unsupported("json.NewDecoder: bytes.Reader layout")
			}
			return PtrV{Obj: m.newObj(StructV{bs, m.S.False()}, "json.Decoder", nil)}
		},
		"(*encoding/json.Decoder).UseNumber": func(m *Machine, c *frame, fn *ssa.Function, a []Value) Value {
			p := a[0].(PtrV)
			st := p.Obj.Val.(StructV)
			p.Obj.Val = StructV{st[0], m.S.True()}
			return nil
		},
		"(*encoding/json.Decoder).Decode": func(m *Machine, c *frame, fn *ssa.Function, a []Value) Value {
			p := a[0].(PtrV)
			st := p.Obj.Val.(StructV)
			r := jsonUnmarshal(m, c, fn, []Value{st[0], a[1]})
			if st[1].(*sym.Term).IsTrue() {
				if tv, ok := a[1].(IfaceV); ok {
					if tp, ok := tv.V.(PtrV); ok && tp.Obj != nil {
						m.Store(tp, m.jsonUseNumber(m.Load(tp), 0))
					}
				}
			}
			return r
		},

		// ---------------- iter.Pull: eager model (run the push iterator to completion into a buffer)
		"iter.Pull": func(m *Machine, c *frame, fn *ssa.Function, a []Value) Value {
			seq := a[0].(FuncV)
			var buf []Value
			yield := FuncV{Native: &NativeFn{Name: "iter.Pull.yield", F: func(m *Machine, c *frame, args []Value) Value {
				buf = append(buf, args[0])
				if len(buf) > 4096 {
					m.end("bound", "iter.Pull over a sequence longer than 4096 (eager model)")
				}
				return m.S.True()
			}}}
			m.note("iter.Pull modelled eagerly: the push iterator runs to completion at Pull time (equivalent for finite, effect-free sequences)")
			m.call(c, seq, []Value{yield}, 0)
			pos := 0
			vt := fn.Signature.Results().At(0).Type().(*types.Signature).Results().At(0).Type()
			next := FuncV{Native: &NativeFn{Name: "iter.Pull.next", F: func(m *Machine, c *frame, args []Value) Value {
				if pos < len(buf) {
					v := buf[pos]
					pos++
					return TupleV{v, m.S.True()}
				}
				return TupleV{m.Zero(vt), m.S.False()}
			}}}
			stop := FuncV{Native: &NativeFn{Name: "iter.Pull.stop", F: func(m *Machine, c *frame, args []Value) Value {
				pos = len(buf)
				return nil
			}}}
			return TupleV{next, stop}
		},

		// ---------------- formatting (never the subject)
		"fmt.Sprintf": func(m *Machine, c *frame, fn *ssa.Function, a []Value) Value { return m.MkStr("<fmt>") },
		"fmt.Sprint":  func(m *Machine, c *frame, fn *ssa.Function, a []Value) Value { return m.MkStr("<fmt>") },
		"fmt.Sprintln": func(m *Machine, c *frame, fn *ssa.Function, a []Value) Value {
			return m.MkStr("<fmt>\n")
		},
		"fmt.Println": fmtNoop, "fmt.Printf": fmtNoop, "fmt.Print": fmtNoop,
		"fmt.Fprintf": fmtNoop, "fmt.Fprintln": fmtNoop, "fmt.Fprint": fmtNoop,
		"fmt.Errorf": func(m *Machine, c *frame, fn *ssa.Function, a []Value) Value {
			en := m.E.Prog.ImportedPackage("errors")
			if en == nil {
				m.unsupported("fmt.Errorf without errors package")
			}
			return m.callSSA(c, en.Func("New"), []Value{m.MkStr("<fmt.Errorf>")}, nil)
		},
		"log.Printf": fmtNoop2, "log.Println": fmtNoop2, "log.Print": fmtNoop2,

		// ---------------- math: bit casts of concrete floats (the real ones go through unsafe.Pointer)
		// maps.clone is implemented by the runtime: a shallow copy, nil stays nil
		"maps.clone": func(m *Machine, c *frame, fn *ssa.Function, a []Value) Value {
			iv, ok := a[0].(IfaceV)
			if !ok {
				m.unsupported("maps.clone of a non-interface value")
			}
			mv, ok := iv.V.(MapV)
			if !ok {
				m.unsupported("maps.clone of a non-map")
			}
			if mv.M == nil {
				return iv
			}
			m.nextID++
			nm := &MapObj{ID: m.nextID, KeyT: mv.M.KeyT, ValT: mv.M.ValT}
			nm.Entries = append([]MapEntry{}, mv.M.Entries...)
			return IfaceV{T: iv.T, V: MapV{nm}}
		},
		// reflect: only what option.Of needs - the kind of a dynamic value and whether it is nil
		"reflect.ValueOf": func(m *Machine, c *frame, fn *ssa.Function, a []Value) Value {
			iv, ok := a[0].(IfaceV)
			if !ok {
				m.unsupported("reflect.ValueOf of a non-interface value")
			}
			return ReflV{iv}
		},
		"(reflect.Value).Kind": func(m *Machine, c *frame, fn *ssa.Function, a []Value) Value {
			rv := a[0].(ReflV)
			return m.S.Const(64, uint64(reflectKind(rv.I.T)))
		},
		"(reflect.Value).IsNil": func(m *Machine, c *frame, fn *ssa.Function, a []Value) Value {
			rv := a[0].(ReflV)
			switch v := rv.I.V.(type) {
			case PtrV:
				return m.S.Bool(v.Obj == nil)
			case SliceV:
				return m.S.Bool(v.Arr == nil)
			case MapV:
				return m.S.Bool(v.M == nil)
			case FuncV:
				return m.S.Bool(v.Fn == nil && v.B == nil && v.Native == nil)
			case ChanV:
				return m.S.Bool(v.C == nil)
			case IfaceV:
				return m.S.Bool(v.T == nil)
			}
			m.unsupported("reflect.Value.IsNil of a non-nillable kind")
			return nil
		},
		"math.Float64bits": func(m *Machine, c *frame, fn *ssa.Function, a []Value) Value {
			return m.S.Const(64, math.Float64bits(float64(a[0].(FloatV))))
		},
		"math.Float64frombits": func(m *Machine, c *frame, fn *ssa.Function, a []Value) Value {
			t := a[0].(*sym.Term)
			if !t.IsConst() {
				m.unsupported("math.Float64frombits of a symbolic value")
			}
			return FloatV(math.Float64frombits(t.C))
		},
		"math.Float32bits": func(m *Machine, c *frame, fn *ssa.Function, a []Value) Value {
			return m.S.Const(32, uint64(math.Float32bits(float32(a[0].(FloatV)))))
		},

		// ---------------- math/bits
		"math/bits.OnesCount32": func(m *Machine, c *frame, fn *ssa.Function, a []Value) Value {
			return m.S.Resize(m.S.PopCount(a[0].(*sym.Term)), 64, false)
		},
		"math/bits.OnesCount64": func(m *Machine, c *frame, fn *ssa.Function, a []Value) Value {
			return m.S.PopCount(a[0].(*sym.Term))
		},
		"math/bits.OnesCount": func(m *Machine, c *frame, fn *ssa.Function, a []Value) Value {
			return m.S.PopCount(a[0].(*sym.Term))
		},
	}
}

func fmtNoop(m *Machine, c *frame, fn *ssa.Function, a []Value) Value {
	res := fn.Signature.Results()
	if res.Len() == 0 {
		return nil
	}
	return TupleV{m.S.Const(64, 0), IfaceV{}}
}

func fmtNoop2(m *Machine, c *frame, fn *ssa.Function, a []Value) Value { return nil }

func atomicLoad(m *Machine, c *frame, fn *ssa.Function, a []Value) Value {
	m.schedPoint(fn.Name())
	return m.Load(a[0].(PtrV))
}

func atomicStore(m *Machine, c *frame, fn *ssa.Function, a []Value) Value {
	m.schedPoint(fn.Name())
	m.Store(a[0].(PtrV), a[1])
	return nil
}

func atomicSwap(m *Machine, c *frame, fn *ssa.Function, a []Value) Value {
	m.schedPoint(fn.Name())
	old := m.Load(a[0].(PtrV))
	m.Store(a[0].(PtrV), a[1])
	return old
}

func atomicAdd(m *Machine, c *frame, fn *ssa.Function, a []Value) Value {
	m.schedPoint(fn.Name())
	old := m.Load(a[0].(PtrV)).(*sym.Term)
	nv := m.S.Bin("bvadd", old, a[1].(*sym.Term))
	m.Store(a[0].(PtrV), nv)
	return nv
}

func atomicCAS(m *Machine, c *frame, fn *ssa.Function, a []Value) Value {
	m.schedPoint(fn.Name())
	p := a[0].(PtrV)
	cur := m.Load(p)
	var eq *sym.Term
	switch cv := cur.(type) {
	case PtrV:
		eq = m.S.Bool(ptrEq(cv, a[1].(PtrV)))
	case *sym.Term:
		eq = m.S.Eq(cv, a[1].(*sym.Term))
	default:
		m.unsupported(fmt.Sprintf("CAS on %T", cur))
	}
	if m.Branch(eq) {
		m.Store(p, a[2])
		return m.S.True()
	}
	return m.S.False()
}

// mutexCell: first integer word reachable from the struct in field order (sync.Mutex.state, RWMutex.w.state,
// sync.Once.done.v)
func mutexCell(p PtrV) PtrV {
	var find func(v Value, path []int) ([]int, bool)
	find = func(v Value, path []int) ([]int, bool) {
		switch x := v.(type) {
		case *sym.Term:
			if x.W > 0 {
				return path, true
			}
		case StructV:
			for i, f := range x {
				if r, ok := find(f, extPath(path, i)); ok {
					return r, true
				}
			}
		case ArrayV:
			for i, f := range x {
				if r, ok := find(f, extPath(path, i)); ok {
					return r, true
				}
			}
		}
		return nil, false
	}
	path, ok := find(getPath(p.Obj.Val, p.Path), p.Path)
	if !ok {
		panic("mutexCell: no integer word in lock struct")
	}
	return PtrV{p.Obj, path}
}

func mutexLock(m *Machine, c *frame, fn *ssa.Function, a []Value) Value {
	p := a[0].(PtrV)
	if p.Obj == nil {
		m.runtimePanic("runtime error: invalid memory address or nil pointer dereference")
	}
	cell := mutexCell(p)
	m.schedPoint("mutex lock")
	m.blockOn(func() bool { return getPath(cell.Obj.Val, cell.Path).(*sym.Term).C == 0 }, "mutex lock")
	m.Store(cell, m.S.Const(getPath(cell.Obj.Val, cell.Path).(*sym.Term).W, 1))
	return nil
}

func mutexUnlock(m *Machine, c *frame, fn *ssa.Function, a []Value) Value {
	p := a[0].(PtrV)
	cell := mutexCell(p)
	cur := getPath(cell.Obj.Val, cell.Path).(*sym.Term)
	if cur.C == 0 {
		m.end("panic", "fatal error: sync: unlock of unlocked mutex")
	}
	m.Store(cell, m.S.Const(cur.W, 0))
	m.schedPoint("mutex unlock")
	return nil
}

// ---- assertion

func (m *Machine) AssertProp(c *sym.Term, label string) {
	m.Asserts++
	if c.IsTrue() {
		m.Trivial++
		return
	}
	m.Z.MirrorNext = true // assertion queries are the ones cross-checked by the second solver
	r := m.check([]*sym.Term{c}, []bool{true})
	switch r {
	case sym.Unsat:
		m.Discharged++
		return
	case sym.Sat:
		m.Cex = m.buildCex("assert", label, "assertion can be false")
		m.end("assertfail", label)
	default:
		m.Inconcl++
		m.note("assertion " + label + ": solver returned unknown")
	}
}

// buildCex must be called right after a Sat answer (model available).
func (m *Machine) buildCex(kind, label, msg string) *Cex {
	cx := &Cex{Harness: m.H.Name, Kind: kind, Label: label, Msg: msg, Vec: append([]int(nil), m.Vec[:m.pos]...), Model: map[string]string{}}
	if m.sched != nil {
		cx.Sched = append([]int(nil), m.sched.trace...)
	}
	for _, e := range m.Tape {
		tv := TapeValue{Kind: e.Kind, Name: e.Name, W: e.W}
		if e.Kind == "choice" {
			tv.Val = uint64(e.Conc)
		} else {
			vals, ok := m.Z.Eval(m.S, []*sym.Term{e.T})
			if !ok {
				m.note("model evaluation failed for " + e.Name)
			} else {
				tv.Val = vals[0]
			}
			if e.Kind == "uf" {
				av, ok := m.Z.Eval(m.S, e.Args)
				if ok {
					tv.Args = av
				}
			}
		}
		cx.Tape = append(cx.Tape, tv)
		if e.Kind == "choice" {
			cx.Model[e.Name] = fmt.Sprint(e.Conc)
		} else if e.Kind == "bool" {
			cx.Model[e.Name] = fmt.Sprint(tv.Val != 0)
		} else if e.Kind != "uf" {
			cx.Model[e.Name] = fmt.Sprint(sym.SignExt(tv.Val, max(e.W, 1)))
		} else {
			as := []string{}
			for _, x := range tv.Args {
				as = append(as, fmt.Sprint(int64(x)))
			}
			cx.Model[e.Name+"("+strings.Join(as, ",")+")"] = fmt.Sprint(sym.SignExt(tv.Val, max(e.W, 1)))
		}
	}
	return cx
}

// ---- encoding/json modelled by its documented contract
//
// Marshal(v): a value whose dynamic type has a MarshalJSON method is encoded by calling that method (as the real
// package does); a nil interface or nil pointer encodes as "null"; any other value gets fresh symbolic bytes of
// length 2 whose first byte is not 'n' (valid JSON starts with 'n' only for null), and the pair (bytes, value) is
// remembered. Unmarshal(b, &t): a target type with an UnmarshalJSON method gets that method called; bytes equal
// to a remembered encoding of a value of t's type decode to exactly that value (dec(enc(v)) = v); any other
// input is an arbitrary document: either an error (the target may have been modified arbitrarily) or success
// with an arbitrary value.

type jsonMemo struct {
	bytes []*sym.Term
	typ   types.Type
	val   Value
}

func (m *Machine) envByte(name string) *sym.Term {
	n := m.freshName(name)
	t := m.S.Var(n, 8)
	m.Tape = append(m.Tape, TapeEntry{Kind: "env", Name: n, T: t, W: 8})
	return t
}

func (m *Machine) bytesSlice(bs []*sym.Term) SliceV {
	arr := make(ArrayV, len(bs))
	for i, b := range bs {
		arr[i] = b
	}
	return SliceV{Arr: m.newObj(arr, "json bytes", types.Typ[types.Uint8]), Len: len(bs), Cap: len(bs)}
}

func (m *Machine) methodOf(t types.Type, name string) *ssa.Function {
	ms := m.E.Prog.MethodSets.MethodSet(t)
	for i := 0; i < ms.Len(); i++ {
		if ms.At(i).Obj().Name() == name {
			return m.E.Prog.MethodValue(ms.At(i))
		}
	}
	return nil
}

func jsonMarshal(m *Machine, c *frame, fn *ssa.Function, a []Value) Value {
	v := a[0].(IfaceV)
	m.note("encoding/json is environment: modelled by contract (injective opaque encodings, dec(enc(v)) = v, arbitrary result on other input)")
	null := func() Value {
		return TupleV{m.bytesSlice(m.sb(m.MkStr("null"))), IfaceV{}}
	}
	if v.T == nil {
		return null()
	}
	if p, ok := v.V.(PtrV); ok && p.Obj == nil {
		return null()
	}
	if f := m.methodOf(v.T, "MarshalJSON"); f != nil {
		return m.callSSA(c, f, []Value{v.V}, nil)
	}
	b0, b1 := m.envByte("json.enc0"), m.envByte("json.enc1")
	m.Assume(m.S.Not(m.S.Eq(b0, m.S.Const(8, 'n'))))
	m.jsonMemos = append(m.jsonMemos, jsonMemo{[]*sym.Term{b0, b1}, v.T, v.V})
	return TupleV{m.bytesSlice([]*sym.Term{b0, b1}), IfaceV{}}
}

func (m *Machine) havoc(t types.Type, name string, d int) Value {
	if d > 4 {
		return m.Zero(t)
	}
	switch u := under(t).(type) {
	case *types.Basic:
		if u.Info()&types.IsBoolean != 0 {
			n := m.freshName(name)
			tm := m.S.Var(n, 0)
			m.Tape = append(m.Tape, TapeEntry{Kind: "env", Name: n, T: tm})
			return tm
		}
		if w, _, ok := intInfo(u); ok {
			n := m.freshName(name)
			tm := m.S.Var(n, w)
			m.Tape = append(m.Tape, TapeEntry{Kind: "env", Name: n, T: tm, W: w})
			return tm
		}
		if u.Info()&types.IsString != 0 {
			return StrV{B: []*sym.Term{m.envByte(name + ".s0")}}
		}
	case *types.Struct:
		s := make(StructV, u.NumFields())
		for i := range s {
			s[i] = m.havoc(u.Field(i).Type(), name+"."+u.Field(i).Name(), d+1)
		}
		return s
	case *types.Array:
		arr := make(ArrayV, int(u.Len()))
		for i := range arr {
			arr[i] = m.havoc(u.Elem(), fmt.Sprintf("%s[%d]", name, i), d+1)
		}
		return arr
	}
	return m.Zero(t) // pointers, slices, maps, interfaces: nil
}

var jsonErrT types.Type

// jsonUseNumber rewrites a decoded value the way a Decoder with UseNumber would have produced it: numbers in
// interface-typed positions are json.Number, not float64.
func (m *Machine) jsonUseNumber(v Value, d int) Value {
	if d > 6 {
		return v
	}
	switch x := v.(type) {
	case IfaceV:
		if x.T == nil {
			return x
		}
		if b, ok := under(x.T).(*types.Basic); ok && b.Info()&types.IsNumeric != 0 {
			jp := m.E.Prog.ImportedPackage("encoding/json")
			if jp == nil || jp.Type("Number") == nil {
				m.unsupported("json.Number type not loaded")
			}
			return IfaceV{T: jp.Type("Number").Type(), V: m.MkStr("<number>")}
		}
		return IfaceV{T: x.T, V: m.jsonUseNumber(x.V, d+1)}
	case StructV:
		out := make(StructV, len(x))
		for i := range x {
			out[i] = m.jsonUseNumber(x[i], d+1)
		}
		return out
	case ArrayV:
		out := make(ArrayV, len(x))
		for i := range x {
			out[i] = m.jsonUseNumber(x[i], d+1)
		}
		return out
	}
	return v
}

func jsonUnmarshal(m *Machine, c *frame, fn *ssa.Function, a []Value) Value {
	bs := a[0].(SliceV)
	tv := a[1].(IfaceV)
	mkErr := func(msg string) Value {
		en := m.E.Prog.ImportedPackage("errors")
		if en == nil {
			m.unsupported("json.Unmarshal error without errors package")
		}
		return m.callSSA(c, en.Func("New"), []Value{m.MkStr(msg)}, nil)
	}
	if tv.T == nil {
		return mkErr("json: Unmarshal(nil)")
	}
	p, ok := tv.V.(PtrV)
	if !ok {
		return mkErr("json: Unmarshal(non-pointer)")
	}
	if p.Obj == nil {
		return mkErr("json: Unmarshal(nil pointer)")
	}
	if f := m.methodOf(tv.T, "UnmarshalJSON"); f != nil {
		return m.callSSA(c, f, []Value{tv.V, bs}, nil)
	}
	et := under(tv.T).(*types.Pointer).Elem()
	in := m.sliceElems(bs)
	for _, mm := range m.jsonMemos {
		if len(mm.bytes) != len(in) || !types.Identical(mm.typ, et) {
			continue
		}
		eq := m.S.True()
		for i := range in {
			eq = m.S.And(eq, m.S.Eq(in[i].(*sym.Term), mm.bytes[i]))
		}
		if m.Branch(eq) {
			m.Store(p, mm.val)
			return IfaceV{}
		}
	}
	// an arbitrary document
	if m.Choose(2) == 0 {
		if m.Choose(2) == 1 {
			m.Store(p, m.havoc(et, "json.partial", 0))
		}
		return mkErr("json: invalid input")
	}
	m.Store(p, m.havoc(et, "json.dec", 0))
	return IfaceV{}
}

// ReflV models a reflect.Value obtained from reflect.ValueOf (kind and nil-ness only).
type ReflV struct{ I IfaceV }

// reflectKind returns the reflect.Kind constant of a type.
func reflectKind(t types.Type) int {
	if t == nil {
		return 0 // Invalid
	}
	switch u := under(t).(type) {
	case *types.Basic:
		switch u.Kind() {
		case types.Bool:
			return 1
		case types.Int:
			return 2
		case types.Int8:
			return 3
		case types.Int16:
			return 4
		case types.Int32:
			return 5
		case types.Int64:
			return 6
		case types.Uint:
			return 7
		case types.Uint8:
			return 8
		case types.Uint16:
			return 9
		case types.Uint32:
			return 10
		case types.Uint64:
			return 11
		case types.Uintptr:
			return 12
		case types.Float32:
			return 13
		case types.Float64:
			return 14
		case types.Complex64:
			return 15
		case types.Complex128:
			return 16
		case types.String:
			return 24
		case types.UnsafePointer:
			return 26
		}
	case *types.Array:
		return 17
	case *types.Chan:
		return 18
	case *types.Signature:
		return 19
	case *types.Interface:
		return 20
	case *types.Map:
		return 21
	case *types.Pointer:
		return 22
	case *types.Slice:
		return 23
	case *types.Struct:
		return 25
	}
	return 0
}
