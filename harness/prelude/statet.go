//verif:overlay statet/zz_verif_prelude.go
package statet

import (
	"errors"

	"github.com/csgura/fp"
	zz "github.com/csgura/fp/internal/zzverif"
)

var vhErrTab = map[string]error{}

func vhErr(name string) error {
	if e, ok := vhErrTab[name]; ok {
		return e
	}
	e := errors.New("err:" + name)
	vhErrTab[name] = e
	return e
}

// arbitrary state transformer: result constructor, payload and next state are uninterpreted functions of the
// incoming state
func vhMk(name string) fp.StateT[int, int] {
	return func(s int) (fp.Try[int], int) {
		ns := zz.UFInt(name+".ns", s)
		if zz.UFBool(name+".ok", s) {
			return fp.Success(zz.UFInt(name+".v", s)), ns
		}
		return fp.Failure[int](vhErr(name)), ns
	}
}

func vhMkOf[T any](name string, v T) fp.StateT[int, T] {
	return func(s int) (fp.Try[T], int) {
		ns := zz.UFInt(name+".ns", s)
		if zz.UFBool(name+".ok", s) {
			return fp.Success(v), ns
		}
		return fp.Failure[T](vhErr(name)), ns
	}
}

func vhUnit[T any](v T) fp.StateT[int, T] { return Pure[int](v) }

func vhRet(name string, args ...int) fp.StateT[int, int] {
	return func(s int) (fp.Try[int], int) {
		all := append(append([]int{}, args...), s)
		ns := zz.UFInt(name+".ns", all...)
		if zz.UFBool(name+".ok", all...) {
			return fp.Success(zz.UFInt(name+".v", all...)), ns
		}
		return fp.Failure[int](vhErr(name)), ns
	}
}

func vhEqTry[T comparable](a, b fp.Try[T]) bool {
	if a.IsSuccess() != b.IsSuccess() {
		return false
	}
	if a.IsSuccess() {
		return a.Get() == b.Get()
	}
	return a.Failed().Get() == b.Failed().Get()
}

// extensional equality at a fresh symbolic initial state
// A StateT program is a value: it is run a second time from another symbolic state and must again agree.
func vhEq[T comparable](a, b fp.StateT[int, T]) bool {
	s0 := zz.Int("s0")
	ra, sa := a(s0)
	rb, sb := b(s0)
	if !(vhEqTry(ra, rb) && sa == sb) {
		return false
	}
	s1 := zz.Int("s1")
	ra, sa = a(s1)
	rb, sb = b(s1)
	return vhEqTry(ra, rb) && sa == sb
}

func vhSliceEq(x, y []int) bool {
	if len(x) != len(y) {
		return false
	}
	for i := range x {
		if x[i] != y[i] {
			return false
		}
	}
	return true
}

func vhEqSlice(a, b fp.StateT[int, []int]) bool {
	// both programs are run twice (from two symbolic states) and ALL results are compared only afterwards: the
	// result of an earlier run must not be disturbed by a later run of the same program value
	var ra, rb [2]fp.Try[[]int]
	var sa, sb [2]int
	for run := 0; run < 2; run++ {
		s0 := zz.Int("s" + string(rune('0'+run)))
		ra[run], sa[run] = a(s0)
		rb[run], sb[run] = b(s0)
	}
	for run := 0; run < 2; run++ {
		if sa[run] != sb[run] || ra[run].IsSuccess() != rb[run].IsSuccess() {
			return false
		}
		if ra[run].IsSuccess() {
			if !vhSliceEq(ra[run].Get(), rb[run].Get()) {
				return false
			}
		} else if ra[run].Failed().Get() != rb[run].Failed().Get() {
			return false
		}
	}
	return true
}

func vhEqSeq(a, b fp.StateT[int, fp.Seq[int]]) bool {
	// both programs are run twice (from two symbolic states) and ALL results are compared only afterwards: the
	// result of an earlier run must not be disturbed by a later run of the same program value
	var ra, rb [2]fp.Try[fp.Seq[int]]
	var sa, sb [2]int
	for run := 0; run < 2; run++ {
		s0 := zz.Int("s" + string(rune('0'+run)))
		ra[run], sa[run] = a(s0)
		rb[run], sb[run] = b(s0)
	}
	for run := 0; run < 2; run++ {
		if sa[run] != sb[run] || ra[run].IsSuccess() != rb[run].IsSuccess() {
			return false
		}
		if ra[run].IsSuccess() {
			if !vhSliceEq(ra[run].Get(), rb[run].Get()) {
				return false
			}
		} else if ra[run].Failed().Get() != rb[run].Failed().Get() {
			return false
		}
	}
	return true
}

func vhDrain(it fp.Iterator[int]) []int {
	var out []int
	for it.HasNext() {
		out = append(out, it.Next())
	}
	return out
}

func vhEqIter(a, b fp.StateT[int, fp.Iterator[int]]) bool {
	s0 := zz.Int("s0")
	ra, sa := a(s0)
	rb, sb := b(s0)
	if sa != sb || ra.IsSuccess() != rb.IsSuccess() {
		return false
	}
	if ra.IsSuccess() {
		return vhSliceEq(vhDrain(ra.Get()), vhDrain(rb.Get()))
	}
	return ra.Failed().Get() == rb.Failed().Get()
}

// call log for C02: every user-supplied function appends its id and arguments
var vhCalls []int

func vhLog(id int, args ...int) {
	vhCalls = append(vhCalls, id)
	vhCalls = append(vhCalls, args...)
	vhCalls = append(vhCalls, -7777)
}

func vhLogEq(a, b []int) bool {
	if len(a) != len(b) {
		return false
	}
	for i := range a {
		if a[i] != b[i] {
			return false
		}
	}
	return true
}
