//verif:overlay immutable/zz_verif_c04b.go
//verif:whitebox
package immutable

import (
	zz "github.com/csgura/fp/internal/zzverif"
)

// C04, branching from a symbolic valid trie: two successors are derived from the SAME pre-state (every slice in
// it has spare capacity). The first successor and the pre-state are frozen before the second is built; neither
// may be written, and the first still agrees with its abstract map afterwards.

var vhOpFrags []uint32 // when set: the root-level fragments the operation keys are restricted to

func vhSiblings(pre *hamt[int, int], l string) {
	zz.Config("loop", 4000)
	op1, op2 := vhNewOp("op1"), vhNewOp("op2")
	if len(vhOpFrags) > 0 {
		for _, o := range []vhOp{op1, op2} {
			in := false
			for _, f := range vhOpFrags {
				in = zz.BOr(in, vhFrag(o.k, 0) == f)
			}
			zz.Assume(in)
		}
		vhOpFrags = nil
	}
	zz.Freeze("pre", pre)
	v1 := op1.apply(pre)
	zz.CheckFrozen("pre")
	zz.Freeze("v1", v1)
	v2 := op2.apply(pre)
	zz.CheckFrozen("pre")
	zz.CheckFrozen("v1")
	vhAgrees(v1, l+": first successor after the second was built", op1)
	vhAgrees(v2, l+": second successor", op2)
	vhAgrees(pre, l+": the common ancestor")
}

func VH_c04b_array_root() {
	vhReset()
	n := 1 + zz.Choice("n", zz.Bound("c04b.array", 3, 7))
	vhSiblings(vhArrayRoot(n, 0), "array root")
}

func VH_c04b_bitmap_root_values() {
	vhReset()
	c := 1 + zz.Choice("children", zz.Bound("c04b.children", 1, 2))
	var ch []mapNode[int, int]
	for i := 0; i < c; i++ {
		ch = append(ch, vhLeaf(vhNewKey("e"+string(rune('0'+i)))))
	}
	vhSiblings(vhMap(vhBitmap(0, ch...)), "bitmap root")
}

func VH_c04b_collision_child() {
	vhReset()
	col, _ := vhCollision("c", 2+zz.Choice("extra", zz.Bound("c04b.colextra", 1, 2)))
	vhSiblings(vhMap(vhBitmap(0, col, vhLeaf(vhNewKey("o")))), "bitmap root with collision child")
}

func VH_c04b_nested_thorough() {
	vhReset()
	a, b := vhNewKey("a"), vhNewKey("b")
	zz.Assume(vhFrag(a.k, 0) == vhFrag(b.k, 0))
	vhSiblings(vhMap(vhBitmap(0, vhBitmap(5, vhLeaf(a), vhLeaf(b)))), "nested bitmap")
}

// hash-array root: sixteen pinned value leaves plus one symbolic child. The two operation keys are restricted to
// three slots - a pinned leaf's (0), the symbolic child's, an empty one (31); the other pinned slots behave like
// slot 0 (same code, same shape), which is the stated reduction.
func VH_c04b_hasharray_root_thorough() {
	vhReset()
	var extra []mapNode[int, int]
	if zz.Bool("collision") {
		col, _ := vhCollision("c", 3)
		extra = []mapNode[int, int]{col}
	} else {
		extra = []mapNode[int, int]{vhLeaf(vhNewKey("s"))}
	}
	pre := vhMap(vhHashArray(maxBitmapIndexedSize, extra...))
	vhOpFrags = []uint32{0, maxBitmapIndexedSize, 31}
	vhSiblings(pre, "hash-array root")
}
