//verif:overlay internal/zzverif_h/c04/seqops.go
package c04

import (
	"github.com/csgura/fp"
	zz "github.com/csgura/fp/internal/zzverif"
	"github.com/csgura/fp/iterator"
	"github.com/csgura/fp/lazy"
	"github.com/csgura/fp/list"
	"github.com/csgura/fp/monoid"
	"github.com/csgura/fp/ord"
	"github.com/csgura/fp/seq"
)

// input with spare capacity and as a sub-slice of a larger array: the whole backing array is frozen
func input() []int { return zz.SliceInt("in", zz.Bound("c04len", 3, 3), 2, 1) }

// persistence, not hashing, is the subject here: a hasher without 64-bit division keeps queries trivial
type cheapHasher struct{}

func (cheapHasher) Eqv(a, b int) bool { return a == b }
func (cheapHasher) Hash(a int) uint32 { return uint32(a) & 3 }

func ufP(name string) func(int) bool { return func(x int) bool { return zz.UFBool(name, x) } }
func ufF(name string) func(int) int  { return func(x int) int { return zz.UFInt(name, x) } }

// op applies one library operation to the slice and returns whatever slice-like result it has (may alias!)
type op struct {
	name string
	run  func(in []int) []int
}

func ops() []op {
	p, f := ufP("p"), ufF("f")
	o := ord.Given[int]()
	return []op{
		{"seq.Sort", func(in []int) []int { return seq.Sort(fp.Seq[int](in), o) }},
		{"iterator.Sort", func(in []int) []int { return iterator.Sort(iterator.FromSeq(in), o) }},
		{"list.Sort", func(in []int) []int { return list.Sort(list.FromSeq(in), o) }},
		{"Seq.Reverse", func(in []int) []int { return fp.Seq[int](in).Reverse() }},
		{"seq.Distinct", func(in []int) []int { return seq.Distinct(fp.Seq[int](in)) }},
		{"Seq.Add", func(in []int) []int { return fp.Seq[int](in).Add(zz.Int("e")) }},
		{"Seq.Append", func(in []int) []int { return fp.Seq[int](in).Append(zz.Int("e"), zz.Int("e2")) }},
		{"Seq.Append0", func(in []int) []int { return fp.Seq[int](in).Append() }},
		{"Seq.Concat", func(in []int) []int { return fp.Seq[int](in).Concat(fp.Seq[int]{zz.Int("e")}) }},
		{"Seq.ConcatNil", func(in []int) []int { return fp.Seq[int](in).Concat(nil) }},
		{"Seq.ConcatSelf", func(in []int) []int { return fp.Seq[int](in).Concat(in) }},
		{"seq.Concat", func(in []int) []int { return seq.Concat(zz.Int("e"), fp.Seq[int](in)) }},
		{"Seq.Map", func(in []int) []int { return fp.Seq[int](in).Map(f) }},
		{"seq.Map", func(in []int) []int { return seq.Map(fp.Seq[int](in), f) }},
		{"Seq.Filter", func(in []int) []int { return fp.Seq[int](in).Filter(p) }},
		{"Seq.FilterNot", func(in []int) []int { return fp.Seq[int](in).FilterNot(p) }},
		{"Seq.FlatMap", func(in []int) []int {
			return fp.Seq[int](in).FlatMap(func(x int) fp.Seq[int] { return fp.Seq[int]{x, f(x)} })
		}},
		{"Seq.Take", func(in []int) []int { return fp.Seq[int](in).Take(zz.IntIn("n", 0, 4)) }},
		{"Seq.Drop", func(in []int) []int { return fp.Seq[int](in).Drop(zz.IntIn("n", 0, 4)) }},
		{"Seq.Tail", func(in []int) []int { return fp.Seq[int](in).Tail() }},
		{"Seq.Init", func(in []int) []int { return fp.Seq[int](in).Init() }},
		{"seq.Scan", func(in []int) []int {
			return seq.Scan(fp.Seq[int](in), 0, func(a, b int) int { return zz.UFInt("g", a, b) })
		}},
		{"seq.Span", func(in []int) []int { l, _ := seq.Span(fp.Seq[int](in), p); return l }},
		{"seq.SpanR", func(in []int) []int { _, r := seq.Span(fp.Seq[int](in), p); return r }},
		{"seq.Partition", func(in []int) []int { l, _ := seq.Partition(fp.Seq[int](in), p); return l }},
		{"seq.Fold", func(in []int) []int {
			seq.Fold(fp.Seq[int](in), 0, func(a, b int) int { return a + b })
			seq.FoldRight(fp.Seq[int](in), 0, func(a int, b lazy.Eval[int]) lazy.Eval[int] { return b }).Get()
			seq.Reduce(fp.Seq[int](in), monoid.Sum[int]())
			return nil
		}},
		{"seq.GroupBy", func(in []int) []int { return seq.GroupBy(fp.Seq[int](in), f)[zz.Int("probe")] }},
		{"seq.MinMax", func(in []int) []int {
			seq.Min(fp.Seq[int](in), o)
			seq.Max(fp.Seq[int](in), o)
			return nil
		}},
		{"seq.ToSet_ToMap", func(in []int) []int {
			seq.ToSet(fp.Seq[int](in), cheapHasher{})
			seq.ToGoSet(fp.Seq[int](in))
			return nil
		}},
		{"seq.Zip", func(in []int) []int {
			seq.Zip(fp.Seq[int](in), fp.Seq[int](in))
			seq.ZipWithIndex(fp.Seq[int](in))
			return nil
		}},
		{"iterator.ToSeq", func(in []int) []int { return iterator.FromSeq(in).ToSeq() }},
		{"iterator.Reverse", func(in []int) []int { return iterator.ReverseSeq(in).ToSeq() }},
		{"list.ToSeq", func(in []int) []int { return list.FromSeq(in).ToSeq() }},
		{"list.Tail.ToSeq", func(in []int) []int { return list.FromSeq(in).Tail().ToSeq() }},
		{"list.ReverseSeq", func(in []int) []int { return list.ReverseSeq(in).ToSeq() }},
		{"iterator.GroupBy", func(in []int) []int { return iterator.GroupBy(iterator.FromSeq(in), f)[zz.Int("probe")] }},
		{"seq.Collect", func(in []int) []int { return seq.Collect(iterator.FromSeq(in)) }},
		{"seq.Of", func(in []int) []int { return seq.Of(in...) }},
	}
}

func findOp(name string) op {
	for _, o := range ops() {
		if o.name == name {
			return o
		}
	}
	panic("unknown op " + name)
}

// second operations applied afterwards to the input and to the first result
func second(k int, s []int) {
	o := ord.Given[int]()
	switch k {
	case 0:
		if len(s) <= 3 { // sorting is factorial in the number of symbolic elements
			seq.Sort(fp.Seq[int](s), o)
		}
	case 1:
		_ = fp.Seq[int](s).Add(zz.Int("e3"))
	case 2:
		_ = fp.Seq[int](s).Reverse()
	case 3:
		_ = fp.Seq[int](s).Concat(fp.Seq[int]{1})
	}
}

func persist(name string) {
	in := input()
	zz.Freeze("input", in)
	r := findOp(name).run(in)
	zz.CheckFrozen("input")
	zz.Freeze("result", r)
	k := zz.Choice("second", 4)
	second(k, in)
	second(k, r)
	zz.CheckFrozen("input")
	zz.CheckFrozen("result")
}

func VH_c04_seq_seq_Sort()         { persist("seq.Sort") }
func VH_c04_seq_iterator_Sort()    { persist("iterator.Sort") }
func VH_c04_seq_list_Sort()        { persist("list.Sort") }
func VH_c04_seq_Seq_Reverse()      { persist("Seq.Reverse") }
func VH_c04_seq_seq_Distinct()     { persist("seq.Distinct") }
func VH_c04_seq_Seq_Add()          { persist("Seq.Add") }
func VH_c04_seq_Seq_Append()       { persist("Seq.Append") }
func VH_c04_seq_Seq_Append0()      { persist("Seq.Append0") }
func VH_c04_seq_Seq_Concat()       { persist("Seq.Concat") }
func VH_c04_seq_Seq_ConcatNil()    { persist("Seq.ConcatNil") }
func VH_c04_seq_Seq_ConcatSelf()   { persist("Seq.ConcatSelf") }
func VH_c04_seq_seq_Concat()       { persist("seq.Concat") }
func VH_c04_seq_Seq_Map()          { persist("Seq.Map") }
func VH_c04_seq_seq_Map()          { persist("seq.Map") }
func VH_c04_seq_Seq_Filter()       { persist("Seq.Filter") }
func VH_c04_seq_Seq_FilterNot()    { persist("Seq.FilterNot") }
func VH_c04_seq_Seq_FlatMap()      { persist("Seq.FlatMap") }
func VH_c04_seq_Seq_Take()         { persist("Seq.Take") }
func VH_c04_seq_Seq_Drop()         { persist("Seq.Drop") }
func VH_c04_seq_Seq_Tail()         { persist("Seq.Tail") }
func VH_c04_seq_Seq_Init()         { persist("Seq.Init") }
func VH_c04_seq_seq_Scan()         { persist("seq.Scan") }
func VH_c04_seq_seq_Span()         { persist("seq.Span") }
func VH_c04_seq_seq_SpanR()        { persist("seq.SpanR") }
func VH_c04_seq_seq_Partition()    { persist("seq.Partition") }
func VH_c04_seq_seq_Fold()         { persist("seq.Fold") }
func VH_c04_seq_seq_GroupBy()      { persist("seq.GroupBy") }
func VH_c04_seq_seq_MinMax()       { persist("seq.MinMax") }
func VH_c04_seq_seq_ToSet_ToMap()  { persist("seq.ToSet_ToMap") }
func VH_c04_seq_seq_Zip()          { persist("seq.Zip") }
func VH_c04_seq_iterator_ToSeq()   { persist("iterator.ToSeq") }
func VH_c04_seq_iterator_Reverse() { persist("iterator.Reverse") }
func VH_c04_seq_list_ToSeq()       { persist("list.ToSeq") }
func VH_c04_seq_list_Tail_ToSeq()  { persist("list.Tail.ToSeq") }
func VH_c04_seq_list_ReverseSeq()  { persist("list.ReverseSeq") }
func VH_c04_seq_iterator_GroupBy() { persist("iterator.GroupBy") }
func VH_c04_seq_seq_Collect()      { persist("seq.Collect") }
func VH_c04_seq_seq_Of()           { persist("seq.Of") }
