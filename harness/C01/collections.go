//verif:overlay internal/zzverif_h/c01b/h.go
package c01b

import (
	"github.com/csgura/fp"
	"github.com/csgura/fp/fn0"
	"github.com/csgura/fp/fn1"
	zz "github.com/csgura/fp/internal/zzverif"
	"github.com/csgura/fp/iterator"
	"github.com/csgura/fp/lazy"
	"github.com/csgura/fp/list"
	"github.com/csgura/fp/seq"
)

func sliceEq(a, b []int) bool {
	if len(a) != len(b) {
		return false
	}
	for i := range a {
		if a[i] != b[i] {
			return false
		}
	}
	return true
}

// base: a shared array with spare capacity; Kleisli results are sub-slices of it (len<cap, shared storage) or
// fresh slices - both are legitimate "functions returning a Seq"
var base []int

func mkBase() {
	base = make([]int, 3, 4)
	base[0], base[1], base[2] = zz.Int("b0"), zz.Int("b1"), zz.Int("b2")
}

func kSeq(name string) func(int) fp.Seq[int] {
	return func(x int) fp.Seq[int] {
		switch zz.UFInt(name+".shape", x) & 3 {
		case 0:
			return nil
		case 1:
			return base[:1]
		case 2:
			return base[:2]
		}
		return fp.Seq[int]{zz.UFInt(name+".v", x)}
	}
}

func input() []int { return zz.SliceInt("m", zz.Bound("seqlen", 2, 3), 0, 0) }

// ---- Seq

func VH_c01_seq_laws() {
	mkBase()
	m := fp.Seq[int](input())
	f, g := kSeq("f"), kSeq("g")
	a := zz.Int("a")
	zz.Assert(sliceEq(seq.FlatMap(seq.Pure(a), f), f(a)), "Seq left identity")
	zz.Assert(sliceEq(seq.FlatMap(m, seq.Pure[int]), m), "Seq right identity")
	l := seq.FlatMap(seq.FlatMap(m, f), g)
	r := seq.FlatMap(m, func(x int) fp.Seq[int] { return seq.FlatMap(f(x), g) })
	zz.Assert(sliceEq(l, r), "Seq associativity")
	// FlatMap is concatenation, in order
	var want []int
	for _, x := range m {
		want = append(want, append([]int{}, f(x)...)...)
	}
	zz.Assert(sliceEq(seq.FlatMap(m, f), want), "seq.FlatMap concatenates the results in order")
	zz.Assert(sliceEq(m.FlatMap(f), want), "Seq.FlatMap method concatenates the results in order")
}

func VH_c01_seq_derived() {
	mkBase()
	m := fp.Seq[int](input())
	f := kSeq("f")
	h := func(x int) int { return zz.UFInt("h", x) }
	unit := func(x int) fp.Seq[int] { return seq.Pure(x) }
	zz.Assert(sliceEq(seq.Map(m, h), seq.FlatMap(m, func(x int) fp.Seq[int] { return unit(h(x)) })), "seq.Map = FlatMap . unit")
	zz.Assert(sliceEq(seq.Lift(h)(m), seq.Map(m, h)), "seq.Lift")
	zz.Assert(sliceEq(seq.LiftM(f)(m), seq.FlatMap(m, f)), "seq.LiftM")
	var mm fp.Seq[fp.Seq[int]]
	for _, x := range m {
		mm = append(mm, f(x))
	}
	zz.Assert(sliceEq(seq.Flatten(mm), seq.FlatMap(mm, func(s fp.Seq[int]) fp.Seq[int] { return s })), "seq.Flatten = FlatMap id")
	g := kSeq("g")
	a := zz.Int("a")
	zz.Assert(sliceEq(seq.Compose(f, g)(a), seq.FlatMap(f(a), g)), "seq.Compose")
	zz.Assert(sliceEq(seq.ComposePure(h)(a), unit(h(a))), "seq.ComposePure")
	h2 := func(x, y int) int { return zz.UFInt("h2", x, y) }
	n := fp.Seq[int](zz.SliceInt("n", 2, 0, 0))
	want := seq.FlatMap(m, func(x int) fp.Seq[int] { return seq.FlatMap(n, func(y int) fp.Seq[int] { return unit(h2(x, y)) }) })
	zz.Assert(sliceEq(seq.Map2(m, n, h2), want), "seq.Map2 = nested FlatMap")
	var fs fp.Seq[fp.Func1[int, int]]
	for _, x := range m {
		x := x
		fs = append(fs, func(y int) int { return h2(x, y) })
	}
	zz.Assert(sliceEq(seq.Ap(fs, n), want), "seq.Ap = FlatMap over the functions, Map over the values")
	p := func(x int) bool { return zz.UFBool("p", x) }
	fm := seq.FilterMap(m, func(x int) fp.Option[int] {
		if p(x) {
			return fp.Some(h(x))
		}
		return fp.None[int]()
	})
	wfm := seq.FlatMap(m, func(x int) fp.Seq[int] {
		if p(x) {
			return unit(h(x))
		}
		return nil
	})
	zz.Assert(sliceEq(fm, wfm), "seq.FilterMap")
}

// ---- List

func lseq(l fp.List[int]) []int { return l.ToSeq() }

func kList(name string) func(int) fp.List[int] {
	return func(x int) fp.List[int] {
		switch zz.UFInt(name+".shape", x) & 3 {
		case 0:
			return list.Empty[int]()
		case 1:
			return list.Of(zz.UFInt(name+".v", x))
		case 2:
			return list.FromSeq(base[:2])
		}
		return list.Map(list.FromSeq(base[:1]), func(v int) int { return zz.UFInt(name+".w", v) })
	}
}

func VH_c01_list_laws() {
	mkBase()
	m := list.FromSeq(input())
	f, g := kList("f"), kList("g")
	a := zz.Int("a")
	zz.Assert(sliceEq(lseq(list.FlatMap(list.Of(a), f)), lseq(f(a))), "List left identity")
	zz.Assert(sliceEq(lseq(list.FlatMap(m, func(x int) fp.List[int] { return list.Of(x) })), lseq(m)), "List right identity")
	l := list.FlatMap(list.FlatMap(m, f), g)
	r := list.FlatMap(m, func(x int) fp.List[int] { return list.FlatMap(f(x), g) })
	zz.Assert(sliceEq(lseq(l), lseq(r)), "List associativity")
	h := func(x int) int { return zz.UFInt("h", x) }
	zz.Assert(sliceEq(lseq(list.Map(m, h)), lseq(list.FlatMap(m, func(x int) fp.List[int] { return list.Of(h(x)) }))), "list.Map = FlatMap . unit")
	zz.Assert(sliceEq(lseq(list.Compose(f, g)(a)), lseq(list.FlatMap(f(a), g))), "list.Compose")
	var ls []fp.List[int]
	for _, x := range lseq(m) {
		ls = append(ls, f(x))
	}
	zz.Assert(sliceEq(lseq(list.Flatten(list.FromSeq(ls))), lseq(list.FlatMap(m, f))), "list.Flatten = FlatMap id")
}

// ---- Iterator (consumed once: every law instance builds fresh iterators)

func drain(it fp.Iterator[int]) []int { return it.ToSeq() }

func VH_c01_iterator_laws() {
	mkBase()
	in := input()
	fresh := func() fp.Iterator[int] { return iterator.FromSeq(append([]int{}, in...)) }
	f := func(x int) fp.Iterator[int] { return iterator.FromSeq(kSeq("f")(x)) }
	g := func(x int) fp.Iterator[int] { return iterator.FromSeq(kSeq("g")(x)) }
	a := zz.Int("a")
	zz.Assert(sliceEq(drain(iterator.FlatMap(iterator.Of(a), f)), drain(f(a))), "Iterator left identity")
	zz.Assert(sliceEq(drain(iterator.FlatMap(fresh(), func(x int) fp.Iterator[int] { return iterator.Of(x) })), in), "Iterator right identity")
	l := iterator.FlatMap(iterator.FlatMap(fresh(), f), g)
	r := iterator.FlatMap(fresh(), func(x int) fp.Iterator[int] { return iterator.FlatMap(f(x), g) })
	zz.Assert(sliceEq(drain(l), drain(r)), "Iterator associativity")
	h := func(x int) int { return zz.UFInt("h", x) }
	zz.Assert(sliceEq(drain(iterator.Map(fresh(), h)), drain(iterator.FlatMap(fresh(), func(x int) fp.Iterator[int] { return iterator.Of(h(x)) }))), "iterator.Map = FlatMap . unit")
	zz.Assert(sliceEq(drain(fresh().Map(h)), drain(iterator.Map(fresh(), h))), "Iterator.Map method")
	zz.Assert(sliceEq(drain(fresh().FlatMap(f)), drain(iterator.FlatMap(fresh(), f))), "Iterator.FlatMap method")
}

// ---- lazy.Eval, fn0, fn1

func VH_c01_eval_fn_laws() {
	a := zz.Int("a")
	mk := func(name string) func(int) lazy.Eval[int] {
		return func(x int) lazy.Eval[int] {
			if zz.UFBool(name+".call", x) {
				return lazy.Call(func() int { return zz.UFInt(name, x) })
			}
			return lazy.Done(zz.UFInt(name, x))
		}
	}
	f, g := mk("f"), mk("g")
	var m lazy.Eval[int]
	switch zz.Choice("m", 3) {
	case 0:
		m = lazy.Done(a)
	case 1:
		m = lazy.Call(func() int { return a })
	case 2:
		m = lazy.TailCall(func() lazy.Eval[int] { return lazy.Done(a) })
	}
	zz.Assert(lazy.Done(a).FlatMap(f).Get() == f(a).Get(), "Eval left identity")
	zz.Assert(m.FlatMap(lazy.Done[int]).Get() == m.Get(), "Eval right identity")
	zz.Assert(m.FlatMap(f).FlatMap(g).Get() == m.FlatMap(func(x int) lazy.Eval[int] { return f(x).FlatMap(g) }).Get(), "Eval associativity")
	h := func(x int) int { return zz.UFInt("h", x) }
	zz.Assert(m.Map(h).Get() == m.FlatMap(func(x int) lazy.Eval[int] { return lazy.Done(h(x)) }).Get(), "Eval.Map = FlatMap . Done")

	// fn0: func(Unit) A
	u := fp.Unit{}
	m0 := fn0.Pure(a)
	k0 := func(x int) fp.Func0[int] { return func(fp.Unit) int { return zz.UFInt("k0", x) } }
	j0 := func(x int) fp.Func0[int] { return func(fp.Unit) int { return zz.UFInt("j0", x) } }
	zz.Assert(fn0.FlatMap(fn0.Pure(a), k0)(u) == k0(a)(u), "fn0 left identity")
	zz.Assert(fn0.FlatMap(m0, fn0.Pure[int])(u) == m0(u), "fn0 right identity")
	zz.Assert(fn0.FlatMap(fn0.FlatMap(m0, k0), j0)(u) == fn0.FlatMap(m0, func(x int) fp.Func0[int] { return fn0.FlatMap(k0(x), j0) })(u), "fn0 associativity")
	zz.Assert(fn0.Map(m0, h)(u) == fn0.FlatMap(m0, func(x int) fp.Func0[int] { return fn0.Pure(h(x)) })(u), "fn0.Map = FlatMap . Pure")

	// fn1: reader monad func(X) A
	env := zz.Int("env")
	m1 := fp.Func1[int, int](func(e int) int { return zz.UFInt("m1", e) })
	k1 := func(x int) fp.Func1[int, int] { return func(e int) int { return zz.UFInt("k1", x, e) } }
	j1 := func(x int) fp.Func1[int, int] { return func(e int) int { return zz.UFInt("j1", x, e) } }
	zz.Assert(fn1.FlatMap(fn1.Pure[int](a), k1)(env) == k1(a)(env), "fn1 left identity")
	zz.Assert(fn1.FlatMap(m1, fn1.Pure[int, int])(env) == m1(env), "fn1 right identity")
	zz.Assert(fn1.FlatMap(fn1.FlatMap(m1, k1), j1)(env) == fn1.FlatMap(m1, func(x int) fp.Func1[int, int] { return fn1.FlatMap(k1(x), j1) })(env), "fn1 associativity")
	zz.Assert(fn1.Map(m1, h)(env) == fn1.FlatMap(m1, func(x int) fp.Func1[int, int] { return fn1.Pure[int](h(x)) })(env), "fn1.Map = FlatMap . Pure")
	zz.Assert(fn1.WithArg(k1)(env) == k1(env)(env), "fn1.WithArg")
	zz.Assert(fn1.Flatten(func(e int) fp.Func1[int, int] { return k1(e) })(env) == k1(env)(env), "fn1.Flatten")
}
