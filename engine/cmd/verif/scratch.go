package main

import (
	"crypto/sha1"
	"encoding/json"
	"fmt"
	"os"
	"os/exec"
	"path/filepath"
	"regexp"
	"sort"
	"strings"
	"sync"
	"syscall"

	"verif/engine/gosym"
	"verif/engine/hgen"
)

// Scratch-program checks (C07/C08/C15): the generator under test is run as a program on generated input
// packages inside a scratch module; its output is then checked symbolically.

type scratchViolation struct {
	dir, msg string
}

type scratchCtx struct {
	dir        string
	progs      []hgen.Program
	patterns   []string
	violations []scratchViolation
	samples    []string
}

func goEnv() []string {
	return append(os.Environ(), "GOFLAGS=-mod=mod", "GOPROXY=off", "GOSUMDB=off", "GOTOOLCHAIN=local")
}

// Every replay build (instrumented overlays, scratch modules) adds tens to hundreds of MB to the Go build
// cache. The tool therefore uses a build cache of its own under /verif/.cache and empties it when it grows
// beyond a bound, so that running the checks many times cannot fill the disk. VERIF_GOCACHE overrides the
// location; VERIF_GOCACHE=default keeps the user's cache.
func setupGoCache() {
	dir := os.Getenv("VERIF_GOCACHE")
	if dir == "default" {
		return
	}
	if dir == "" {
		dir = filepath.Join(verifDir, ".cache", "go-build")
	}
	if err := os.MkdirAll(dir, 0o755); err != nil {
		return
	}
	// Several verif processes may share the cache. Each holds a shared lock for its lifetime; the cache is only
	// emptied by a process that can get the exclusive lock (nobody else is building from it).
	lf, err := os.OpenFile(filepath.Join(filepath.Dir(dir), "go-build.lock"), os.O_CREATE|os.O_RDWR, 0o644)
	if err == nil {
		if syscall.Flock(int(lf.Fd()), syscall.LOCK_EX|syscall.LOCK_NB) == nil {
			const limit = int64(3) << 30
			var size int64
			filepath.Walk(dir, func(_ string, fi os.FileInfo, err error) error {
				if err == nil && !fi.IsDir() {
					size += fi.Size()
				}
				return nil
			})
			if size > limit {
				os.RemoveAll(dir)
				os.MkdirAll(dir, 0o755)
			}
			syscall.Flock(int(lf.Fd()), syscall.LOCK_UN)
		}
		syscall.Flock(int(lf.Fd()), syscall.LOCK_SH)
		cacheLock = lf // kept open until the process exits
	}
	os.Setenv("GOCACHE", dir)
}

var cacheLock *os.File

func writeScratchModule(dir string) error {
	gomod := "module scratchmod\n\ngo 1.23\n\nrequire github.com/csgura/fp v0.0.0\n\nreplace github.com/csgura/fp => " + repoDir + "\n"
	if err := os.WriteFile(filepath.Join(dir, "go.mod"), []byte(gomod), 0o644); err != nil {
		return err
	}
	if b, err := os.ReadFile(filepath.Join(repoDir, "go.sum")); err == nil {
		os.WriteFile(filepath.Join(dir, "go.sum"), b, 0o644)
	}
	zz, err := os.ReadFile(filepath.Join(verifDir, "rt/zzverif/zzverif.go"))
	if err != nil {
		return err
	}
	os.MkdirAll(filepath.Join(dir, "zzverif"), 0o755)
	return os.WriteFile(filepath.Join(dir, "zzverif", "zzverif.go"), zz, 0o644)
}

func prepareScratch(id, tier string, progs []hgen.Program) (*scratchCtx, int) {
	dir, err := os.MkdirTemp("", "verif-scratch-"+id+"-")
	if err != nil {
		fmt.Println(err)
		return nil, 2
	}
	sc := &scratchCtx{dir: dir, progs: progs}
	if err := writeScratchModule(dir); err != nil {
		fmt.Println("INCONCLUSIVE:", err)
		os.RemoveAll(dir)
		return nil, 2
	}
	// the generator is built from the current working tree
	gb := filepath.Join(dir, "gombok.bin")
	build := exec.Command("go", "build", "-o", gb, "./cmd/gombok")
	build.Dir = repoDir
	build.Env = goEnv()
	if out, err := build.CombinedOutput(); err != nil {
		fmt.Printf("INCONCLUSIVE: cannot build cmd/gombok from the working tree:\n%s\n", out)
		os.RemoveAll(dir)
		return nil, 2
	}
	var mu sync.Mutex
	var wg sync.WaitGroup
	sem := make(chan struct{}, 12)
	okPkgs := map[string]bool{}
	for _, p := range progs {
		if p.NoGombok {
			pd := filepath.Join(dir, p.Pkg)
			os.MkdirAll(pd, 0o755)
			for n, b := range p.Files {
				os.WriteFile(filepath.Join(pd, n), b, 0o644)
			}
		}
	}
	for _, p := range progs {
		p := p
		if p.NoGombok {
			continue
		}
		wg.Add(1)
		go func() {
			defer wg.Done()
			sem <- struct{}{}
			defer func() { <-sem }()
			pd := filepath.Join(dir, p.Pkg)
			os.MkdirAll(pd, 0o755)
			for n, b := range p.Files {
				os.WriteFile(filepath.Join(pd, n), b, 0o644)
			}
			cmd := exec.Command(gb)
			cmd.Dir = pd
			cmd.Env = append(goEnv(), "GOPACKAGE="+p.Pkg, "GOFILE=types.go", "GOLINE=1")
			out, err := cmd.CombinedOutput()
			if err != nil {
				mu.Lock()
				sc.violations = append(sc.violations, scratchViolation{sc.keep(id, p.Pkg, "gombok-failed"), fmt.Sprintf("program %s: gombok rejected an input of the accepted grammar or crashed: %s", p.Pkg, lastLines(string(out), 3))})
				mu.Unlock()
				return
			}
			// the generated file must compile together with the package (before any harness is added)
			vet := exec.Command("go", "build", "./"+p.Pkg)
			vet.Dir = dir
			vet.Env = goEnv()
			if out, err := vet.CombinedOutput(); err != nil {
				mu.Lock()
				sc.violations = append(sc.violations, scratchViolation{sc.keep(id, p.Pkg, "does-not-compile"), fmt.Sprintf("program %s: generated code does not compile: %s", p.Pkg, lastLines(string(out), 4))})
				mu.Unlock()
				return
			}
			for n, b := range p.Harness {
				os.WriteFile(filepath.Join(pd, n), b, 0o644)
			}
			// harness against generated API: a missing/renamed method shows up here
			vet2 := exec.Command("go", "build", "./"+p.Pkg)
			vet2.Dir = dir
			vet2.Env = goEnv()
			if out, err := vet2.CombinedOutput(); err != nil {
				// the harness is generated from the same specification and type-checks against the output of the
				// unchanged generator: a mismatch means a member is missing or has another signature / arity
				mu.Lock()
				sc.violations = append(sc.violations, scratchViolation{sc.keep(id, p.Pkg, "api-missing"), fmt.Sprintf("program %s: the generated API does not have the members/signatures the specification requires: %s", p.Pkg, lastLines(string(out), 4))})
				mu.Unlock()
				return
			}
			mu.Lock()
			okPkgs[p.Pkg] = true
			if len(sc.samples) < 3 {
				sc.samples = append(sc.samples, string(p.Files["types.go"]))
			}
			mu.Unlock()
		}()
	}
	wg.Wait()
	for _, p := range progs {
		if okPkgs[p.Pkg] {
			sc.patterns = append(sc.patterns, "./"+p.Pkg)
		}
	}
	sort.Strings(sc.patterns)
	if len(sc.patterns) == 0 {
		for _, v := range sc.violations {
			fmt.Printf("VIOLATION property=%s replay=%s\n  %s\n", id, v.dir, v.msg)
		}
		os.RemoveAll(dir)
		return nil, 1
	}
	return sc, 0
}

func lastLines(s string, n int) string {
	ls := strings.Split(strings.TrimSpace(s), "\n")
	if len(ls) > n {
		ls = ls[len(ls)-n:]
	}
	return strings.Join(ls, " | ")
}

// copySupport copies the generator-free support packages next to a kept package.
func (sc *scratchCtx) copySupport(dst string) {
	for _, p := range sc.progs {
		if !p.NoGombok {
			continue
		}
		os.MkdirAll(filepath.Join(dst, p.Pkg), 0o755)
		for n, b := range p.Files {
			os.WriteFile(filepath.Join(dst, p.Pkg, n), b, 0o644)
		}
	}
}

// keep copies a scratch package (with module files) to the replay area and returns that directory.
func (sc *scratchCtx) keep(id, pkg, why string) string {
	dst := filepath.Join(verifDir, "replays", id, "scratch-"+pkg+"-"+why)
	os.RemoveAll(dst)
	os.MkdirAll(filepath.Join(dst, pkg), 0o755)
	files, _ := filepath.Glob(filepath.Join(sc.dir, pkg, "*.go"))
	for _, f := range files {
		b, _ := os.ReadFile(f)
		os.WriteFile(filepath.Join(dst, pkg, filepath.Base(f)), b, 0o644)
	}
	sc.copySupport(dst)
	os.WriteFile(filepath.Join(dst, "scratch.json"), []byte(fmt.Sprintf(`{"pkg": %q, "why": %q}`, pkg, why)), 0o644)
	return dst
}

func (sc *scratchCtx) replay(id, tier string, c *gosym.Cex, h *gosym.Harness) (string, bool, string) {
	pkg := filepath.Base(h.PkgPath)
	hsh := sha1.Sum([]byte(fmt.Sprint(c.Vec, c.Label, c.Kind)))
	dst := filepath.Join(verifDir, "replays", id, fmt.Sprintf("%s-%s-%x", pkg, c.Harness, hsh[:4]))
	os.RemoveAll(dst)
	os.MkdirAll(filepath.Join(dst, pkg), 0o755)
	files, _ := filepath.Glob(filepath.Join(sc.dir, pkg, "*.go"))
	for _, f := range files {
		b, _ := os.ReadFile(f)
		os.WriteFile(filepath.Join(dst, pkg, filepath.Base(f)), b, 0o644)
	}
	vf := vectorFile{Harness: c.Harness, Pkg: h.PkgPath, Tier: tier, Property: id, Decision: c.Vec, Tape: c.Tape, Sched: c.Sched, Model: c.Model,
		Expect: map[string]string{"kind": c.Kind, "label": c.Label, "msg": c.Msg}}
	b, _ := json.MarshalIndent(vf, "", " ")
	os.WriteFile(filepath.Join(dst, "vector.json"), b, 0o644)
	test := fmt.Sprintf("package %s\n\nimport (\n\t\"testing\"\n\n\t\"scratchmod/zzverif\"\n)\n\nfunc TestZZReplay(t *testing.T) {\n\tif out := zzverif.RunReplay(%q, %s); out != \"ok\" {\n\t\tt.Fatalf(\"replay outcome: %%s\", out)\n\t}\n}\n", h.PkgName, c.Harness, c.Harness)
	os.WriteFile(filepath.Join(dst, pkg, "zz_verif_replay_test.go"), []byte(test), 0o644)
	sc.copySupport(dst)
	os.WriteFile(filepath.Join(dst, "scratch.json"), []byte(fmt.Sprintf(`{"pkg": %q, "why": "counterexample"}`, pkg)), 0o644)
	ok, det := runScratchReplay(dst)
	return dst, ok, det
}

// runScratchReplay rebuilds a scratch module around a kept package and runs the native replay (or the build).
func runScratchReplay(dir string) (bool, string) {
	var meta struct{ Pkg, Why string }
	b, err := os.ReadFile(filepath.Join(dir, "scratch.json"))
	if err != nil {
		return false, err.Error()
	}
	json.Unmarshal(b, &meta)
	tmp, err := os.MkdirTemp("", "verif-scratch-replay-")
	if err != nil {
		return false, err.Error()
	}
	defer os.RemoveAll(tmp)
	if err := writeScratchModule(tmp); err != nil {
		return false, err.Error()
	}
	// the kept package and every support package stored next to it
	subs, _ := os.ReadDir(dir)
	for _, d := range subs {
		if !d.IsDir() {
			continue
		}
		os.MkdirAll(filepath.Join(tmp, d.Name()), 0o755)
		files, _ := filepath.Glob(filepath.Join(dir, d.Name(), "*.go"))
		for _, f := range files {
			b, _ := os.ReadFile(f)
			os.WriteFile(filepath.Join(tmp, d.Name(), filepath.Base(f)), b, 0o644)
		}
	}
	switch meta.Why {
	case "does-not-compile", "api-missing", "gombok-failed":
		cmd := exec.Command("go", "build", "./"+meta.Pkg)
		cmd.Dir = tmp
		cmd.Env = goEnv()
		out, err := cmd.CombinedOutput()
		os.WriteFile(filepath.Join(dir, "replay.log"), out, 0o644)
		if err != nil {
			return true, "native build fails: " + lastLines(string(out), 2)
		}
		return false, "native build succeeds"
	}
	var vf vectorFile
	b, _ = os.ReadFile(filepath.Join(dir, "vector.json"))
	json.Unmarshal(b, &vf)
	bin := filepath.Join(tmp, "replay.test")
	env := append(goEnv(), "ZZVERIF_TAPE="+filepath.Join(dir, "vector.json"))
	build := exec.Command("go", "test", "-c", "-vet=off", "-o", bin, "./"+meta.Pkg)
	build.Dir = tmp
	build.Env = env
	if out, err := build.CombinedOutput(); err != nil {
		os.WriteFile(filepath.Join(dir, "replay.log"), out, 0o644)
		return false, "native build failed: " + lastLines(string(out), 2)
	}
	cmd := exec.Command(bin, "-test.run", "^TestZZReplay$", "-test.timeout", "20s", "-test.v")
	cmd.Dir = tmp
	cmd.Env = env
	out, _ := cmd.CombinedOutput()
	os.WriteFile(filepath.Join(dir, "replay.log"), out, 0o644)
	so := string(out)
	m := regexp.MustCompile(`ZZVERIF-OUTCOME \S+ (.*)`).FindStringSubmatch(so)
	got := ""
	if m != nil {
		got = strings.TrimSpace(m[1])
	}
	switch vf.Expect["kind"] {
	case "witness":
		if got == "ok" {
			return true, "native run passes too"
		}
	case "assert":
		if got == "assert:"+vf.Expect["label"] {
			return true, got
		}
	case "panic":
		if strings.HasPrefix(got, "panic:") {
			return true, got
		}
	case "bound":
		if strings.Contains(so, "test timed out") || strings.Contains(so, "stack overflow") {
			return true, "native run does not terminate"
		}
	}
	return false, "native outcome: " + got
}
