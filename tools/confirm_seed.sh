#!/bin/bash
# usage: confirm_seed.sh <name> <dir with patch.diff, demo file, notes.md> <property-id> <caught-by or "-">
# Confirms a seeded change independently in a scratch worktree and stores it under /verif/seeded/<name>/.
set -u
name="$1"; src="$2"; prop="$3"; caught="${4:--}"
export GOFLAGS=-mod=mod GOPROXY=off GOSUMDB=off GOTOOLCHAIN=local
wt=/tmp/confirm_$name
git -C /repo worktree remove --force $wt 2>/dev/null
git -C /repo worktree add -q --detach $wt HEAD || exit 9
cleanup() { git -C /repo worktree remove --force $wt 2>/dev/null; rm -rf $wt; }
trap cleanup EXIT
demo=$(ls $src | grep -E "demo.*\.go$" | head -1)
place=$(grep -m1 -oE "place in:? *[A-Za-z0-9_/\.]+" $src/$demo | sed -E 's/place in:? *//'); case "$place" in the|repo*|root) place=".";; esac
[ -z "$place" ] && place="."
place=${place%/}
run=$(grep -m1 -oE -e "-run '?[A-Za-z0-9_|]+" $src/$demo | head -1 | tr -d "'")
[ -z "$run" ] && run="-run TestC"
cd $wt
git apply $src/patch.diff || { echo "PATCH FAILS"; exit 1; }
b=$(go build ./... 2>&1 | tail -3); [ -n "$b" ] && { echo "BUILD FAILS: $b"; exit 1; }
t=$(go test -vet=off -count=1 ./... 2>&1 | grep -v "^ok\|no test files" | head -5)
[ -n "$t" ] && { echo "EXISTING TESTS FAIL WITH CHANGE: $t"; exit 1; }
cp $src/$demo $wt/$place/zz_seed_demo_test.go
with=$(go test -vet=off -count=1 $run ./$place 2>&1 | tail -3 | tr '\n' ' ')
echo "$with" | grep -q "FAIL" || { echo "DEMO DOES NOT FAIL WITH CHANGE: $with"; exit 1; }
git checkout -q -- . 
without=$(go test -vet=off -count=1 $run ./$place 2>&1 | tail -2 | tr '\n' ' ')
echo "$without" | grep -q "^ok\|ok " || { echo "DEMO DOES NOT PASS WITHOUT CHANGE: $without"; exit 1; }
mkdir -p /verif/seeded/$name
cp $src/patch.diff /verif/seeded/$name/patch.diff
cp $src/$demo /verif/seeded/$name/$demo
[ -f $src/notes.md ] && cp $src/notes.md /verif/seeded/$name/notes.md
python3 - "$name" "$prop" "$caught" "$place" "$run" <<'PY'
import json,sys,re
name,prop,caught,place,run=sys.argv[1:6]
notes=open('/verif/seeded/%s/notes.md'%name).read() if __import__('os').path.exists('/verif/seeded/%s/notes.md'%name) else ''
m=re.search(r'(?is)(needed|trigger|manifest)[^\n]*\n(.{0,900})',notes)
json.dump({"property":prop,"name":name,"needs":(m.group(2).strip() if m else "see notes.md"),
 "confirmed":{"worktree":"scratch worktree of /repo HEAD (removed afterwards)","steps":["git apply patch.diff","go build ./... (ok)","go test -vet=off -count=1 ./... (all packages ok with the change)","demo placed in %s/, go test %s: FAIL with the change"%(place,run),"git checkout -- . ; same demo: ok without the change"]},
 "caught_by":caught},open('/verif/seeded/%s/meta.json'%name,'w'),indent=1)
PY
echo "CONFIRMED $name (demo in $place, $run)"
