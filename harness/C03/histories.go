//verif:overlay internal/zzverif_h/c03/h.go
package c03

import (
	"github.com/csgura/fp"
	"github.com/csgura/fp/as"
	"github.com/csgura/fp/immutable"
	zz "github.com/csgura/fp/internal/zzverif"
	"github.com/csgura/fp/iterator"
	"github.com/csgura/fp/list"
	"github.com/csgura/fp/seq"
)

// Hasher: the start-state keys have fixed hashes (tables below); every other key k hashes to
// frag0(k) | UF(k)<<5 where the level-0 fragment is one of a few representative slots (chosen by a concrete
// fork) and all higher bits are an uninterpreted function of the key - so collisions and shared prefixes with
// existing keys at any deeper level are the solver's choice. Eqv is ==, hence the hasher is lawful.
type hasher struct {
	keys  []int
	hs    []uint32
	reps  []uint32
	frag0 map[string]uint32
}

func (h *hasher) Eqv(a, b int) bool { return a == b }

func (h *hasher) Hash(k int) uint32 {
	for i, c := range h.keys {
		if k == c {
			return h.hs[i]
		}
	}
	return h.symHash(k)
}

// symbolic keys are registered by name so that their level-0 fragment is chosen once
var symKeys []symKey

type symKey struct {
	k  int
	f0 uint32
}

func (h *hasher) symHash(k int) uint32 {
	for _, s := range symKeys {
		if s.k == k {
			return s.f0 | uint32(zz.UFInt("h", k))<<5
		}
	}
	f0 := h.reps[zz.Choice("frag0", len(h.reps))]
	symKeys = append(symKeys, symKey{k, f0})
	return f0 | uint32(zz.UFInt("h", k))<<5
}

// reference map: association list
type model struct {
	ks, vs []int
}

func (m *model) find(k int) int {
	for i := range m.ks {
		if m.ks[i] == k {
			return i
		}
	}
	return -1
}
func (m *model) set(k, v int) {
	if i := m.find(k); i >= 0 {
		m.vs = append(append(append([]int{}, m.vs[:i]...), v), m.vs[i+1:]...)
		return
	}
	m.ks = append(append([]int{}, m.ks...), k)
	m.vs = append(append([]int{}, m.vs...), v)
}
func (m *model) del(k int) {
	if i := m.find(k); i >= 0 {
		m.ks = append(append([]int{}, m.ks[:i]...), m.ks[i+1:]...)
		m.vs = append(append([]int{}, m.vs[:i]...), m.vs[i+1:]...)
	}
}

// agree: Size/IsEmpty, Get of every key in play, and the drained iterator as a multiset
func agree(m fp.Map[int, int], md *model, extra []int, l string) {
	zz.Assert(m.Size() == len(md.ks), l+": Size is the number of distinct keys")
	zz.Assert(m.IsEmpty() == (len(md.ks) == 0) && m.NonEmpty() == (len(md.ks) > 0), l+": IsEmpty/NonEmpty")
	for i, k := range md.ks {
		g := m.Get(k)
		zz.Assert(g.IsDefined() && g.Get() == md.vs[i], l+": Get returns the last value written")
		zz.Assert(m.Contains(k), l+": Contains")
	}
	for _, k := range extra {
		if md.find(k) < 0 {
			zz.Assert(m.Get(k).IsEmpty() && !m.Contains(k), l+": absent or removed key is not found")
		}
	}
	seen := make([]int, len(md.ks))
	n := 0
	for it := m.Iterator(); it.HasNext(); {
		e := it.Next()
		n++
		i := md.find(e.I1)
		zz.Assert(i >= 0 && e.I2 == md.vs[i], l+": Iterator yields only entries of the map with their latest value")
		if i >= 0 {
			seen[i]++
		}
		if n > len(md.ks)+2 {
			break
		}
	}
	zz.Assert(n == len(md.ks), l+": Iterator yields Size entries")
	for i := range seen {
		zz.Assert(seen[i] == 1, l+": Iterator yields every entry exactly once")
	}
}

type start struct {
	name string
	hs   []uint32 // hashes of keys 100, 101, ...
	reps []uint32 // representative level-0 fragments for new keys
	del  int      // number of trailing keys removed again after construction (shrinking)
}

func starts() []start {
	seqH := func(n int) []uint32 {
		var out []uint32
		for i := 0; i < n; i++ {
			out = append(out, uint32(i+1))
		}
		return out
	}
	return []start{
		{"empty", nil, []uint32{3}, 0},
		{"array5", []uint32{1, 2, 3, 4, 1 | 7<<5}, []uint32{0, 1, 9}, 0},
		{"array8", []uint32{1, 2, 3, 4, 5, 6, 7, 1 | 1<<5}, []uint32{0, 1, 9}, 0},
		// 13 keys: plain children, two keys sharing one level, two sharing two levels, a full 32-bit collision
		{"bitmap13", []uint32{1, 2, 3, 4, 5, 6, 10, 7 | 1<<5, 7 | 2<<5, 8 | 3<<5 | 1<<10, 8 | 3<<5 | 2<<10, 9, 9}, []uint32{0, 5, 7, 8, 9, 20}, 0},
		{"bitmap17", seqH(17), []uint32{0, 9, 17, 25}, 0},
		{"hasharray20", seqH(20), []uint32{0, 9, 20, 30}, 0},
		{"hasharray16", seqH(18), []uint32{0, 9, 16, 30}, 2},
	}
}

func findStart(name string) start {
	for _, s := range starts() {
		if s.name == name {
			return s
		}
	}
	panic("unknown start state")
}

// build constructs the start state through one of the public constructors
func build(s start, h *hasher, ctor int) (fp.Map[int, int], *model) {
	md := &model{}
	var tuples []fp.Tuple2[int, int]
	for i, hv := range s.hs {
		h.keys = append(h.keys, 100+i)
		h.hs = append(h.hs, hv)
		tuples = append(tuples, as.Tuple2(100+i, 1000+i))
		md.set(100+i, 1000+i)
	}
	h.reps = s.reps
	var m fp.Map[int, int]
	switch ctor {
	case 0:
		m = immutable.Map[int, int](h, tuples...) // builder path (in-place nodes)
	case 1:
		m = immutable.Map[int, int](h) // persistent path, one Updated per key
		for _, t := range tuples {
			m = m.Updated(t.I1, t.I2)
		}
	case 2:
		m = seq.ToMap(fp.Seq[fp.Tuple2[int, int]](tuples), fp.Hashable[int](h))
	case 3:
		m = list.ToMap(list.FromSeq(tuples), fp.Hashable[int](h))
	case 4:
		m = iterator.ToMap(iterator.FromSeq(tuples), fp.Hashable[int](h))
	case 5:
		b := immutable.MapBuilder[int, int](h)
		for _, t := range tuples {
			b = b.Add(t.I1, t.I2)
		}
		m = b.Build()
	}
	for i := 0; i < s.del; i++ {
		k := 100 + len(s.hs) - 1 - i
		m = m.Removed(k)
		md.del(k)
	}
	return m, md
}

func step(m fp.Map[int, int], md *model, k int, tag string) fp.Map[int, int] {
	v := zz.Int("v" + tag)
	switch zz.Choice("op"+tag, 5) {
	case 0:
		md.set(k, v)
		return m.Updated(k, v)
	case 1:
		md.del(k)
		return m.Removed(k)
	case 4:
		md.del(101)
		md.del(k)
		md.del(106)
		return m.Removed(101, k, 106)
	case 2:
		shape := zz.Choice("remap"+tag, 3)
		old, had := 0, false
		if i := md.find(k); i >= 0 {
			old, had = md.vs[i], true
		}
		calls := 0
		r := m.UpdatedWith(k, func(o fp.Option[int]) fp.Option[int] {
			calls++
			zz.Assert(o.IsDefined() == had && (!had || o.Get() == old), "UpdatedWith: remap sees the current binding")
			switch shape {
			case 0:
				return fp.Some(v)
			case 1:
				return fp.None[int]()
			}
			return o
		})
		zz.Assert(calls == 1, "UpdatedWith: remap called once")
		switch shape {
		case 0:
			md.set(k, v)
		case 1:
			md.del(k)
		}
		return r
	}
	// Concat with a small map built on the zero value (right bias)
	w := zz.Int("w" + tag)
	other := fp.Map[int, int]{}.Updated(k, v).Updated(k, w)
	md.set(k, w)
	return m.Concat(other)
}

// every constructor yields the same map, and one further symbolic step behaves
func ctors(name string) {
	zz.Config("loop", 2000)
	symKeys = nil
	h := &hasher{}
	m, md := build(findStart(name), h, zz.Choice("ctor", 6))
	agree(m, md, nil, name+" constructed")
	ka := zz.Int("ka")
	m1 := step(m, md, ka, "1")
	agree(m1, md, []int{ka}, name+" constructed+step")
}

func history(name string, distinct bool) {
	zz.Config("loop", 2000)
	symKeys = nil
	h := &hasher{}
	m, md := build(findStart(name), h, 1)
	agree(m, md, nil, name+" start")
	ka := zz.Int("ka")
	m1 := step(m, md, ka, "1")
	agree(m1, md, []int{ka}, name+" step1")
	kb := ka
	if distinct {
		kb = zz.Int("kb")
	}
	m2 := step(m1, md, kb, "2")
	agree(m2, md, []int{ka, kb}, name+" step2")
	if zz.Bound("c03steps", 2, 3) > 2 {
		kc := ka
		if zz.Bool("third.kb") {
			kc = kb
		}
		m3 := step(m2, md, kc, "3")
		agree(m3, md, []int{ka, kb}, name+" step3")
	}
}

func VH_c03_hist_empty()       { history("empty", true) }
func VH_c03_hist_array5()      { history("array5", true) }
func VH_c03_hist_array8()      { history("array8", false) }
func VH_c03_hist_bitmap13()    { history("bitmap13", false) }
func VH_c03_hist_bitmap17()    { history("bitmap17", false) }
func VH_c03_hist_hasharray20() { history("hasharray20", false) }
func VH_c03_hist_hasharray16() { history("hasharray16", false) }

func VH_c03_ctor_empty()       { ctors("empty") }
func VH_c03_ctor_array5()      { ctors("array5") }
func VH_c03_ctor_array8()      { ctors("array8") }
func VH_c03_ctor_bitmap13()    { ctors("bitmap13") }
func VH_c03_ctor_bitmap17()    { ctors("bitmap17") }
func VH_c03_ctor_hasharray20() { ctors("hasharray20") }
func VH_c03_ctor_hasharray16() { ctors("hasharray16") }
