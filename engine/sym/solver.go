package sym

import (
	"bufio"
	"fmt"
	"io"
	"os"
	"os/exec"
	"strconv"
	"strings"
	"time"
)

type Result int

const (
	Unsat Result = iota
	Sat
	Unknown
)

func (r Result) String() string { return [...]string{"unsat", "sat", "unknown"}[r] }

// Solver drives one long-lived `z3 -in` (or compatible) process.
type Solver struct {
	Bin           []string
	TimeoutMs     int
	cmd           *exec.Cmd
	in            io.WriteCloser
	out           *bufio.Reader
	defined       map[int]bool
	declared      map[string]bool
	Queries       int
	NSat          int
	NUnsat        int
	NUnknown      int
	Errors        int
	Time          time.Duration
	Trace         io.Writer // optional transcript
	inPath        bool
	Mirror        *Solver // optional second solver that receives the same session; verdicts are compared
	MirrorAll     bool    // mirror every check (default: only the checks announced through MirrorNext, i.e. assertion queries)
	MirrorNext    bool
	mirrorThis    bool
	MirrorChecks  int
	MirrorSkipped int
	MirrorTime    time.Duration
	mirrorSkip    int
	Disagree      int
	Slowest       time.Duration
	NSlow         int
	Lost          bool // the process was killed after a hard timeout: the current path context is gone
	lines         chan string
}

func NewSolver(bin []string, timeoutMs int) *Solver {
	s := &Solver{Bin: bin, TimeoutMs: timeoutMs}
	if p := os.Getenv("VERIF_SOLVER_TRACE"); p != "" {
		f, _ := os.CreateTemp("", p+"-*.smt2")
		s.Trace = f
	}
	s.start()
	return s
}

func (s *Solver) start() {
	s.cmd = exec.Command(s.Bin[0], s.Bin[1:]...)
	in, _ := s.cmd.StdinPipe()
	out, _ := s.cmd.StdoutPipe()
	s.cmd.Stderr = nil
	if err := s.cmd.Start(); err != nil {
		panic(fmt.Sprintf("cannot start solver %v: %v", s.Bin, err))
	}
	s.in = in
	s.out = bufio.NewReaderSize(out, 1<<16)
	lines := make(chan string, 256)
	s.lines = lines
	rd := s.out
	go func() {
		for {
			l, err := rd.ReadString('\n')
			if err != nil {
				close(lines)
				return
			}
			lines <- strings.TrimSpace(l)
		}
	}()
	s.send("(set-option :produce-models true)")
	if strings.Contains(s.Bin[0], "z3-new") || strings.Contains(s.Bin[0], "cvc5") {
		s.send("(set-logic QF_UFBV)")
	}
	if strings.Contains(s.Bin[0], "z3") {
		s.send(fmt.Sprintf("(set-option :timeout %d)", s.TimeoutMs))
	}
	s.defined = map[int]bool{}
	s.declared = map[string]bool{}
	s.inPath = false
}

func (s *Solver) Close() {
	if s.Mirror != nil {
		s.Mirror.Close()
		s.Mirror = nil
	}
	if s.cmd != nil {
		s.in.Close()
		s.cmd.Process.Kill()
		s.cmd.Wait()
		s.cmd = nil
	}
}

func (s *Solver) restart() {
	if s.Mirror != nil {
		s.Mirror.Close()
		s.Mirror = nil
	}
	s.Close()
	s.start()
}

func (s *Solver) send(line string) {
	if s.Trace != nil {
		fmt.Fprintln(s.Trace, line)
	}
	io.WriteString(s.in, line)
	io.WriteString(s.in, "\n")
	if s.Mirror != nil && !strings.HasPrefix(line, "(get-value") && !strings.HasPrefix(line, "(set-option :timeout") && (s.mirrorThis || !strings.HasPrefix(line, "(check-sat")) {
		io.WriteString(s.Mirror.in, line)
		io.WriteString(s.Mirror.in, "\n")
	}
}

// mirrorVerdict reads the second solver's answer to the check that was just sent.
func (s *Solver) mirrorVerdict() Result {
	for {
		l, err := s.Mirror.readLine()
		if err != nil {
			s.Mirror = nil
			return Unknown
		}
		switch {
		case l == "sat":
			return Sat
		case l == "unsat":
			return Unsat
		case l == "unknown" || l == "timeout":
			return Unknown
		case strings.HasPrefix(l, "(error"):
			return Unknown
		}
	}
}

// BeginPath opens a fresh scope; all declarations/definitions live inside it.
func (s *Solver) BeginPath() {
	s.Lost = false
	if s.inPath {
		s.EndPath()
	}
	s.send("(push 1)")
	s.defined = map[int]bool{}
	s.declared = map[string]bool{}
	s.inPath = true
}

func (s *Solver) EndPath() {
	if s.inPath {
		s.send("(pop 1)")
		s.inPath = false
	}
}

func (s *Solver) declare(st *Store, t *Term) {
	switch t.Op {
	case "v":
		if !s.declared["v:"+t.Name] {
			s.declared["v:"+t.Name] = true
			s.send(fmt.Sprintf("(declare-const %s %s)", SafeName(t.Name), t.Sort()))
		}
	case "uf":
		if !s.declared["u:"+t.Name] {
			s.declared["u:"+t.Name] = true
			var sb strings.Builder
			for _, a := range t.Args {
				sb.WriteString(a.Sort())
				sb.WriteByte(' ')
			}
			s.send(fmt.Sprintf("(declare-fun %s (%s) %s)", SafeName("uf_"+t.Name), sb.String(), t.Sort()))
		}
	}
}

// Define makes sure t (and all subterms) are known to the solver.
func (s *Solver) Define(st *Store, t *Term) {
	type fr struct {
		t *Term
		i int
	}
	if t.Op == "c" {
		return
	}
	stack := []fr{{t, 0}}
	for len(stack) > 0 {
		top := &stack[len(stack)-1]
		if top.t.Op == "c" || (top.t.Op != "v" && s.defined[top.t.ID]) {
			stack = stack[:len(stack)-1]
			continue
		}
		if top.t.Op == "v" {
			s.declare(st, top.t)
			stack = stack[:len(stack)-1]
			continue
		}
		if top.i < len(top.t.Args) {
			a := top.t.Args[top.i]
			top.i++
			stack = append(stack, fr{a, 0})
			continue
		}
		if top.t.Op == "uf" {
			s.declare(st, top.t)
		}
		s.send(fmt.Sprintf("(define-fun t%d () %s %s)", top.t.ID, top.t.Sort(), Body(top.t)))
		s.defined[top.t.ID] = true
		stack = stack[:len(stack)-1]
	}
}

func (s *Solver) Assert(st *Store, t *Term) {
	if t.IsTrue() {
		return
	}
	s.Define(st, t)
	s.send("(assert " + Ref(t) + ")")
}

var errTimeout = fmt.Errorf("solver hard timeout")

// readLine waits for the next output line; if the solver stays silent far beyond its own timeout the
// process is considered stuck.
func (s *Solver) readLine() (string, error) {
	limit := time.Duration(s.TimeoutMs)*time.Millisecond*2 + 10*time.Second
	select {
	case l, ok := <-s.lines:
		if !ok {
			return "", io.EOF
		}
		return l, nil
	case <-time.After(limit):
		return "", errTimeout
	}
}

// Check runs check-sat under the given extra literals (terms must be Bool).
func (s *Solver) Check(st *Store, assume []*Term, negate []bool) Result {
	lits := make([]string, 0, len(assume))
	for i, a := range assume {
		if a.IsConst() {
			v := a.C == 1
			if negate[i] {
				v = !v
			}
			if !v {
				return Unsat
			}
			continue
		}
		s.Define(st, a)
		if negate[i] {
			lits = append(lits, "(not "+Ref(a)+")")
		} else {
			lits = append(lits, Ref(a))
		}
	}
	t0 := time.Now()
	s.Queries++
	s.mirrorThis = s.Mirror != nil && (s.MirrorAll || s.MirrorNext)
	s.MirrorNext = false
	if s.mirrorThis && s.MirrorTime > 20*time.Second && 2*s.MirrorTime > s.Time {
		// the second solver has become the bottleneck of this session (it accounts for more than half of the solver time:
		// from here on it cross-checks a sample of the assertion queries)
		s.mirrorSkip++
		if s.mirrorSkip%20 != 0 {
			s.mirrorThis = false
			s.MirrorSkipped++
		}
	}
	if s.mirrorThis {
		s.MirrorChecks++
	}
	if len(lits) == 0 {
		s.send("(check-sat)")
	} else {
		// push/assert/pop is portable across z3 and cvc5 and keeps the model available before pop
		s.send("(check-sat-assuming (" + strings.Join(lits, " ") + "))")
	}
	res := Unknown
	for {
		l, err := s.readLine()
		if err != nil {
			s.Errors++
			s.restart()
			s.Lost = true
			res = Unknown
			break
		}
		if l == "" {
			continue
		}
		if l == "sat" {
			res = Sat
			break
		}
		if l == "unsat" {
			res = Unsat
			break
		}
		if l == "unknown" || l == "timeout" {
			res = Unknown
			break
		}
		if strings.HasPrefix(l, "(error") {
			s.Errors++
			if s.Trace != nil {
				fmt.Fprintln(s.Trace, "; SOLVER ERROR: "+l)
			}
			// keep reading: the check-sat answer still follows, but it is not trusted
			for {
				l2, err2 := s.readLine()
				if err2 != nil || l2 == "sat" || l2 == "unsat" || l2 == "unknown" {
					break
				}
			}
			res = Unknown
			break
		}
	}
	if s.Mirror != nil && s.mirrorThis {
		tm := time.Now()
		mv := s.mirrorVerdict()
		s.MirrorTime += time.Since(tm)
		if mv != Unknown && res != Unknown && mv != res {
			s.Disagree++
			res = Unknown
		}
	}
	dt := time.Since(t0)
	s.Time += dt
	if dt > s.Slowest {
		s.Slowest = dt
	}
	if dt > 500*time.Millisecond {
		s.NSlow++
	}
	switch res {
	case Sat:
		s.NSat++
	case Unsat:
		s.NUnsat++
	default:
		s.NUnknown++
	}
	return res
}

// Eval returns the model values of the terms (after a Sat answer).
func (s *Solver) Eval(st *Store, ts []*Term) ([]uint64, bool) {
	out := make([]uint64, len(ts))
	for i, t := range ts {
		if t.IsConst() {
			out[i] = t.C
			continue
		}
		s.Define(st, t)
		s.send("(get-value (" + Ref(t) + "))")
		// response: ((tN #x..)) possibly multi-line
		var sb strings.Builder
		depth := 0
		started := false
		for {
			l, err := s.readLine()
			if err != nil {
				return nil, false
			}
			if strings.HasPrefix(l, "(error") {
				s.Errors++
				return nil, false
			}
			sb.WriteString(l)
			sb.WriteByte(' ')
			for _, ch := range l {
				if ch == '(' {
					depth++
					started = true
				} else if ch == ')' {
					depth--
				}
			}
			if started && depth <= 0 {
				break
			}
		}
		v, ok := parseValue(sb.String())
		if !ok {
			return nil, false
		}
		out[i] = v
	}
	return out, true
}

func parseValue(resp string) (uint64, bool) {
	// find last token before the closing "))"
	r := strings.TrimSpace(resp)
	r = strings.TrimRight(r, ") ")
	idx := strings.LastIndexAny(r, " (")
	tok := r[idx+1:]
	switch {
	case tok == "true":
		return 1, true
	case tok == "false":
		return 0, true
	case strings.HasPrefix(tok, "#x"):
		v, err := strconv.ParseUint(tok[2:], 16, 64)
		return v, err == nil
	case strings.HasPrefix(tok, "#b"):
		v, err := strconv.ParseUint(tok[2:], 2, 64)
		return v, err == nil
	}
	// (_ bv123 64)
	if i := strings.Index(r, "(_ bv"); i >= 0 {
		rest := r[i+5:]
		j := strings.IndexByte(rest, ' ')
		if j > 0 {
			v, err := strconv.ParseUint(rest[:j], 10, 64)
			return v, err == nil
		}
	}
	return 0, false
}
