//verif:overlay internal/zzverif_h/iters/c20.go
package iters

import (
	zz "github.com/csgura/fp/internal/zzverif"
)

// script drives one iterator with a nondeterministic sequence of HasNext/Next calls and compares every answer
// with a cursor over the expected output.
func script(p prod) {
	n := zz.Bound("inlen", 2, 3)
	steps := zz.Bound("script", 6, 8)
	in := zz.SliceInt("in", n, 0, 0)
	it, exp := p.mk(in)
	cur := 0
	for s := 0; s < steps; s++ {
		if zz.Choice("op", 2) == 0 {
			zz.Assert(it.HasNext() == (cur < len(exp)), p.name+": HasNext is true exactly while elements remain (idempotent, non-consuming)")
		} else if cur < len(exp) {
			zz.Assert(it.Next() == exp[cur], p.name+": Next returns the next element")
			cur++
		} else {
			zz.Assert(nextPanics(it), p.name+": Next on an exhausted iterator panics")
		}
	}
}

func VH_c20_script_FromSeq()         { script(find("FromSeq")) }
func VH_c20_script_FromSlice()       { script(find("FromSlice")) }
func VH_c20_script_Of()              { script(find("Of")) }
func VH_c20_script_IteratorOfSeq()   { script(find("IteratorOfSeq")) }
func VH_c20_script_Empty()           { script(find("Empty")) }
func VH_c20_script_ReverseSeq()      { script(find("ReverseSeq")) }
func VH_c20_script_ReverseSlice()    { script(find("ReverseSlice")) }
func VH_c20_script_FromOption()      { script(find("FromOption")) }
func VH_c20_script_FromPtr()         { script(find("FromPtr")) }
func VH_c20_script_FromList()        { script(find("FromList")) }
func VH_c20_script_List()            { script(find("List")) }
func VH_c20_script_ToList_FromList() { script(find("ToList_FromList")) }
func VH_c20_script_Take()            { script(find("Take")) }
func VH_c20_script_Drop()            { script(find("Drop")) }
func VH_c20_script_TakeWhile()       { script(find("TakeWhile")) }
func VH_c20_script_DropWhile()       { script(find("DropWhile")) }
func VH_c20_script_Filter()          { script(find("Filter")) }
func VH_c20_script_FilterNot()       { script(find("FilterNot")) }
func VH_c20_script_TapEach()         { script(find("TapEach")) }
func VH_c20_script_Appended()        { script(find("Appended")) }
func VH_c20_script_MethodConcat()    { script(find("MethodConcat")) }
func VH_c20_script_MethodConcat3()   { script(find("MethodConcat3")) }
func VH_c20_script_MethodMap()       { script(find("MethodMap")) }
func VH_c20_script_MethodFlatMap()   { script(find("MethodFlatMap")) }
func VH_c20_script_Map()             { script(find("Map")) }
func VH_c20_script_Lift()            { script(find("Lift")) }
func VH_c20_script_FlatMap()         { script(find("FlatMap")) }
func VH_c20_script_Flatten()         { script(find("Flatten")) }
func VH_c20_script_FilterMap()       { script(find("FilterMap")) }
func VH_c20_script_Compose()         { script(find("Compose")) }
func VH_c20_script_ComposePure()     { script(find("ComposePure")) }
func VH_c20_script_Concat()          { script(find("Concat")) }
func VH_c20_script_Ap()              { script(find("Ap")) }
func VH_c20_script_FlapMap_Method1() { script(find("FlapMap_Method1")) }
func VH_c20_script_Flap()            { script(find("Flap")) }
func VH_c20_script_Zip()             { script(find("Zip")) }
func VH_c20_script_ZipWithIndex()    { script(find("ZipWithIndex")) }
func VH_c20_script_Zip3()            { script(find("Zip3")) }
func VH_c20_script_Scan()            { script(find("Scan")) }
func VH_c20_script_Range()           { script(find("Range")) }
func VH_c20_script_RangeClosed()     { script(find("RangeClosed")) }
func VH_c20_script_GenerateTake()    { script(find("GenerateTake")) }
func VH_c20_script_SeqMethods()      { script(find("SeqMethods")) }

func VH_c20_script_Concat_MethodMap_Concat() { script(find("Concat_MethodMap_Concat")) }
