package gosym

import (
	"fmt"
	"go/constant"
	"go/token"
	"go/types"
	"strings"

	"golang.org/x/tools/go/ssa"

	"verif/engine/sym"
)

// PathEnd is thrown (as a Go panic) to terminate the current path.
type PathEnd struct {
	Kind string // infeasible | bound | unsupported | assertfail | panic | killed | deadlock
	Msg  string
}

// targetPanic is a panic of the interpreted program.
type targetPanic struct{ v Value }

type WorkItem struct {
	Vec    []int
	Verify bool // last decision has not been checked for feasibility
	Hints  map[int]int64
}

type TapeEntry struct {
	Kind string // int | bool | byte | choice | uf
	Name string
	T    *sym.Term   // the value term
	Args []*sym.Term // for uf
	W    int
	Conc int64 // for choice entries (concrete)
}

type Cex struct {
	Harness string
	Kind    string // assert | panic | bound | deadlock
	Label   string
	Msg     string
	Vec     []int
	Tape    []TapeValue
	Sched   []int
	Model   map[string]string
}

type TapeValue struct {
	Kind string   `json:"kind"`
	Name string   `json:"name"`
	Val  uint64   `json:"val"`
	W    int      `json:"w"`
	Args []uint64 `json:"args,omitempty"`
}

type Limits struct {
	MaxDepth   int
	LoopBound  int
	MaxSteps   int
	MapPermMax int
	Preempt    int
}

type Machine struct {
	noSched int                 // >0 while a package initialiser runs: scheduling points are disabled
	pools   map[*Object][]Value // sync.Pool contents by pool object
	E       *Engine
	S       *sym.Store
	Z       *sym.Solver

	H       *Harness
	Vec     []int
	verify  bool
	pos     int
	NewWork []WorkItem
	PC      []*sym.Term

	Lim     Limits
	Steps   int
	depth   int
	peak    int
	nextID  int
	globals map[*ssa.Global]*Object
	inited  map[*ssa.Package]bool

	Tape       []TapeEntry
	nameCount  map[string]int
	Reached    map[string]bool
	Bounds     map[string]int
	Asserts    int
	Trivial    int
	Discharged int
	Inconcl    int
	Cex        *Cex
	Witness    *Cex
	StubsHit   map[string]bool
	FuncsSeen  map[*ssa.Function]bool
	Notes      []string

	frozen []frozenSnap

	// scheduler
	sched *scheduler

	depthMark int
	lits      map[*sym.Term]bool
	hints     map[int]int64
	jsonMemos []jsonMemo
}

type frozenSnap struct {
	objs  []*Object
	vals  []Value
	maps  []*MapObj
	ments [][]MapEntry
	label string
}

func (m *Machine) end(kind, msg string) {
	panic(PathEnd{kind, msg})
}

func (m *Machine) unsupported(msg string) {
	m.end("unsupported", msg)
}

func (m *Machine) newObj(v Value, what string, t types.Type) *Object {
	m.nextID++
	return &Object{ID: m.nextID, Val: v, What: what, Typ: t}
}

// ---- path condition and decisions

func (m *Machine) check(assume []*sym.Term, neg []bool) sym.Result {
	r := m.Z.Check(m.S, assume, neg)
	if m.Z.Lost {
		m.end("unsupported", "solver did not answer within twice its timeout and was restarted (query too hard)")
	}
	return r
}

func (m *Machine) addPC(c *sym.Term) {
	if c.IsTrue() {
		return
	}
	m.PC = append(m.PC, c)
	m.Z.Assert(m.S, c)
	if m.lits == nil {
		m.lits = map[*sym.Term]bool{}
	}
	if c.Op == "not" {
		m.lits[c.Args[0]] = false
	} else {
		m.lits[c] = true
	}
}

// Assume adds a constraint; ends the path if it becomes infeasible.
func (m *Machine) Assume(c *sym.Term) {
	if c.IsTrue() {
		return
	}
	if c.IsFalse() {
		m.end("infeasible", "assume(false)")
	}
	m.addPC(c)
	if m.pos >= len(m.Vec) { // in replayed prefix the assumption was checked before
		if m.check(nil, nil) == sym.Unsat {
			m.end("infeasible", "assumption unsatisfiable")
		}
	}
}

// Branch decides a symbolic condition, forking if both sides are feasible.
func (m *Machine) Branch(c *sym.Term) bool {
	if c.IsConst() {
		return c.C == 1
	}
	// literal already decided on this path: no decision, no query
	if c.Op == "not" {
		if v, ok := m.lits[c.Args[0]]; ok {
			return !v
		}
	} else if v, ok := m.lits[c]; ok {
		return v
	}
	if m.pos < len(m.Vec) {
		d := m.Vec[m.pos]
		m.pos++
		if d == 0 {
			m.addPC(c)
		} else {
			m.addPC(m.S.Not(c))
		}
		if m.pos == len(m.Vec) && m.verify {
			if m.check(nil, nil) == sym.Unsat {
				m.end("infeasible", "")
			}
		}
		return d == 0
	}
	r := m.check([]*sym.Term{c}, []bool{false})
	if r == sym.Unsat {
		m.Vec = append(m.Vec, 1)
		m.pos++
		m.addPC(m.S.Not(c))
		return false
	}
	alt := make([]int, len(m.Vec)+1)
	copy(alt, m.Vec)
	alt[len(m.Vec)] = 1
	m.NewWork = append(m.NewWork, WorkItem{alt, true, m.copyHints()})
	m.Vec = append(m.Vec, 0)
	m.pos++
	m.addPC(c)
	return true
}

func (m *Machine) copyHints() map[int]int64 {
	if len(m.hints) == 0 {
		return nil
	}
	c := make(map[int]int64, len(m.hints))
	for k, v := range m.hints {
		c[k] = v
	}
	return c
}

// Choose is a pure nondeterministic choice among n alternatives.
func (m *Machine) Choose(n int) int {
	if n <= 1 {
		return 0
	}
	if m.pos < len(m.Vec) {
		d := m.Vec[m.pos]
		m.pos++
		if d >= n {
			m.end("unsupported", "decision vector out of range (non-deterministic re-execution)")
		}
		return d
	}
	for i := 1; i < n; i++ {
		alt := make([]int, len(m.Vec)+1)
		copy(alt, m.Vec)
		alt[len(m.Vec)] = i
		m.NewWork = append(m.NewWork, WorkItem{alt, false, m.copyHints()})
	}
	m.Vec = append(m.Vec, 0)
	m.pos++
	return 0
}

// Concretize turns an integer term into a concrete value: candidates come from the solver's models and each
// candidate is a Branch(t == v), so every feasible value (up to 40 per site) is explored on some path. The
// candidate used at a decision position is recorded as a hint so that re-execution is deterministic.
func (m *Machine) Concretize(t *sym.Term, what string) int64 {
	if t.IsConst() {
		return t.SVal()
	}
	for i := 0; i < 40; i++ {
		var v uint64
		if h, ok := m.hints[m.pos]; ok {
			v = uint64(h)
		} else {
			if m.pos < len(m.Vec) {
				m.end("unsupported", "missing concretization hint (non-deterministic re-execution)")
			}
			if m.check(nil, nil) != sym.Sat {
				m.end("infeasible", "concretize: path condition not satisfiable")
			}
			vals, ok := m.Z.Eval(m.S, []*sym.Term{t})
			if !ok {
				m.end("unsupported", "concretize: model evaluation failed")
			}
			v = vals[0]
			if m.hints == nil {
				m.hints = map[int]int64{}
			}
			m.hints[m.pos] = int64(v)
		}
		c := m.S.Eq(t, m.S.Const(t.W, v))
		if m.Branch(c) {
			return sym.SignExt(v, t.W)
		}
	}
	m.end("bound", "concretize "+what+": more than 40 candidate values")
	return 0
}

// ResolveIndex forks over idx in [0,n); raises a target panic when out of range.
func (m *Machine) ResolveIndex(idx *sym.Term, n int, signed bool, what string) int {
	if idx.IsConst() {
		var v int64
		if signed {
			v = idx.SVal()
		} else {
			v = int64(idx.C)
			if idx.C > 1<<62 {
				v = -1
			}
		}
		if v < 0 || v >= int64(n) {
			m.runtimePanic(fmt.Sprintf("runtime error: index out of range [%d] with length %d", v, n))
		}
		return int(v)
	}
	in := m.S.Cmp("bvult", idx, m.S.Const(idx.W, uint64(n)))
	if !m.Branch(in) {
		m.runtimePanic(fmt.Sprintf("runtime error: index out of range [sym] with length %d (%s)", n, what))
	}
	for i := 0; i < n-1; i++ {
		if m.Branch(m.S.Eq(idx, m.S.Const(idx.W, uint64(i)))) {
			return i
		}
	}
	m.addPC(m.S.Eq(idx, m.S.Const(idx.W, uint64(n-1))))
	return n - 1
}

func (m *Machine) runtimePanic(msg string) {
	panic(targetPanic{m.runtimeError(msg)})
}

func (m *Machine) runtimeError(msg string) Value {
	if t := m.E.runtimeErrT; t != nil {
		return IfaceV{T: t, V: m.MkStr(strings.TrimPrefix(msg, "runtime error: "))}
	}
	return IfaceV{T: types.Typ[types.String], V: m.MkStr(msg)}
}

// ---- frames

type deferred struct {
	fn   FuncV
	args []Value
	pos  token.Pos
}

type frame struct {
	m         *Machine
	fn        *ssa.Function
	caller    *frame
	block     *ssa.BasicBlock
	prevBlock *ssa.BasicBlock
	env       []Value
	idx       map[ssa.Value]int
	defers    []*deferred
	result    Value
	panicking bool
	panicV    interface{}
	visits    map[int]int
	task      *task
	cur       ssa.Instruction
}

type engineBug struct {
	msg   string
	trace string
}

func (fr *frame) trace() string {
	var sb strings.Builder
	for f := fr; f != nil; f = f.caller {
		pos := ""
		if f.cur != nil {
			pos = f.m.E.Prog.Fset.Position(f.cur.Pos()).String()
			sb.WriteString(fmt.Sprintf("  %s: %v  [%s]\n", f.fn.String(), f.cur, pos))
		} else {
			sb.WriteString("  " + f.fn.String() + "\n")
		}
	}
	return sb.String()
}

func (fr *frame) get(v ssa.Value) Value {
	switch v := v.(type) {
	case *ssa.Const:
		return fr.m.constValue(v)
	case *ssa.Global:
		return PtrV{Obj: fr.m.global(v)}
	case *ssa.Function:
		return FuncV{Fn: v}
	case *ssa.Builtin:
		return FuncV{B: v}
	case nil:
		return nil
	}
	if i, ok := fr.idx[v]; ok {
		return fr.env[i]
	}
	panic(fmt.Sprintf("get: no value for %T %v in %v", v, v.Name(), fr.fn))
}

func (m *Machine) constValue(c *ssa.Const) Value {
	t := c.Type()
	if c.Value == nil {
		if _, ok := t.(*types.TypeParam); ok {
			m.unsupported("const of type parameter type")
		}
		return m.Zero(t)
	}
	if b, ok := under(t).(*types.Basic); ok {
		switch {
		case b.Info()&types.IsBoolean != 0:
			return m.S.Bool(constant.BoolVal(c.Value))
		case b.Info()&types.IsString != 0:
			return m.MkStr(constant.StringVal(c.Value))
		case b.Info()&types.IsInteger != 0:
			w, _, _ := intInfo(b)
			if v, ok := constant.Int64Val(constant.ToInt(c.Value)); ok {
				return m.S.Const(w, uint64(v))
			}
			if v, ok := constant.Uint64Val(constant.ToInt(c.Value)); ok {
				return m.S.Const(w, v)
			}
		case b.Info()&types.IsFloat != 0:
			f, _ := constant.Float64Val(c.Value)
			return FloatV(f)
		}
	}
	m.unsupported(fmt.Sprintf("constant %v of type %v", c.Value, t))
	return nil
}

func (m *Machine) global(g *ssa.Global) *Object {
	if o, ok := m.globals[g]; ok {
		return o
	}
	m.ensureInit(g.Pkg)
	if o, ok := m.globals[g]; ok {
		return o
	}
	et := g.Type().(*types.Pointer).Elem()
	o := m.newObj(m.Zero(et), "global "+g.String(), et)
	m.globals[g] = o
	return o
}

// ensureInit runs the package initializer of fp-module packages lazily (std packages keep zero globals
// except for a small list of error sentinels).
func (m *Machine) ensureInit(p *ssa.Package) {
	if p == nil || m.inited[p] {
		return
	}
	m.inited[p] = true
	if !m.E.shouldInit(p) {
		return
	}
	// make sure all globals exist (zero) before init runs
	initFn := p.Func("init")
	if initFn == nil || initFn.Blocks == nil {
		return
	}
	saveDepth := m.depth
	m.inited[p] = false
	// Package initialisation is triggered lazily (first access to a global of the package), but it is atomic: in
	// a real program it has finished before main starts, so no other task may run in the middle of it and see
	// half-initialised globals. Scheduling points inside init are therefore disabled.
	m.noSched++
	func() {
		defer func() { m.noSched-- }()
		m.callSSA(nil, initFn, nil, nil)
	}()
	m.inited[p] = true
	m.depth = saveDepth
}

// ---- calls

func (m *Machine) call(caller *frame, fn Value, args []Value, pos token.Pos) Value {
	f := fn.(FuncV)
	if f.B != nil {
		return m.callBuiltin(caller, f.B, args, pos)
	}
	if f.Native != nil {
		return f.Native.F(m, caller, args)
	}
	if f.Fn == nil {
		m.runtimePanic("runtime error: invalid memory address or nil pointer dereference (call of nil func)")
	}
	return m.callSSA(caller, f.Fn, args, f.Env)
}

func (m *Machine) callSSA(caller *frame, fn *ssa.Function, args []Value, env []Value) Value {
	if fn.Pkg != nil && fn.Name() == "init" && fn.Synthetic != "" && fn == fn.Pkg.Func("init") {
		// package initializer reached from another initializer
		if m.inited[fn.Pkg] && caller != nil {
			return nil
		}
		m.inited[fn.Pkg] = true
		if !m.E.shouldInit(fn.Pkg) {
			return nil
		}
	}
	if fn.Parent() == nil {
		name := fn.String()
		if o := fn.Origin(); o != nil {
			name = o.String()
		}
		if strings.HasPrefix(name, ZZScratch) {
			name = ZZ + strings.TrimPrefix(name, ZZScratch)
		}
		if ext, ok := externals[name]; ok {
			m.StubsHit[name] = true
			return ext(m, caller, fn, args)
		}
		if fn.Blocks == nil {
			m.unsupported("no code for function " + name)
		}
	}
	if fn.TypeParams().Len() > 0 && len(fn.TypeArgs()) == 0 {
		m.unsupported("uninstantiated generic function " + fn.String())
	}
	m.depth++
	if m.depth > m.peak {
		m.peak = m.depth
	}
	if m.depth > m.Lim.MaxDepth {
		m.end("bound", fmt.Sprintf("call depth %d exceeded in %s", m.Lim.MaxDepth, fn.String()))
	}
	m.FuncsSeen[fn] = true
	info := m.E.fnInfo(fn)
	fr := &frame{m: m, fn: fn, caller: caller, env: make([]Value, info.n), idx: info.idx}
	if caller != nil {
		fr.task = caller.task
	} else if m.sched != nil {
		fr.task = m.sched.cur
	}
	fr.block = fn.Blocks[0]
	for i, p := range fn.Params {
		fr.env[info.idx[p]] = args[i]
	}
	for i, fv := range fn.FreeVars {
		fr.env[info.idx[fv]] = env[i]
	}
	for fr.block != nil {
		m.runFrame(fr)
	}
	m.depth--
	return fr.result
}

func (m *Machine) runFrame(fr *frame) {
	defer func() {
		if fr.block == nil {
			return // normal return
		}
		r := recover()
		if _, ok := r.(targetPanic); !ok {
			switch r.(type) {
			case PathEnd, engineBug:
			default:
				r = engineBug{fmt.Sprint(r), fr.trace()}
			}
			panic(r) // path end or engine bug: propagate
		}
		fr.panicking = true
		fr.panicV = r
		fr.runDefers()
		fr.block = fr.fn.Recover
		if fr.block == nil {
			// recovered in a function without named results: return zero values
			fr.result = m.zeroResults(fr.fn)
		}
	}()
	for {
		instrs := fr.block.Instrs
		// loop bound
		if len(fr.block.Preds) > 1 || fr.block.Index == 0 {
			if fr.visits == nil {
				fr.visits = map[int]int{}
			}
			fr.visits[fr.block.Index]++
			if fr.visits[fr.block.Index] > m.Lim.LoopBound {
				m.end("bound", fmt.Sprintf("loop bound %d exceeded in %s block %d", m.Lim.LoopBound, fr.fn.String(), fr.block.Index))
			}
		}
		// phis (parallel assignment)
		np := 0
		for np < len(instrs) {
			if _, ok := instrs[np].(*ssa.Phi); !ok {
				break
			}
			np++
		}
		if np > 0 {
			vals := make([]Value, np)
			for i := 0; i < np; i++ {
				phi := instrs[i].(*ssa.Phi)
				for j, p := range fr.block.Preds {
					if p == fr.prevBlock {
						vals[i] = fr.get(phi.Edges[j])
						break
					}
				}
			}
			for i := 0; i < np; i++ {
				fr.env[fr.idx[instrs[i].(*ssa.Phi)]] = vals[i]
			}
		}
		jumped := false
		for _, instr := range instrs[np:] {
			m.Steps++
			fr.cur = instr
			if m.Steps > m.Lim.MaxSteps {
				m.end("bound", fmt.Sprintf("step bound %d exceeded", m.Lim.MaxSteps))
			}
			switch m.visit(fr, instr) {
			case kReturn:
				return
			case kJump:
				jumped = true
			}
			if jumped {
				break
			}
		}
		if !jumped {
			panic("block fell through: " + fr.fn.String())
		}
	}
}

func (m *Machine) zeroResults(fn *ssa.Function) Value {
	res := fn.Signature.Results()
	switch res.Len() {
	case 0:
		return nil
	case 1:
		return m.Zero(res.At(0).Type())
	}
	return m.Zero(res)
}

func (fr *frame) runDefers() {
	for len(fr.defers) > 0 {
		d := fr.defers[len(fr.defers)-1]
		fr.defers = fr.defers[:len(fr.defers)-1]
		fr.runDefer(d)
	}
	if fr.panicking {
		panic(fr.panicV)
	}
}

func (fr *frame) runDefer(d *deferred) {
	ok := false
	defer func() {
		if !ok {
			r := recover()
			if _, isT := r.(targetPanic); !isT {
				panic(r)
			}
			// deferred call panicked: replaces current panic
			fr.panicking = true
			fr.panicV = r
		}
	}()
	fr.m.call(fr, d.fn, d.args, d.pos)
	ok = true
}

type continuation int

const (
	kNext continuation = iota
	kReturn
	kJump
)

func (m *Machine) prepareCall(fr *frame, c *ssa.CallCommon) (Value, []Value) {
	v := fr.get(c.Value)
	var args []Value
	var fn Value
	if c.Method == nil {
		fn = v
	} else {
		recv := v.(IfaceV)
		if recv.T == nil {
			m.runtimePanic("runtime error: invalid memory address or nil pointer dereference (method " + c.Method.Name() + " on nil interface)")
		}
		f := m.E.Prog.LookupMethod(recv.T, c.Method.Pkg(), c.Method.Name())
		if f == nil {
			m.unsupported(fmt.Sprintf("method %s not found for dynamic type %v", c.Method.Name(), recv.T))
		}
		fn = FuncV{Fn: f}
		args = append(args, recv.V)
	}
	for _, a := range c.Args {
		args = append(args, fr.get(a))
	}
	return fn, args
}

func (m *Machine) visit(fr *frame, instr ssa.Instruction) continuation {
	switch in := instr.(type) {
	case *ssa.DebugRef:
	case *ssa.UnOp:
		fr.env[fr.idx[in]] = m.unop(fr, in, fr.get(in.X))
	case *ssa.BinOp:
		fr.env[fr.idx[in]] = m.binop(in.Op, in.X.Type(), in.Y.Type(), fr.get(in.X), fr.get(in.Y))
	case *ssa.Call:
		fn, args := m.prepareCall(fr, &in.Call)
		fr.env[fr.idx[in]] = m.call(fr, fn, args, in.Pos())
	case *ssa.ChangeInterface:
		fr.env[fr.idx[in]] = fr.get(in.X)
	case *ssa.ChangeType:
		fr.env[fr.idx[in]] = fr.get(in.X)
	case *ssa.Convert:
		fr.env[fr.idx[in]] = m.conv(in.Type(), in.X.Type(), fr.get(in.X))
	case *ssa.MultiConvert:
		fr.env[fr.idx[in]] = m.conv(in.Type(), in.X.Type(), fr.get(in.X))
	case *ssa.SliceToArrayPointer:
		m.unsupported("SliceToArrayPointer")
	case *ssa.MakeInterface:
		fr.env[fr.idx[in]] = IfaceV{T: in.X.Type(), V: fr.get(in.X)}
	case *ssa.Extract:
		fr.env[fr.idx[in]] = fr.get(in.Tuple).(TupleV)[in.Index]
	case *ssa.Slice:
		fr.env[fr.idx[in]] = m.sliceOp(fr, in)
	case *ssa.Return:
		switch len(in.Results) {
		case 0:
		case 1:
			fr.result = fr.get(in.Results[0])
		default:
			res := make(TupleV, len(in.Results))
			for i, r := range in.Results {
				res[i] = fr.get(r)
			}
			fr.result = res
		}
		fr.block = nil
		return kReturn
	case *ssa.RunDefers:
		fr.runDefers()
	case *ssa.Panic:
		panic(targetPanic{fr.get(in.X)})
	case *ssa.Send:
		m.chanSend(fr, fr.get(in.Chan).(ChanV), fr.get(in.X))
	case *ssa.Store:
		m.Store(fr.get(in.Addr).(PtrV), fr.get(in.Val))
	case *ssa.If:
		succ := 1
		if m.Branch(fr.get(in.Cond).(*sym.Term)) {
			succ = 0
		}
		fr.prevBlock, fr.block = fr.block, fr.block.Succs[succ]
		return kJump
	case *ssa.Jump:
		fr.prevBlock, fr.block = fr.block, fr.block.Succs[0]
		return kJump
	case *ssa.Defer:
		fn, args := m.prepareCall(fr, &in.Call)
		if in.DeferStack != nil {
			m.unsupported("defer with explicit defer stack (range-over-func)")
		}
		fr.defers = append(fr.defers, &deferred{fn.(FuncV), args, in.Pos()})
	case *ssa.Go:
		fn, args := m.prepareCall(fr, &in.Call)
		m.spawn(fr, fn.(FuncV), args)
	case *ssa.MakeChan:
		n := m.Concretize(fr.get(in.Size).(*sym.Term), "chan size")
		m.nextID++
		fr.env[fr.idx[in]] = ChanV{&ChanObj{ID: m.nextID, Cap: int(n), ElemT: under(in.Type()).(*types.Chan).Elem()}}
	case *ssa.Alloc:
		et := in.Type().(*types.Pointer).Elem()
		what := "local"
		if in.Heap {
			what = "new"
		}
		fr.env[fr.idx[in]] = PtrV{Obj: m.newObj(m.Zero(et), what+" "+in.Comment+" in "+fr.fn.Name(), et)}
	case *ssa.MakeSlice:
		ln := m.Concretize(fr.get(in.Len).(*sym.Term), "make len")
		cp := m.Concretize(fr.get(in.Cap).(*sym.Term), "make cap")
		if ln < 0 || cp < ln {
			m.runtimePanic("runtime error: makeslice: len out of range")
		}
		if cp > 4096 {
			m.end("bound", "make([]T) with capacity > 4096")
		}
		et := under(in.Type()).(*types.Slice).Elem()
		fr.env[fr.idx[in]] = m.makeSlice(et, int(ln), int(cp))
	case *ssa.MakeMap:
		mt := under(in.Type()).(*types.Map)
		m.nextID++
		fr.env[fr.idx[in]] = MapV{&MapObj{ID: m.nextID, KeyT: mt.Key(), ValT: mt.Elem()}}
	case *ssa.Range:
		fr.env[fr.idx[in]] = m.rangeIter(fr.get(in.X), in.X.Type())
	case *ssa.Next:
		fr.env[fr.idx[in]] = m.iterNext(fr.get(in.Iter).(*IterV), in)
	case *ssa.FieldAddr:
		p := fr.get(in.X).(PtrV)
		if p.Obj == nil {
			m.runtimePanic("runtime error: invalid memory address or nil pointer dereference")
		}
		fr.env[fr.idx[in]] = PtrV{p.Obj, extPath(p.Path, in.Field)}
	case *ssa.Field:
		fr.env[fr.idx[in]] = fr.get(in.X).(StructV)[in.Field]
	case *ssa.IndexAddr:
		x := fr.get(in.X)
		idx := fr.get(in.Index).(*sym.Term)
		_, signed, _ := intInfo(in.Index.Type())
		switch x := x.(type) {
		case SliceV:
			i := m.ResolveIndex(idx, x.Len, signed, "slice index")
			fr.env[fr.idx[in]] = PtrV{x.Arr, []int{x.Off + i}}
		case PtrV:
			if x.Obj == nil {
				m.runtimePanic("runtime error: invalid memory address or nil pointer dereference")
			}
			n := int(under(under(in.X.Type()).(*types.Pointer).Elem()).(*types.Array).Len())
			i := m.ResolveIndex(idx, n, signed, "array index")
			fr.env[fr.idx[in]] = PtrV{x.Obj, extPath(x.Path, i)}
		default:
			panic(fmt.Sprintf("IndexAddr on %T", x))
		}
	case *ssa.Index:
		x := fr.get(in.X)
		idx := fr.get(in.Index).(*sym.Term)
		_, signed, _ := intInfo(in.Index.Type())
		switch x := x.(type) {
		case ArrayV:
			i := m.ResolveIndex(idx, len(x), signed, "array index")
			fr.env[fr.idx[in]] = x[i]
		case StrV:
			i := m.ResolveIndex(idx, x.Len(), signed, "string index")
			fr.env[fr.idx[in]] = m.strAt(x, i)
		default:
			panic(fmt.Sprintf("Index on %T", x))
		}
	case *ssa.Lookup:
		fr.env[fr.idx[in]] = m.lookup(in, fr.get(in.X), fr.get(in.Index))
	case *ssa.MapUpdate:
		m.mapUpdate(fr.get(in.Map).(MapV), fr.get(in.Key), fr.get(in.Value))
	case *ssa.TypeAssert:
		fr.env[fr.idx[in]] = m.typeAssert(in, fr.get(in.X).(IfaceV))
	case *ssa.MakeClosure:
		b := make([]Value, len(in.Bindings))
		for i, x := range in.Bindings {
			b[i] = fr.get(x)
		}
		fr.env[fr.idx[in]] = FuncV{Fn: in.Fn.(*ssa.Function), Env: b}
	case *ssa.Select:
		m.unsupported("select")
	default:
		m.unsupported(fmt.Sprintf("instruction %T", instr))
	}
	return kNext
}

// ---- memory

func (m *Machine) Load(p PtrV) Value {
	if p.Obj == nil {
		m.runtimePanic("runtime error: invalid memory address or nil pointer dereference")
	}
	m.onAccess(p, false)
	return getPath(p.Obj.Val, p.Path)
}

func (m *Machine) Store(p PtrV, v Value) {
	if p.Obj == nil {
		m.runtimePanic("runtime error: invalid memory address or nil pointer dereference")
	}
	m.onAccess(p, true)
	p.Obj.Val = setPath(p.Obj.Val, p.Path, v)
}

func (m *Machine) makeSlice(et types.Type, ln, cp int) SliceV {
	arr := make(ArrayV, cp)
	if cp > 0 {
		z := m.Zero(et)
		for i := range arr {
			arr[i] = z
		}
	}
	return SliceV{Arr: m.newObj(arr, "backing array", et), Off: 0, Len: ln, Cap: cp}
}

func (m *Machine) sliceElems(s SliceV) []Value {
	if s.Arr == nil {
		return nil
	}
	return s.Arr.Val.(ArrayV)[s.Off : s.Off+s.Len]
}

func (m *Machine) optInt(fr *frame, v ssa.Value, def int, what string) int {
	if v == nil {
		return def
	}
	return int(m.Concretize(fr.get(v).(*sym.Term), what))
}

func (m *Machine) sliceOp(fr *frame, in *ssa.Slice) Value {
	x := fr.get(in.X)
	switch x := x.(type) {
	case StrV:
		lo := m.optInt(fr, in.Low, 0, "slice low")
		hi := m.optInt(fr, in.High, x.Len(), "slice high")
		if lo < 0 || hi < lo || hi > x.Len() {
			m.runtimePanic(fmt.Sprintf("runtime error: slice bounds out of range [%d:%d] with length %d", lo, hi, x.Len()))
		}
		if x.Conc {
			return StrV{C: x.C[lo:hi], Conc: true}
		}
		return StrV{B: x.B[lo:hi]}
	case SliceV:
		lo := m.optInt(fr, in.Low, 0, "slice low")
		hi := m.optInt(fr, in.High, x.Len, "slice high")
		mx := m.optInt(fr, in.Max, x.Cap, "slice max")
		if lo < 0 || hi < lo || mx < hi || mx > x.Cap {
			m.runtimePanic(fmt.Sprintf("runtime error: slice bounds out of range [%d:%d:%d] with capacity %d", lo, hi, mx, x.Cap))
		}
		if x.Arr == nil {
			return SliceV{}
		}
		return SliceV{Arr: x.Arr, Off: x.Off + lo, Len: hi - lo, Cap: mx - lo}
	case PtrV:
		if x.Obj == nil {
			m.runtimePanic("runtime error: invalid memory address or nil pointer dereference")
		}
		at := under(under(in.X.Type()).(*types.Pointer).Elem()).(*types.Array)
		n := int(at.Len())
		lo := m.optInt(fr, in.Low, 0, "slice low")
		hi := m.optInt(fr, in.High, n, "slice high")
		mx := m.optInt(fr, in.Max, n, "slice max")
		if lo < 0 || hi < lo || mx < hi || mx > n {
			m.runtimePanic("runtime error: slice bounds out of range")
		}
		if len(x.Path) != 0 {
			m.unsupported("slicing an array that is embedded in another object")
		}
		return SliceV{Arr: x.Obj, Off: lo, Len: hi - lo, Cap: mx - lo}
	}
	panic(fmt.Sprintf("Slice of %T", x))
}

// ---- maps

func (m *Machine) mapFind(mo *MapObj, k Value) int {
	for i, e := range mo.Entries {
		if m.Branch(m.Equal(mo.KeyT, e.K, k)) {
			return i
		}
	}
	return -1
}

func (m *Machine) lookup(in *ssa.Lookup, x, idx Value) Value {
	switch x := x.(type) {
	case StrV:
		_, signed, _ := intInfo(in.Index.Type())
		i := m.ResolveIndex(idx.(*sym.Term), x.Len(), signed, "string index")
		return m.strAt(x, i)
	case MapV:
		vt := under(in.X.Type()).(*types.Map).Elem()
		var v Value
		found := false
		if x.M != nil {
			if i := m.mapFind(x.M, idx); i >= 0 {
				v = x.M.Entries[i].V
				found = true
			}
		}
		if !found {
			v = m.Zero(vt)
		}
		if in.CommaOk {
			return TupleV{v, m.S.Bool(found)}
		}
		return v
	}
	panic(fmt.Sprintf("Lookup on %T", x))
}

func (m *Machine) mapUpdate(mv MapV, k, v Value) {
	if mv.M == nil {
		m.runtimePanic("assignment to entry in nil map")
	}
	i := m.mapFind(mv.M, k)
	ne := make([]MapEntry, len(mv.M.Entries), len(mv.M.Entries)+1)
	copy(ne, mv.M.Entries)
	if i >= 0 {
		ne[i] = MapEntry{ne[i].K, v}
	} else {
		ne = append(ne, MapEntry{k, v})
	}
	mv.M.Entries = ne
}

func (m *Machine) mapDelete(mv MapV, k Value) {
	if mv.M == nil {
		return
	}
	i := m.mapFind(mv.M, k)
	if i < 0 {
		return
	}
	ne := make([]MapEntry, 0, len(mv.M.Entries))
	ne = append(ne, mv.M.Entries[:i]...)
	ne = append(ne, mv.M.Entries[i+1:]...)
	mv.M.Entries = ne
}

func (m *Machine) rangeIter(x Value, t types.Type) *IterV {
	switch x := x.(type) {
	case MapV:
		it := &IterV{}
		if x.M == nil {
			return it
		}
		ents := append([]MapEntry(nil), x.M.Entries...)
		n := len(ents)
		if n <= m.Lim.MapPermMax {
			// nondeterministic order: pick a permutation
			for i := 0; i < n; i++ {
				j := i + m.Choose(n-i)
				ents[i], ents[j] = ents[j], ents[i]
			}
		} else if n > 1 {
			m.note(fmt.Sprintf("map iteration order fixed to insertion order for maps with more than %d entries", m.Lim.MapPermMax))
		}
		for _, e := range ents {
			it.keys = append(it.keys, e.K)
			it.vals = append(it.vals, e.V)
		}
		return it
	case StrV:
		it := &IterV{}
		for i, b := range m.sb(x) {
			// only ASCII bytes are supported when ranging over a string
			if !m.Branch(m.S.Cmp("bvult", b, m.S.Const(8, 0x80))) {
				m.unsupported("range over string with non-ASCII byte")
			}
			it.keys = append(it.keys, m.S.Const(64, uint64(i)))
			it.vals = append(it.vals, m.S.Resize(b, 32, false))
		}
		return it
	}
	m.unsupported(fmt.Sprintf("range over %T", x))
	return nil
}

func (m *Machine) iterNext(it *IterV, in *ssa.Next) Value {
	if it.pos >= len(it.keys) {
		tt := in.Type().(*types.Tuple)
		var k, v Value
		if tt.At(1).Type() != nil && !isInvalid(tt.At(1).Type()) {
			k = m.Zero(tt.At(1).Type())
		}
		if tt.At(2).Type() != nil && !isInvalid(tt.At(2).Type()) {
			v = m.Zero(tt.At(2).Type())
		}
		return TupleV{m.S.False(), k, v}
	}
	k, v := it.keys[it.pos], it.vals[it.pos]
	it.pos++
	return TupleV{m.S.True(), k, v}
}

func isInvalid(t types.Type) bool {
	b, ok := t.(*types.Basic)
	return ok && b.Kind() == types.Invalid
}

func (m *Machine) note(s string) {
	for _, n := range m.Notes {
		if n == s {
			return
		}
	}
	m.Notes = append(m.Notes, s)
}

// ---- type assertions

func (m *Machine) typeAssert(in *ssa.TypeAssert, x IfaceV) Value {
	ok := false
	var v Value
	if it, isI := under(in.AssertedType).(*types.Interface); isI {
		if x.T != nil && (types.Implements(x.T, it) || m.implementsViaMethodSet(x.T, it)) {
			ok = true
			v = x
		}
	} else {
		if x.T != nil && types.Identical(x.T, in.AssertedType) {
			ok = true
			v = x.V
		}
	}
	if in.CommaOk {
		if !ok {
			v = m.Zero(in.AssertedType)
		}
		return TupleV{v, m.S.Bool(ok)}
	}
	if !ok {
		desc := "nil"
		if x.T != nil {
			desc = x.T.String()
		}
		m.runtimePanic(fmt.Sprintf("interface conversion: interface is %s, not %s", desc, in.AssertedType))
	}
	return v
}

func (m *Machine) implementsViaMethodSet(t types.Type, it *types.Interface) bool {
	ms := m.E.Prog.MethodSets.MethodSet(t)
	for i := 0; i < it.NumMethods(); i++ {
		me := it.Method(i)
		sel := ms.Lookup(me.Pkg(), me.Name())
		if sel == nil {
			return false
		}
		if !types.Identical(sel.Type(), me.Type()) {
			return false
		}
	}
	return true
}
