//verif:overlay internal/zzverif_h/c10/h.go
package c10

import (
	"github.com/csgura/fp"
	"github.com/csgura/fp/as"
	"github.com/csgura/fp/hlist"
	zz "github.com/csgura/fp/internal/zzverif"
	"github.com/csgura/fp/iterator"
	"github.com/csgura/fp/lazy"
	"github.com/csgura/fp/list"
	"github.com/csgura/fp/ord"
	"github.com/csgura/fp/seq"
	"math"
	"time"
)

func b2i(b bool) int {
	if b {
		return 1
	}
	return 0
}

// trichotomy + consistency of the derived methods for one pair
func pairLaws[T any](o fp.Ord[T], a, b T, l string) {
	lab, lba, e := o.Less(a, b), o.Less(b, a), o.Eqv(a, b)
	zz.Assert(b2i(lab)+b2i(lba)+b2i(e) == 1, l+": exactly one of Less(a,b), Less(b,a), Eqv(a,b)")
	zz.Assert(o.Eqv(b, a) == e, l+": Eqv symmetric")
	c := o.Compare(a, b)
	zz.Assert((c < 0) == lab && (c > 0) == lba && (c == 0) == e, l+": Compare sign agrees with Less/Eqv")
	zz.Assert(o.LessEq(a, b) == (lab || e), l+": LessEq = Less or Eqv")
	mn, mx := o.Min(a, b), o.Max(a, b)
	zz.Assert(!o.Less(a, mn) && !o.Less(b, mn), l+": Min is a lower bound")
	zz.Assert(!o.Less(mx, a) && !o.Less(mx, b), l+": Max is an upper bound")
	zz.Assert(o.Eqv(mn, a) || o.Eqv(mn, b), l+": Min is one of the arguments")
	zz.Assert(o.Eqv(mx, a) || o.Eqv(mx, b), l+": Max is one of the arguments")
	r := o.Reversed()
	zz.Assert(r.Less(a, b) == lba && r.Less(b, a) == lab && r.Eqv(a, b) == e, l+": Reversed flips")
}

func transLaw[T any](o fp.Ord[T], a, b, c T, l string) {
	if o.Less(a, b) && o.Less(b, c) {
		zz.Assert(o.Less(a, c), l+": Less transitive")
	}
	if o.Eqv(a, b) && o.Eqv(b, c) {
		zz.Assert(o.Eqv(a, c), l+": Eqv transitive")
	}
	if o.Eqv(a, b) && o.Less(b, c) {
		zz.Assert(o.Less(a, c), l+": Less respects Eqv")
	}
	zz.Assert(o.Eqv(a, a), l+": Eqv reflexive")
	zz.Assert(!o.Less(a, a), l+": Less irreflexive")
}

// ---- scalar instances

func VH_c10_given_int() {
	o := ord.Given[int]()
	a, b, c := zz.Int("a"), zz.Int("b"), zz.Int("c")
	pairLaws(o, a, b, "Given[int]")
	transLaw(o, a, b, c, "Given[int]")
	zz.Assert(o.Less(a, b) == (a < b), "Given[int] is <")
}

func VH_c10_given_string() {
	n := zz.Bound("strlen", 2, 3)
	o := ord.Given[string]()
	a, b := zz.Str("a", n), zz.Str("b", n)
	pairLaws(o, a, b, "Given[string]")
	zz.Assert(o.Less(a, b) == (a < b), "Given[string] is <")
}

func VH_c10_given_string_trans() {
	n := zz.Bound("strlen3", 1, 2)
	o := ord.Given[string]()
	transLaw(o, zz.Str("a", n), zz.Str("b", n), zz.Str("c", n), "Given[string]")
}

func keyOf(name string) func(int) int {
	return func(u int) int { return zz.UFInt(name, u) }
}

func VH_c10_contramap_givenfield() {
	a, b, c := zz.Int("a"), zz.Int("b"), zz.Int("c")
	o := ord.ContraMap(ord.Given[int](), keyOf("key"))
	pairLaws(o, a, b, "ContraMap")
	transLaw(o, a, b, c, "ContraMap")
	zz.Assert(o.Less(a, b) == (keyOf("key")(a) < keyOf("key")(b)), "ContraMap compares keys")
	g := ord.GivenField(keyOf("key"))
	pairLaws(g, a, b, "GivenField")
	zz.Assert(g.Less(a, b) == (keyOf("key")(a) < keyOf("key")(b)), "GivenField compares keys")
}

func cmp3(x, y int) int {
	if x < y {
		return -1
	}
	if x > y {
		return 1
	}
	return 0
}

func VH_c10_new_fromcompare_asord() {
	a, b, c := zz.Int("a"), zz.Int("b"), zz.Int("c")
	k := keyOf("key")
	o1 := ord.FromCompare(func(x, y int) int { return cmp3(k(x), k(y)) })
	pairLaws(o1, a, b, "FromCompare")
	transLaw(o1, a, b, c, "FromCompare")
	o2 := ord.New[int](fp.EqFunc[int](func(x, y int) bool { return k(x) == k(y) }), func(x, y int) bool { return k(x) < k(y) })
	pairLaws(o2, a, b, "New")
	transLaw(o2, a, b, c, "New")
	o3 := as.Ord(func(x, y int) bool { return k(x) < k(y) })
	pairLaws(o3, a, b, "as.Ord")
	transLaw(o3, a, b, c, "as.Ord")
}

func VH_c10_then_comparing() {
	a, b := zz.Int("a"), zz.Int("b")
	k1, k2 := keyOf("k1"), keyOf("k2")
	o1 := ord.ContraMap(ord.Given[int](), k1)
	o2 := ord.ContraMap(ord.Given[int](), k2)
	for i, o := range []fp.Ord[int]{o1.ThenComparing(o2), fp.LessFunc[int](func(x, y int) bool { return k1(x) < k1(y) }).ThenComparing(o2)} {
		l := "ThenComparing"
		if i == 1 {
			l = "LessFunc.ThenComparing"
		}
		want := k1(a) < k1(b) || (k1(a) == k1(b) && k2(a) < k2(b))
		zz.Assert(o.Less(a, b) == want, l+": second order only breaks ties")
		zz.Assert(o.Eqv(a, b) == (k1(a) == k1(b) && k2(a) == k2(b)), l+": Eqv needs both")
		pairLaws(o, a, b, l)
	}
}

func VH_c10_then_comparing_trans() {
	k1, k2 := keyOf("k1"), keyOf("k2")
	o := ord.ContraMap(ord.Given[int](), k1).ThenComparing(ord.ContraMap(ord.Given[int](), k2))
	transLaw(o, zz.Int("a"), zz.Int("b"), zz.Int("c"), "ThenComparing")
}

// ---- Option, Ptr

func mkOpt(name string) fp.Option[int] {
	if zz.Bool(name + ".some") {
		return fp.Some(zz.Int(name + ".v"))
	}
	return fp.None[int]()
}

func VH_c10_option() {
	o := ord.Option(ord.Given[int]())
	a, b := mkOpt("a"), mkOpt("b")
	pairLaws(o, a, b, "Option")
	// None first, then by payload
	want := (a.IsEmpty() && b.IsDefined()) || (a.IsDefined() && b.IsDefined() && a.Get() < b.Get())
	zz.Assert(o.Less(a, b) == want, "Option: None < Some, Some by payload")
}

func VH_c10_option_trans() {
	o := ord.Option(ord.Given[int]())
	transLaw(o, mkOpt("a"), mkOpt("b"), mkOpt("c"), "Option")
}

func mkPtr(name string) *int {
	if zz.Bool(name + ".nonnil") {
		v := zz.Int(name + ".v")
		return &v
	}
	return nil
}

func VH_c10_ptr() {
	o := ord.Ptr(lazy.Done(ord.Given[int]()))
	a, b := mkPtr("a"), mkPtr("b")
	if zz.Bool("same.pointer") {
		b = a
	}
	pairLaws(o, a, b, "Ptr")
	want := (a == nil && b != nil) || (a != nil && b != nil && *a < *b)
	zz.Assert(o.Less(a, b) == want, "Ptr: nil first, then by target")
}

func VH_c10_ptr_trans() {
	o := ord.Ptr(lazy.Done(ord.Given[int]()))
	transLaw(o, mkPtr("a"), mkPtr("b"), mkPtr("c"), "Ptr")
}

// ---- Seq / Slice: lexicographic

func lexLess(a, b []int) bool {
	for i := 0; i < len(a) && i < len(b); i++ {
		if a[i] < b[i] {
			return true
		}
		if a[i] > b[i] {
			return false
		}
	}
	return len(a) < len(b)
}

func lexEq(a, b []int) bool {
	if len(a) != len(b) {
		return false
	}
	for i := range a {
		if a[i] != b[i] {
			return false
		}
	}
	return true
}

func VH_c10_seq_lexicographic() {
	n := zz.Bound("seqlen", 3, 4)
	a, b := zz.SliceInt("a", n, 0, 0), zz.SliceInt("b", n, 0, 0)
	o := ord.Seq(ord.Given[int]())
	zz.Assert(o.Less(fp.Seq[int](a), fp.Seq[int](b)) == lexLess(a, b), "Seq.Less is lexicographic")
	zz.Assert(o.Eqv(fp.Seq[int](a), fp.Seq[int](b)) == lexEq(a, b), "Seq.Eqv is element-wise")
	s := ord.Slice(ord.Given[int]())
	zz.Assert(s.Less(a, b) == lexLess(a, b), "Slice.Less is lexicographic")
	zz.Assert(s.Eqv(a, b) == lexEq(a, b), "Slice.Eqv is element-wise")
}

func VH_c10_seq_pair_laws() {
	n := zz.Bound("seqlen2", 2, 3)
	a, b := zz.SliceInt("a", n, 0, 0), zz.SliceInt("b", n, 0, 0)
	pairLaws(ord.Seq(ord.Given[int]()), fp.Seq[int](a), fp.Seq[int](b), "Seq")
}

func VH_c10_seq_trans() {
	n := zz.Bound("seqlen3", 2, 2)
	a, b, c := zz.SliceInt("a", n, 0, 0), zz.SliceInt("b", n, 0, 0), zz.SliceInt("c", n, 0, 0)
	transLaw(ord.Seq(ord.Given[int]()), fp.Seq[int](a), fp.Seq[int](b), fp.Seq[int](c), "Seq")
}

// ---- HCons / HNil

func VH_c10_hcons() {
	type H = hlist.Cons[int, hlist.Cons[int, hlist.Cons[int, hlist.Nil]]]
	mk := func(n string) H {
		return hlist.Concat(zz.Int(n+"1"), hlist.Concat(zz.Int(n+"2"), hlist.Concat(zz.Int(n+"3"), hlist.Empty())))
	}
	g := ord.Given[int]()
	o := ord.HCons(g, ord.HCons(g, ord.HCons(g, ord.HNil)))
	a, b := mk("a"), mk("b")
	la := []int{a.Head(), hlist.Tail(a).Head(), hlist.Tail(hlist.Tail(a)).Head()}
	lb := []int{b.Head(), hlist.Tail(b).Head(), hlist.Tail(hlist.Tail(b)).Head()}
	zz.Assert(o.Less(a, b) == lexLess(la, lb), "HCons.Less is lexicographic")
	zz.Assert(o.Eqv(a, b) == lexEq(la, lb), "HCons.Eqv is element-wise")
	pairLaws(o, a, b, "HCons")
	zz.Assert(!ord.HNil.Less(hlist.Empty(), hlist.Empty()) && ord.HNil.Eqv(hlist.Empty(), hlist.Empty()), "HNil")
}

// ---- Sort / Min / Max

func count(xs []int, p int) int {
	n := 0
	for _, x := range xs {
		if x == p {
			n++
		}
	}
	return n
}

func checkSorted(in, out []int, less func(a, b int) bool, l string) {
	zz.Assert(len(in) == len(out), l+": same length")
	for i := 0; i+1 < len(out); i++ {
		zz.Assert(!less(out[i+1], out[i]), l+": adjacent elements ordered")
	}
	p := zz.Int("probe")
	zz.Assert(count(in, p) == count(out, p), l+": permutation (multiset preserved)")
}

func VH_c10_sort_seq() {
	n := zz.Bound("sortlen", 4, 5)
	in := zz.SliceInt("in", n, 0, 0)
	cp := append([]int{}, in...)
	out := seq.Sort(fp.Seq[int](in), ord.Given[int]())
	checkSorted(cp, out, func(a, b int) bool { return a < b }, "seq.Sort")
}

func VH_c10_sort_method_and_key() {
	n := zz.Bound("sortlen2", 3, 4)
	in := zz.SliceInt("in", n, 0, 0)
	cp := append([]int{}, in...)
	k := keyOf("key")
	out := seq.Sort(fp.Seq[int](in), ord.GivenField(k))
	checkSorted(cp, out, func(a, b int) bool { return k(a) < k(b) }, "Seq.Sort by key")
}

func VH_c10_sort_iterator_list() {
	n := zz.Bound("sortlen3", 3, 4)
	in := zz.SliceInt("in", n, 0, 0)
	cp := append([]int{}, in...)
	out := iterator.Sort(iterator.FromSeq(in), ord.Given[int]())
	checkSorted(cp, out, func(a, b int) bool { return a < b }, "iterator.Sort")
	out2 := list.Sort(list.FromSeq(cp), ord.Given[int]())
	checkSorted(cp, out2, func(a, b int) bool { return a < b }, "list.Sort")
}

func checkMin(in []int, got fp.Option[int], l string, isMin bool) {
	if len(in) == 0 {
		zz.Assert(got.IsEmpty(), l+": None for empty input")
		return
	}
	zz.Assert(got.IsDefined(), l+": defined for non-empty input")
	v := got.Get()
	zz.Assert(count(in, v) > 0, l+": result is an input element")
	for _, x := range in {
		if isMin {
			zz.Assert(!(x < v), l+": no smaller element")
		} else {
			zz.Assert(!(x > v), l+": no greater element")
		}
	}
}

func VH_c10_min_max() {
	n := zz.Bound("minlen", 3, 4)
	in := zz.SliceInt("in", n, 0, 0)
	o := ord.Given[int]()
	checkMin(in, seq.Min(fp.Seq[int](in), o), "seq.Min", true)
	checkMin(in, seq.Max(fp.Seq[int](in), o), "seq.Max", false)
	checkMin(in, iterator.Min(iterator.FromSeq(in), o), "iterator.Min", true)
	checkMin(in, iterator.Max(iterator.FromSeq(in), o), "iterator.Max", false)
	checkMin(in, list.Min(list.FromSeq(in), o), "list.Min", true)
	checkMin(in, list.Max(list.FromSeq(in), o), "list.Max", false)
}

// ---- time

func VH_c10_time() {
	a, b := zz.Time("a"), zz.Time("b")
	pairLaws(ord.Time, a, b, "Time")
	before := a.Unix() < b.Unix() || (a.Unix() == b.Unix() && a.Nanosecond() < b.Nanosecond())
	zz.Assert(ord.Time.Less(a, b) == before, "Time: Less is chronological order")
	a2 := a.In(time.FixedZone("X", 3600))
	zz.Assert(ord.Time.Eqv(a, a2) && !ord.Time.Less(a, a2) && !ord.Time.Less(a2, a) && ord.Time.Compare(a2, b) == ord.Time.Compare(a, b), "Time: the order does not depend on the zone")
}

func VH_c10_time_trans() {
	a, b, c := zz.Time("a"), zz.Time("b"), zz.Time("c")
	transLaw(ord.Time, a, b, c, "Time")
}

// ---- ThenComparing with comparators whose Compare returns magnitudes other than 1, and right-nested chains

func wideBy(k func(int) int) fp.Ord[int] {
	return ord.FromCompare(func(a, b int) int {
		switch {
		case k(a) < k(b):
			return -5
		case k(a) > k(b):
			return 7
		}
		return 0
	})
}

func VH_c10_then_comparing_wide() {
	a, b := zz.Int("a"), zz.Int("b")
	k1, k2, k3 := keyOf("k1"), keyOf("k2"), keyOf("k3")
	var o fp.Ord[int]
	l := ""
	three := false
	switch zz.Choice("shape", 4) {
	case 0:
		o, l = wideBy(k1).ThenComparing(wideBy(k2)), "ThenComparing(wide, wide)"
	case 1:
		o, l = ord.ContraMap(ord.Given[int](), k1).ThenComparing(wideBy(k2)), "ThenComparing(given, wide)"
	case 2:
		o, l, three = wideBy(k1).ThenComparing(wideBy(k2).ThenComparing(wideBy(k3))), "right-nested ThenComparing", true
	case 3:
		o, l, three = ord.ContraMap(ord.Given[int](), k1).ThenComparing(ord.ContraMap(ord.Given[int](), k2).ThenComparing(ord.ContraMap(ord.Given[int](), k3))), "right-nested ThenComparing (given)", true
	}
	want := k1(a) < k1(b) || (k1(a) == k1(b) && k2(a) < k2(b))
	eqv := k1(a) == k1(b) && k2(a) == k2(b)
	if three {
		want = want || (k1(a) == k1(b) && k2(a) == k2(b) && k3(a) < k3(b))
		eqv = eqv && k3(a) == k3(b)
	}
	zz.Assert(o.Less(a, b) == want, l+": later orders only break ties")
	zz.Assert(o.Eqv(a, b) == eqv, l+": Eqv needs all keys equal")
	pairLaws(o, a, b, l)
}

// sequences that are views of one backing array (prefix vs longer prefix, shifted windows)
func VH_c10_seq_aliased_views() {
	base := zz.SliceInt("base", 3, 0, 0)
	n := len(base)
	i, j := zz.Choice("i", n+1), zz.Choice("j", n+1)
	ob := 0
	if zz.Bool("offset") && n > 0 {
		ob = 1
		if j < ob {
			j = ob
		}
	}
	a, b := fp.Seq[int](base[:i]), fp.Seq[int](base[ob:j])
	o := ord.Seq(ord.Given[int]())
	pairLaws(o, a, b, "Seq (views of one array)")
	k := 0
	for k < len(a) && k < len(b) && a[k] == b[k] {
		k++
	}
	want := (k == len(a) && k < len(b)) || (k < len(a) && k < len(b) && a[k] < b[k])
	zz.Assert(o.Less(a, b) == want, "Seq (views of one array): lexicographic")
}

// ---- floats: a concrete catalogue (the engine does not reason about floats symbolically). ord.Given on floats
// is a total preorder on the catalogue: exactly one of Less(a,b), Less(b,a), Eqv(a,b), also with NaN operands
// (the library treats NaN as equivalent to everything), Compare/LessEq/Min/Max/Reversed consistent.
func VH_c10_float_catalogue() {
	nan := math.NaN()
	cat := []float64{nan, -1.5, 0, math.Copysign(0, -1), 2, math.Inf(1), math.Inf(-1)}
	a := cat[zz.Choice("a", len(cat))]
	b := cat[zz.Choice("b", len(cat))]
	o := ord.Given[float64]()
	lab, lba, e := o.Less(a, b), o.Less(b, a), o.Eqv(a, b)
	zz.Assert(b2i(lab)+b2i(lba)+b2i(e) == 1, "Given[float64]: exactly one of Less(a,b), Less(b,a), Eqv(a,b)")
	zz.Assert(o.Eqv(b, a) == e, "Given[float64]: Eqv symmetric")
	c := o.Compare(a, b)
	zz.Assert((c < 0) == lab && (c > 0) == lba && (c == 0) == e, "Given[float64]: Compare sign agrees with Less/Eqv")
	zz.Assert(o.LessEq(a, b) == (lab || e), "Given[float64]: LessEq = Less or Eqv")
	r := o.Reversed()
	zz.Assert(r.Less(a, b) == lba && r.Less(b, a) == lab && r.Eqv(a, b) == e, "Given[float64]: Reversed flips")
	if a == a && b == b {
		zz.Assert(lab == (a < b), "Given[float64]: Less is < on ordinary numbers")
	}
	o32 := ord.Given[float32]()
	x, y := float32(a), float32(b)
	zz.Assert(b2i(o32.Less(x, y))+b2i(o32.Less(y, x))+b2i(o32.Eqv(x, y)) == 1, "Given[float32]: exactly one of Less(a,b), Less(b,a), Eqv(a,b)")
}
