package hgen

import (
	"fmt"
	"go/ast"
	"go/parser"
	"go/token"
	"path/filepath"
	"regexp"
	"sort"
	"strconv"
	"strings"
)

// profile of a monad package whose combinators come from monad_gen / traverse_gen.
type profile struct {
	pkg  string // directory and package name
	targ string // explicit leading type argument ("" or "[int]")
	mfmt string // fmt of the monadic type, %s = payload type
}

func (p profile) M(t string) string { return fmt.Sprintf(p.mfmt, t) }

var monadProfiles = []profile{
	{"option", "", "fp.Option[%s]"},
	{"try", "", "fp.Try[%s]"},
	{"either", "[int]", "fp.Either[int, %s]"},
	{"statet", "[int]", "fp.StateT[int, %s]"},
}

// exportedFuncs parses the non-test files of a package directory and returns exported top-level functions
// with their parameter counts.
type funcInfo struct {
	Name    string
	NParams int
	NTypeP  int
	File    string
	FnArity []int // per parameter: number of parameters if it is a func literal type, else -1
}

func exportedFuncs(dir string) (map[string]funcInfo, error) {
	fset := token.NewFileSet()
	out := map[string]funcInfo{}
	files, _ := filepath.Glob(filepath.Join(dir, "*.go"))
	for _, f := range files {
		if strings.HasSuffix(f, "_test.go") {
			continue
		}
		af, err := parser.ParseFile(fset, f, nil, 0)
		if err != nil {
			return nil, err
		}
		for _, d := range af.Decls {
			fd, ok := d.(*ast.FuncDecl)
			if !ok || fd.Recv != nil || !fd.Name.IsExported() {
				continue
			}
			n := 0
			var fa []int
			for _, p := range fd.Type.Params.List {
				k := len(p.Names)
				if k == 0 {
					k = 1
				}
				n += k
				ar := -1
				if ft, ok := p.Type.(*ast.FuncType); ok {
					ar = 0
					for _, q := range ft.Params.List {
						if len(q.Names) == 0 {
							ar++
						} else {
							ar += len(q.Names)
						}
					}
				}
				for j := 0; j < k; j++ {
					fa = append(fa, ar)
				}
			}
			tp := 0
			if fd.Type.TypeParams != nil {
				for _, p := range fd.Type.TypeParams.List {
					tp += len(p.Names)
				}
			}
			out[fd.Name.Name] = funcInfo{Name: fd.Name.Name, NParams: n, NTypeP: tp, File: filepath.Base(f), FnArity: fa}
		}
	}
	return out, nil
}

func seqN(n int, f func(i int) string, sep string) string {
	parts := make([]string, n)
	for i := 1; i <= n; i++ {
		parts[i-1] = f(i)
	}
	return strings.Join(parts, sep)
}

func as(n int) string { return seqN(n, func(i int) string { return "a" + strconv.Itoa(i) }, ", ") }
func ms(n int) string { return seqN(n, func(i int) string { return "m" + strconv.Itoa(i) }, ", ") }

type gen struct {
	p   profile
	sb  strings.Builder
	n   int
	log bool // C02 mode: callbacks log their invocations; library run and definition run must log identically
}

func nameID(name string) int {
	h := 0
	for _, c := range name {
		h = h*31 + int(c)
	}
	return h%100000 + 1
}

func (g *gen) mdecl(n int) string {
	return seqN(n, func(i int) string { return fmt.Sprintf("\tm%d := vhMk(\"m%d\")\n", i, i) }, "")
}

// pure UF function of n int args
func (g *gen) fdecl(name string, n int) string {
	if g.log {
		return fmt.Sprintf("\t%s := func(%s int) int { vhLog(%d, %s); return zz.UFInt(%q, %s) }\n", name, as(n), nameID(name), as(n), name, as(n))
	}
	return fmt.Sprintf("\t%s := func(%s int) int { return zz.UFInt(%q, %s) }\n", name, as(n), name, as(n))
}

// UF Kleisli arrow of n int args
func (g *gen) kdecl(name string, n int) string {
	if g.log {
		return fmt.Sprintf("\t%s := func(%s int) %s { vhLog(%d, %s); return vhRet(%q, %s) }\n", name, as(n), g.p.M("int"), nameID(name), as(n), name, as(n))
	}
	return fmt.Sprintf("\t%s := func(%s int) %s { return vhRet(%q, %s) }\n", name, as(n), g.p.M("int"), name, as(n))
}

// nested FlatMap over m1..mN ending in tail (of monadic type with payload rt)
func (g *gen) nest(n int, rt, tail string) string {
	var sb strings.Builder
	for i := 1; i <= n; i++ {
		sb.WriteString(fmt.Sprintf("FlatMap(m%d, func(a%d int) %s { return ", i, i, g.p.M(rt)))
	}
	sb.WriteString(tail)
	for i := 1; i <= n; i++ {
		sb.WriteString(" })")
	}
	return sb.String()
}

func curT(n int) string {
	if n == 0 {
		return "int"
	}
	return "fp.Func1[int, " + curT(n-1) + "]"
}

// curried UF function value of n args
func curF(name string, n int) string {
	var sb strings.Builder
	for i := 1; i <= n; i++ {
		sb.WriteString(fmt.Sprintf("func(a%d int) %s { return ", i, curT(n-i)))
	}
	sb.WriteString(fmt.Sprintf("zz.UFInt(%q, %s)", name, as(n)))
	for i := 1; i <= n; i++ {
		sb.WriteString(" }")
	}
	return sb.String()
}

func (g *gen) harness(name, body string) {
	if g.log {
		if !strings.Contains(body, "\tgot := ") || !strings.Contains(body, "\twant := ") || !strings.Contains(body, "vhLog(") {
			return // nothing user-supplied is called: the value clause is C01's
		}
		body = strings.Replace(body, "\tgot := ", "\tvhCalls = nil\n\tgot := ", 1)
		body = strings.Replace(body, "\twant := ", "\tlog1 := vhCalls\n\tvhCalls = nil\n\twant := ", 1)
		body += "\tzz.Assert(vhLogEq(log1, vhCalls), \"" + name + ": user functions are invoked exactly as in the left-to-right definition (none after a failure, earlier ones once, same arguments)\")\n"
	}
	g.n++
	g.sb.WriteString(fmt.Sprintf("func VH_%s_%s() {\n%s}\n\n", g.p.pkg, name, body))
}

var arityRe = regexp.MustCompile(`^([A-Za-z]+?)(\d+)$`)

func (g *gen) emit(fi funcInfo, uncovered *[]string) {
	name := fi.Name
	base, N := name, 0
	if mm := arityRe.FindStringSubmatch(name); mm != nil {
		base = mm[1]
		N, _ = strconv.Atoi(mm[2])
	}
	M := g.p.M
	T := g.p.targ
	eq := func(got, want, label string) string {
		return fmt.Sprintf("\tzz.Assert(vhEq(%s, %s), %q)\n", got, want, label)
	}
	switch {
	case name == "Map" && fi.NParams == 2:
		g.harness(name, g.mdecl(1)+g.fdecl("f", 1)+
			"\tgot := Map(m1, f)\n\twant := "+g.nest(1, "int", "vhUnit(f(a1))")+"\n"+eq("got", "want", "Map(m,f) = FlatMap(m, unit.f)"))
	case base == "Map" && N >= 2 && fi.NParams == N+1:
		g.harness(name, g.mdecl(N)+g.fdecl("f", N)+
			fmt.Sprintf("\tgot := %s(%s, f)\n\twant := %s\n", name, ms(N), g.nest(N, "int", "vhUnit(f("+as(N)+"))"))+eq("got", "want", name+" = nested FlatMap"))
	case name == "Lift" && fi.NParams == 1:
		g.harness(name, g.mdecl(1)+g.fdecl("f", 1)+
			fmt.Sprintf("\tgot := Lift%s(f)(m1)\n\twant := %s\n", T, g.nest(1, "int", "vhUnit(f(a1))"))+eq("got", "want", "Lift"))
	case base == "LiftA" && N >= 2 && fi.NParams == 1:
		g.harness(name, g.mdecl(N)+g.fdecl("f", N)+
			fmt.Sprintf("\tgot := %s%s(f)(%s)\n\twant := %s\n", name, T, ms(N), g.nest(N, "int", "vhUnit(f("+as(N)+"))"))+eq("got", "want", name))
	case name == "LiftM" && fi.NParams == 1:
		g.harness(name, g.mdecl(1)+g.kdecl("k", 1)+
			fmt.Sprintf("\tgot := LiftM(k)(m1)\n\twant := %s\n", g.nest(1, "int", "k(a1)"))+eq("got", "want", "LiftM"))
	case base == "LiftM" && N >= 2 && fi.NParams == 1:
		g.harness(name, g.mdecl(N)+g.kdecl("k", N)+
			fmt.Sprintf("\tgot := %s(k)(%s)\n\twant := %s\n", name, ms(N), g.nest(N, "int", "k("+as(N)+")"))+eq("got", "want", name))
	case base == "FlatMap" && N >= 2 && fi.NParams == N+1:
		g.harness(name, g.mdecl(N)+g.kdecl("k", N)+
			fmt.Sprintf("\tgot := %s(%s, k)\n\twant := %s\n", name, ms(N), g.nest(N, "int", "k("+as(N)+")"))+eq("got", "want", name))
	case name == "Flatten" && fi.NParams == 1:
		g.harness(name, "\tin := vhMk(\"in\")\n\tmm := vhMkOf(\"mm\", in)\n"+
			fmt.Sprintf("\tgot := Flatten(mm)\n\twant := FlatMap(mm, func(x %s) %s { return x })\n", M("int"), M("int"))+eq("got", "want", "Flatten = FlatMap(id)"))
	case name == "Replace" && fi.NParams == 2:
		g.harness(name, g.mdecl(1)+"\tb := zz.Int(\"b\")\n"+
			fmt.Sprintf("\tgot := Replace(m1, b)\n\twant := %s\n", g.nest(1, "int", "vhUnit(b)"))+eq("got", "want", "Replace"))
	case name == "Zip" && fi.NParams == 2:
		g.harness(name, g.mdecl(2)+
			fmt.Sprintf("\tgot := Zip(m1, m2)\n\twant := %s\n", g.nest(2, "fp.Tuple2[int, int]", "vhUnit(fp.Tuple2[int, int]{I1: a1, I2: a2})"))+eq("got", "want", "Zip"))
	case name == "Zip3" && fi.NParams == 3:
		g.harness(name, g.mdecl(3)+
			fmt.Sprintf("\tgot := Zip3(m1, m2, m3)\n\twant := %s\n", g.nest(3, "fp.Tuple3[int, int, int]", "vhUnit(fp.Tuple3[int, int, int]{I1: a1, I2: a2, I3: a3})"))+eq("got", "want", "Zip3"))
	case name == "UnZip" && fi.NParams == 1:
		tt := "fp.Tuple2[int, int]"
		g.harness(name, fmt.Sprintf("\tt := vhMkOf(\"t\", %s{I1: zz.Int(\"x\"), I2: zz.Int(\"y\")})\n\tg1, g2 := UnZip(t)\n", tt)+
			fmt.Sprintf("\tw1 := FlatMap(t, func(p %s) %s { return vhUnit(p.I1) })\n\tw2 := FlatMap(t, func(p %s) %s { return vhUnit(p.I2) })\n", tt, M("int"), tt, M("int"))+
			eq("g1", "w1", "UnZip first")+eq("g2", "w2", "UnZip second"))
	case name == "Ap" && fi.NParams == 2:
		g.harness(name, g.mdecl(1)+g.fdecl("f", 1)+"\tmf := vhMkOf(\"mf\", fp.Func1[int, int](f))\n"+
			fmt.Sprintf("\tgot := Ap(mf, m1)\n\twant := FlatMap(mf, func(h fp.Func1[int, int]) %s { return FlatMap(m1, func(a1 int) %s { return vhUnit(h(a1)) }) })\n", M("int"), M("int"))+eq("got", "want", "Ap"))
	case name == "ApFunc" && fi.NParams == 2:
		g.harness(name, g.mdecl(1)+g.fdecl("f", 1)+"\tmf := vhMkOf(\"mf\", fp.Func1[int, int](f))\n"+
			fmt.Sprintf("\tsup := func() %s { vhLog(7); return m1 }\n\tgot := ApFunc(mf, sup)\n\twant := FlatMap(mf, func(h fp.Func1[int, int]) %s { return FlatMap(sup(), func(a1 int) %s { return vhUnit(h(a1)) }) })\n", M("int"), M("int"), M("int"))+eq("got", "want", "ApFunc"))
	case name == "Flap" && fi.NParams == 1:
		g.harness(name, g.fdecl("f", 1)+"\tmf := vhMkOf(\"mf\", fp.Func1[int, int](f))\n\tb1 := zz.Int(\"b1\")\n"+
			fmt.Sprintf("\tgot := Flap(mf)(b1)\n\twant := FlatMap(mf, func(h fp.Func1[int, int]) %s { return vhUnit(h(b1)) })\n", M("int"))+eq("got", "want", "Flap"))
	case base == "Flap" && N >= 2 && fi.NParams == 1:
		bs := seqN(N, func(i int) string { return fmt.Sprintf("\tb%d := zz.Int(\"b%d\")\n", i, i) }, "")
		app := seqN(N, func(i int) string { return fmt.Sprintf("(b%d)", i) }, "")
		g.harness(name, fmt.Sprintf("\tcf := %s(%s)\n\tmf := vhMkOf(\"mf\", cf)\n", curT(N), curF("f", N))+bs+
			fmt.Sprintf("\tgot := %s(mf)%s\n\twant := FlatMap(mf, func(h %s) %s { return vhUnit(h%s) })\n", name, app, curT(N), M("int"), app)+eq("got", "want", name))
	case name == "FlapMap" && fi.NParams == 2:
		g.harness(name, g.mdecl(1)+g.fdecl("f", 2)+"\tb := zz.Int(\"b\")\n"+
			fmt.Sprintf("\tgot := FlapMap(f, m1)(b)\n\twant := %s\n", g.nest(1, "int", "vhUnit(f(a1, b))"))+eq("got", "want", "FlapMap"))
	case name == "FlatFlapMap" && fi.NParams == 2:
		g.harness(name, g.mdecl(1)+g.kdecl("k", 2)+"\tb := zz.Int(\"b\")\n"+
			fmt.Sprintf("\tgot := FlatFlapMap(k, m1)(b)\n\twant := %s\n", g.nest(1, "int", "k(a1, b)"))+eq("got", "want", "FlatFlapMap"))
	case base == "Method" && N >= 1 && fi.NParams == 2 && fi.FnArity[1] >= 2:
		N = fi.FnArity[1] - 1
		bs := seqN(N, func(i int) string { return fmt.Sprintf("\tb%d := zz.Int(\"b%d\")\n", i, i) }, "")
		bl := seqN(N, func(i int) string { return fmt.Sprintf("b%d", i) }, ", ")
		g.harness(name, g.mdecl(1)+g.fdecl("f", N+1)+bs+
			fmt.Sprintf("\tgot := %s(m1, f)(%s)\n\twant := %s\n", name, bl, g.nest(1, "int", "vhUnit(f(a1, "+bl+"))"))+eq("got", "want", name))
	case base == "FlatMethod" && N >= 1 && fi.NParams == 2 && fi.FnArity[1] >= 2:
		N = fi.FnArity[1] - 1
		bs := seqN(N, func(i int) string { return fmt.Sprintf("\tb%d := zz.Int(\"b%d\")\n", i, i) }, "")
		bl := seqN(N, func(i int) string { return fmt.Sprintf("b%d", i) }, ", ")
		g.harness(name, g.mdecl(1)+g.kdecl("k", N+1)+bs+
			fmt.Sprintf("\tgot := %s(m1, k)(%s)\n\twant := %s\n", name, bl, g.nest(1, "int", "k(a1, "+bl+")"))+eq("got", "want", name))
	case (name == "Compose" || name == "Compose2") && fi.NParams == 2:
		g.harness(name, g.kdecl("k1", 1)+g.kdecl("k2", 1)+"\ta := zz.Int(\"a\")\n"+
			fmt.Sprintf("\tgot := %s(k1, k2)(a)\n\twant := FlatMap(k1(a), k2)\n", name)+eq("got", "want", name))
	case base == "Compose" && N >= 3 && fi.NParams == N:
		ks := seqN(N, func(i int) string { return g.kdecl("k"+strconv.Itoa(i), 1) }, "")
		kl := seqN(N, func(i int) string { return "k" + strconv.Itoa(i) }, ", ")
		want := "k1(a)"
		for i := 2; i <= N; i++ {
			want = fmt.Sprintf("FlatMap(%s, k%d)", want, i)
		}
		g.harness(name, ks+"\ta := zz.Int(\"a\")\n"+fmt.Sprintf("\tgot := %s(%s)(a)\n\twant := %s\n", name, kl, want)+eq("got", "want", name))
	case name == "ComposePure" && fi.NParams == 1:
		g.harness(name, g.fdecl("f", 1)+"\ta := zz.Int(\"a\")\n\tgot := ComposePure(f)(a)\n\twant := vhUnit(f(a))\n"+eq("got", "want", name))
	case name == "With" && fi.NParams == 2:
		g.harness(name, g.mdecl(1)+g.fdecl("w", 2)+"\ta := zz.Int(\"a\")\n"+
			fmt.Sprintf("\tgot := With(w, m1)(a)\n\twant := FlatMap(m1, func(b int) %s { return vhUnit(w(a, b)) })\n", M("int"))+eq("got", "want", "With"))
	case name == "MapSliceLift" && fi.NParams == 2:
		g.harness(name, g.fdecl("f", 1)+"\txs := zz.SliceInt(\"xs\", zz.Bound(\"seqlen\", 2, 3), 0, 0)\n\tta := vhMkOf(\"ta\", xs)\n"+
			fmt.Sprintf("\tgot := MapSliceLift(ta, f)\n\twant := FlatMap(ta, func(s []int) %s { out := []int{}; for _, x := range s { out = append(out, f(x)) }; return vhUnit(out) })\n", M("[]int"))+
			"\tzz.Assert(vhEqSlice(got, want), \"MapSliceLift\")\n")
	case name == "MapSeqLift" && fi.NParams == 2:
		g.harness(name, g.fdecl("f", 1)+"\txs := zz.SliceInt(\"xs\", zz.Bound(\"seqlen\", 2, 3), 0, 0)\n\tta := vhMkOf(\"ta\", fp.Seq[int](xs))\n"+
			fmt.Sprintf("\tgot := MapSeqLift(ta, f)\n\twant := FlatMap(ta, func(s fp.Seq[int]) %s { out := fp.Seq[int]{}; for _, x := range s { out = append(out, f(x)) }; return vhUnit(out) })\n", M("fp.Seq[int]"))+
			"\tzz.Assert(vhEqSeq(got, want), \"MapSeqLift\")\n")
	// ---- traverse family: reference = left fold with FlatMap, effects left to right
	case name == "TraverseSeq" || name == "TraverseSlice" || name == "Traverse" || name == "TraverseFunc" || name == "TraverseSeqFunc" || name == "TraverseSliceFunc":
		g.harness(name, g.kdecl("k", 1)+"\txs := zz.SliceInt(\"xs\", zz.Bound(\"seqlen\", 2, 3), 0, 0)\n"+g.traverseCall(name)+
			"\twant := vhTraverseRef(xs, k)\n"+g.traverseEq(name))
	case name == "Sequence" && fi.NParams == 1:
		g.harness(name, "\tn := zz.Choice(\"n\", zz.Bound(\"seqlen\", 2, 3)+1)\n\tvar ms []"+M("int")+"\n\tfor i := 0; i < n; i++ {\n\t\tms = append(ms, vhMk(\"m\"+string(rune('0'+i))))\n\t}\n"+
			"\tgot := Sequence(ms)\n\twant := vhSequenceRef(ms)\n\tzz.Assert(vhEqSlice(got, want), \"Sequence\")\n")
	case name == "SequenceIterator" && fi.NParams == 1:
		g.harness(name, "\tn := zz.Choice(\"n\", zz.Bound(\"seqlen\", 2, 3)+1)\n\tvar ms []"+M("int")+"\n\tfor i := 0; i < n; i++ {\n\t\tms = append(ms, vhMk(\"m\"+string(rune('0'+i))))\n\t}\n"+
			"\tgot := SequenceIterator(fp.IteratorOfSeq(ms))\n\twant := vhSequenceRef(ms)\n"+
			fmt.Sprintf("\tzz.Assert(vhEqSlice(FlatMap(got, func(it fp.Iterator[int]) %s { return vhUnit(vhDrain(it)) }), want), \"SequenceIterator\")\n", M("[]int")))
	case name == "FlatMapTraverseSeq" && fi.NParams == 2:
		g.harness(name, g.kdecl("k", 1)+"\txs := zz.SliceInt(\"xs\", zz.Bound(\"seqlen\", 2, 3), 0, 0)\n\tta := vhMkOf(\"ta\", fp.Seq[int](xs))\n"+
			fmt.Sprintf("\tgot := FlatMapTraverseSeq(ta, k)\n\twant := FlatMap(ta, func(s fp.Seq[int]) %s { return vhTraverseRef(s, k) })\n", M("[]int"))+
			fmt.Sprintf("\tzz.Assert(vhEqSlice(FlatMap(got, func(s fp.Seq[int]) %s { return vhUnit([]int(s)) }), want), \"FlatMapTraverseSeq\")\n", M("[]int")))
	case name == "FlatMapTraverseSlice" && fi.NParams == 2:
		g.harness(name, g.kdecl("k", 1)+"\txs := zz.SliceInt(\"xs\", zz.Bound(\"seqlen\", 2, 3), 0, 0)\n\tta := vhMkOf(\"ta\", xs)\n"+
			fmt.Sprintf("\tgot := FlatMapTraverseSlice(ta, k)\n\twant := FlatMap(ta, func(s []int) %s { return vhTraverseRef(s, k) })\n", M("[]int"))+
			"\tzz.Assert(vhEqSlice(got, want), \"FlatMapTraverseSlice\")\n")
	case name == "FoldM" && fi.NParams == 3:
		g.harness(name, g.kdecl("k", 2)+"\txs := zz.SliceInt(\"xs\", zz.Bound(\"seqlen\", 2, 3), 0, 0)\n\tz := zz.Int(\"z\")\n"+
			"\tgot := FoldM(fp.IteratorOfSeq(xs), z, k)\n\twant := vhUnit(z)\n\tfor _, x := range xs {\n\t\tx := x\n"+
			fmt.Sprintf("\t\twant = FlatMap(want, func(b int) %s { return k(b, x) })\n\t}\n", M("int"))+eq("got", "want", "FoldM"))
	default:
		*uncovered = append(*uncovered, g.p.pkg+"."+name)
	}
}

func (g *gen) traverseCall(name string) string {
	switch name {
	case "TraverseSeq":
		return "\tgot := TraverseSeq(fp.Seq[int](xs), k)\n"
	case "TraverseSlice":
		return "\tgot := TraverseSlice(xs, k)\n"
	case "Traverse":
		return "\tgot := Traverse(fp.IteratorOfSeq(xs), k)\n"
	case "TraverseFunc":
		return "\tgot := TraverseFunc(k)(fp.IteratorOfSeq(xs))\n"
	case "TraverseSeqFunc":
		return "\tgot := TraverseSeqFunc(k)(fp.Seq[int](xs))\n"
	case "TraverseSliceFunc":
		return "\tgot := TraverseSliceFunc(k)(xs)\n"
	}
	return ""
}

func (g *gen) traverseEq(name string) string {
	M := g.p.M
	switch name {
	case "TraverseSlice", "TraverseSliceFunc":
		return fmt.Sprintf("\tzz.Assert(vhEqSlice(got, want), %q)\n", name)
	case "TraverseSeq", "TraverseSeqFunc":
		return fmt.Sprintf("\tzz.Assert(vhEqSlice(FlatMap(got, func(s fp.Seq[int]) %s { return vhUnit([]int(s)) }), want), %q)\n", M("[]int"), name)
	}
	return fmt.Sprintf("\tzz.Assert(vhEqSlice(FlatMap(got, func(it fp.Iterator[int]) %s { return vhUnit(vhDrain(it)) }), want), %q)\n", M("[]int"), name)
}

func (g *gen) helpers() string {
	M := g.p.M
	return fmt.Sprintf(`// reference traverse: left fold, effects left to right, built only from FlatMap and the unit
func vhTraverseRef(xs []int, k func(int) %[1]s) %[2]s {
	acc := vhUnit([]int{})
	for _, x := range xs {
		x := x
		acc = FlatMap(acc, func(s []int) %[2]s {
			return FlatMap(k(x), func(r int) %[2]s {
				out := append(append([]int{}, s...), r)
				return vhUnit(out)
			})
		})
	}
	return acc
}

func vhSequenceRef(ms []%[1]s) %[2]s {
	acc := vhUnit([]int{})
	for _, m := range ms {
		m := m
		acc = FlatMap(acc, func(s []int) %[2]s {
			return FlatMap(m, func(r int) %[2]s {
				out := append(append([]int{}, s...), r)
				return vhUnit(out)
			})
		})
	}
	return acc
}

`, M("int"), M("[]int"))
}

var Uncovered = map[string][]string{}

// Covered: members handled by another generator of the same check (filtered out of Uncovered);
// Elsewhere: members of a family that are decided by another property's check (reported separately).
var Covered = map[string]map[string]bool{}
var Elsewhere = map[string][]string{}

func markCovered(id, name string) {
	if Covered[id] == nil {
		Covered[id] = map[string]bool{}
	}
	Covered[id][name] = true
}

// UncoveredFor returns the members of the checked families that no harness of this check instantiates.
func UncoveredFor(id string) []string {
	var out []string
	seen := map[string]bool{}
	for _, n := range Uncovered[id] {
		if Covered[id][n] || seen[n] {
			continue
		}
		seen[n] = true
		out = append(out, n)
	}
	sort.Strings(out)
	return out
}

// monadCovered lists the exported functions of a package for which the monad-family generator emits a harness.
func monadCovered(repo, pkg string) map[string]bool {
	out := map[string]bool{}
	for _, p := range monadProfiles {
		if p.pkg != pkg {
			continue
		}
		fns, err := exportedFuncs(filepath.Join(repo, p.pkg))
		if err != nil {
			return out
		}
		g := &gen{p: p}
		var unc []string
		for n := range fns {
			g.emit(fns[n], &unc)
		}
		bad := map[string]bool{}
		for _, u := range unc {
			bad[u] = true
		}
		for n := range fns {
			if !bad[pkg+"."+n] {
				out[n] = true
			}
		}
	}
	return out
}

func genMonadFamily(id string) genFn {
	return func(tier, repo string) ([]File, error) {
		var out []File
		for _, p := range monadProfiles {
			if id == "C02" && p.pkg == "statet" {
				continue // StateT programs are lazy: call order across failure is checked in C17 at run time
			}
			if id == "C17" && p.pkg != "statet" {
				continue // C17: every derived StateT combinator against its FlatMap chain, run twice from symbolic states
			}
			fns, err := exportedFuncs(filepath.Join(repo, p.pkg))
			if err != nil {
				return nil, err
			}
			names := make([]string, 0, len(fns))
			for n := range fns {
				names = append(names, n)
			}
			sort.Strings(names)
			g := &gen{p: p, log: id == "C02"}
			var unc []string
			for _, n := range names {
				g.emit(fns[n], &unc)
			}
			Uncovered[id] = append(Uncovered[id], unc...)
			src := fmt.Sprintf("// generated by hgen (monad family) from the exported functions of package %s\npackage %s\n\nimport (\n\t\"github.com/csgura/fp\"\n\tzz \"github.com/csgura/fp/internal/zzverif\"\n)\n\nvar _ fp.Unit\n\n", p.pkg, p.pkg) + g.helpers() + g.sb.String()
			out = append(out, File{Virtual: p.pkg + "/zz_verif_gen_" + strings.ToLower(id) + ".go", Data: []byte(src)})
		}
		return out, nil
	}
}

func init() {
	generators["C01"] = append(generators["C01"], genMonadFamily("C01"))
	generators["C02"] = append(generators["C02"], genMonadFamily("C02"))
	generators["C17"] = append(generators["C17"], genMonadFamily("C17"))
}
