//verif:overlay internal/zzverif_h/iters/c12b.go
package iters

import (
	"github.com/csgura/fp"
	zz "github.com/csgura/fp/internal/zzverif"
	"github.com/csgura/fp/list"
)

type lprod struct {
	name string
	mk   func(in []int) (fp.List[int], []int)
}

func lsrc(in []int) fp.List[int] { return list.FromSeq(append([]int{}, in...)) }

func ltup(l fp.List[fp.Tuple2[int, int]]) fp.List[int] {
	return list.FlatMap(l, func(t fp.Tuple2[int, int]) fp.List[int] { return list.Of(t.I1, t.I2) })
}

func lproducers() []lprod {
	return []lprod{
		{"FromSeq", func(in []int) (fp.List[int], []int) { return list.FromSeq(in), in }},
		{"FromSlice", func(in []int) (fp.List[int], []int) { return list.FromSlice(in), in }},
		{"Of", func(in []int) (fp.List[int], []int) { return list.Of(in...), in }},
		{"Empty", func(in []int) (fp.List[int], []int) { return list.Empty[int](), nil }},
		{"ReverseSeq", func(in []int) (fp.List[int], []int) {
			var e []int
			for i := len(in) - 1; i >= 0; i-- {
				e = append(e, in[i])
			}
			if zz.Bool("slice") {
				return list.ReverseSlice(in), e
			}
			return list.ReverseSeq(in), e
		}},
		{"FromOption_FromPtr", func(in []int) (fp.List[int], []int) {
			usePtr := zz.Bool("ptr")
			if len(in) > 0 {
				if usePtr {
					v := in[0]
					return list.FromPtr(&v), in[:1]
				}
				return list.FromOption(fp.Some(in[0])), in[:1]
			}
			if usePtr {
				return list.FromPtr[int](nil), nil
			}
			return list.FromOption(fp.None[int]()), nil
		}},
		{"Collect", func(in []int) (fp.List[int], []int) { return list.Collect(src(in)), in }},
		{"Apply_Concat", func(in []int) (fp.List[int], []int) {
			h := zz.Int("head")
			if zz.Bool("concat") {
				return list.Concat(h, lsrc(in)), append([]int{h}, in...)
			}
			return list.Apply(h, lsrc(in)), append([]int{h}, in...)
		}},
		{"Combine", func(in []int) (fp.List[int], []int) {
			k := zz.IntIn("split", 0, len(in))
			return list.Combine(lsrc(in[:k]), lsrc(in[k:])), in
		}},
		{"Map_Lift", func(in []int) (fp.List[int], []int) {
			f := ufF("f")
			var e []int
			for _, x := range in {
				e = append(e, f(x))
			}
			if zz.Bool("lift") {
				return list.Lift(f)(lsrc(in)), e
			}
			return list.Map(lsrc(in), f), e
		}},
		{"FlatMap", func(in []int) (fp.List[int], []int) {
			var e []int
			for _, x := range in {
				e = append(e, ufSlice("k", x)...)
			}
			return list.FlatMap(lsrc(in), func(x int) fp.List[int] { return list.FromSeq(ufSlice("k", x)) }), e
		}},
		{"Flatten", func(in []int) (fp.List[int], []int) {
			var e []int
			var ls []fp.List[int]
			for _, x := range in {
				e = append(e, ufSlice("k", x)...)
				ls = append(ls, list.FromSeq(ufSlice("k", x)))
			}
			return list.Flatten(list.FromSeq(ls)), e
		}},
		{"FilterMap", func(in []int) (fp.List[int], []int) {
			p, f := ufP("p"), ufF("f")
			var e []int
			for _, x := range in {
				if p(x) {
					e = append(e, f(x))
				}
			}
			return list.FilterMap(lsrc(in), func(x int) fp.Option[int] {
				if p(x) {
					return fp.Some(f(x))
				}
				return fp.None[int]()
			}), e
		}},
		{"Map2", func(in []int) (fp.List[int], []int) {
			k := zz.IntIn("split", 0, len(in))
			a, b := in[:k], in[k:]
			f := ufF2("f")
			var e []int
			for _, x := range a {
				for _, y := range b {
					e = append(e, f(x, y))
				}
			}
			return list.Map2(lsrc(a), lsrc(b), f), e
		}},
		{"Ap_Flap", func(in []int) (fp.List[int], []int) {
			k := zz.IntIn("split", 0, len(in))
			a, b := in[:k], in[k:]
			var fs []fp.Func1[int, int]
			for i := range a {
				i := i
				fs = append(fs, func(x int) int { return zz.UFInt("fl", a[i], x) })
			}
			if zz.Bool("flap") {
				v := zz.Int("v")
				var e []int
				for _, x := range a {
					e = append(e, zz.UFInt("fl", x, v))
				}
				return list.Flap(list.FromSeq(fs))(v), e
			}
			var e []int
			for _, x := range a {
				for _, y := range b {
					e = append(e, zz.UFInt("fl", x, y))
				}
			}
			return list.Ap(list.FromSeq(fs), lsrc(b)), e
		}},
		{"FlapMap_Method", func(in []int) (fp.List[int], []int) {
			f := ufF2("f")
			b := zz.Int("b")
			var e []int
			for _, x := range in {
				e = append(e, f(x, b))
			}
			switch zz.Choice("which", 3) {
			case 0:
				return list.FlapMap(f, lsrc(in))(b), e
			case 1:
				return list.Method1(lsrc(in), f)(b), e
			}
			c := zz.Int("c")
			var e2 []int
			for _, x := range in {
				e2 = append(e2, zz.UFInt("g", x, b, c))
			}
			return list.Method2(lsrc(in), func(x, y, z int) int { return zz.UFInt("g", x, y, z) })(b, c), e2
		}},
		{"Compose", func(in []int) (fp.List[int], []int) {
			a := zz.Int("a")
			k1 := func(x int) fp.List[int] { return list.FromSeq(ufSlice("k1", x)) }
			k2 := func(x int) fp.List[int] { return list.FromSeq(ufSlice("k2", x)) }
			var e []int
			for _, y := range ufSlice("k1", a) {
				e = append(e, ufSlice("k2", y)...)
			}
			if zz.Bool("pure") {
				f := ufF("f")
				return list.ComposePure(f)(a), []int{f(a)}
			}
			return list.Compose(k1, k2)(a), e
		}},
		{"Zip", func(in []int) (fp.List[int], []int) {
			k := zz.IntIn("split", 0, len(in))
			a, b := in[:k], in[k:]
			var e []int
			for i := 0; i < len(a) && i < len(b); i++ {
				e = append(e, a[i], b[i])
			}
			return ltup(list.Zip(lsrc(a), lsrc(b))), e
		}},
		{"ZipWithIndex", func(in []int) (fp.List[int], []int) {
			var e []int
			for i, x := range in {
				e = append(e, i, x)
			}
			return ltup(list.ZipWithIndex(lsrc(in))), e
		}},
		{"Zip3", func(in []int) (fp.List[int], []int) {
			// operands of independently chosen lengths: the shortest decides
			la, lb, lc := zz.IntIn("la", 0, len(in)), zz.IntIn("lb", 0, len(in)), zz.IntIn("lc", 0, len(in))
			a, b, c := in[:la], in[:lb], in[:lc]
			var e []int
			for i := 0; i < len(a) && i < len(b) && i < len(c); i++ {
				e = append(e, zz.UFInt("z3", a[i], b[i], c[i]))
			}
			z := list.Zip3(lsrc(a), lsrc(b), lsrc(c))
			return list.Map(z, func(t fp.Tuple3[int, int, int]) int { return zz.UFInt("z3", t.I1, t.I2, t.I3) }), e
		}},
		{"Scan", func(in []int) (fp.List[int], []int) {
			f := ufF2("f")
			z := zz.Int("z")
			e := []int{z}
			acc := z
			for _, x := range in {
				acc = f(acc, x)
				e = append(e, acc)
			}
			return list.Scan(lsrc(in), z, f), e
		}},
		{"Range", func(in []int) (fp.List[int], []int) {
			a, b := zz.Int("from"), zz.Int("to")
			zz.Assume(a > -1000 && a < 1000 && b-a <= 3 && b-a >= -2)
			var e []int
			if zz.Bool("closed") {
				for i := a; i <= b; i++ {
					e = append(e, i)
				}
				return list.RangeClosed(a, b), e
			}
			for i := a; i < b; i++ {
				e = append(e, i)
			}
			return list.Range(a, b), e
		}},
		{"Generate", func(in []int) (fp.List[int], []int) {
			g := func(i int) fp.Option[int] {
				if i < len(in) {
					return fp.Some(in[i])
				}
				return fp.None[int]()
			}
			return list.Generate(g), in
		}},
	}
}

func lfind(name string) lprod {
	for _, p := range lproducers() {
		if p.name == name {
			return p
		}
	}
	panic("unknown list producer " + name)
}

func walk(l fp.List[int], max int) []int {
	var got []int
	cur := l
	for i := 0; i <= max && cur.NonEmpty(); i++ {
		got = append(got, cur.Head())
		cur = cur.Tail()
	}
	return got
}

// walkTailsFirst reaches every cell through Tail() alone and only then reads the heads, last cell first: the
// order in which a consumer demands heads and tails must not matter
func walkTailsFirst(l fp.List[int], n int) []int {
	cells := []fp.List[int]{l}
	for i := 0; i < n; i++ {
		cells = append(cells, cells[i].Tail())
	}
	got := make([]int, n)
	for i := n - 1; i >= 0; i-- {
		got[i] = cells[i].Head()
	}
	return got
}

func ldrain(p lprod) {
	n := zz.Bound("inlen12", 3, 4)
	in := zz.SliceInt("in", n, 0, 0)
	l, exp := p.mk(in)
	if zz.Bool("tails.first") {
		zz.Assert(sliceEq(walkTailsFirst(l, len(exp)), exp), p.name+": tails demanded before heads still give the eager result in order")
		zz.Assert(sliceEq(walk(l, len(exp)+1), exp), p.name+": ordinary traversal after the tail-first one")
		return
	}
	zz.Assert(sliceEq(walk(l, len(exp)+1), exp), p.name+": Head/Tail traversal yields the eager result in order")
	zz.Assert(l.IsEmpty() == (len(exp) == 0) && l.NonEmpty() == (len(exp) > 0), p.name+": IsEmpty/NonEmpty")
	zz.Assert(sliceEq(walk(l, len(exp)+1), exp), p.name+": second traversal sees the same list")
	zz.Assert(sliceEq(l.ToSeq(), exp), p.name+": ToSeq")
	var fe []int
	l.Foreach(func(v int) { fe = append(fe, v) })
	zz.Assert(sliceEq(fe, exp), p.name+": Foreach")
	zz.Assert(list.Head(l).IsDefined() == (len(exp) > 0), p.name+": Head option")
}

func VH_c12_list_FromSeq()            { ldrain(lfind("FromSeq")) }
func VH_c12_list_FromSlice()          { ldrain(lfind("FromSlice")) }
func VH_c12_list_Of()                 { ldrain(lfind("Of")) }
func VH_c12_list_Empty()              { ldrain(lfind("Empty")) }
func VH_c12_list_ReverseSeq()         { ldrain(lfind("ReverseSeq")) }
func VH_c12_list_FromOption_FromPtr() { ldrain(lfind("FromOption_FromPtr")) }
func VH_c12_list_Collect()            { ldrain(lfind("Collect")) }
func VH_c12_list_Apply_Concat()       { ldrain(lfind("Apply_Concat")) }
func VH_c12_list_Combine()            { ldrain(lfind("Combine")) }
func VH_c12_list_Map_Lift()           { ldrain(lfind("Map_Lift")) }
func VH_c12_list_FlatMap()            { ldrain(lfind("FlatMap")) }
func VH_c12_list_Flatten()            { ldrain(lfind("Flatten")) }
func VH_c12_list_FilterMap()          { ldrain(lfind("FilterMap")) }
func VH_c12_list_Map2()               { ldrain(lfind("Map2")) }
func VH_c12_list_Ap_Flap()            { ldrain(lfind("Ap_Flap")) }
func VH_c12_list_FlapMap_Method()     { ldrain(lfind("FlapMap_Method")) }
func VH_c12_list_Compose()            { ldrain(lfind("Compose")) }
func VH_c12_list_Zip()                { ldrain(lfind("Zip")) }
func VH_c12_list_ZipWithIndex()       { ldrain(lfind("ZipWithIndex")) }
func VH_c12_list_Zip3()               { ldrain(lfind("Zip3")) }
func VH_c12_list_Scan()               { ldrain(lfind("Scan")) }
func VH_c12_list_Range()              { ldrain(lfind("Range")) }
func VH_c12_list_Generate()           { ldrain(lfind("Generate")) }

// recurrences are infinite: compare a prefix
func VH_c12_list_recurrence() {
	a1, a2 := zz.Int("a1"), zz.Int("a2")
	r1 := ufF("r1")
	got := walk(list.Recurrence1(a1, r1), 2)
	zz.Assert(sliceEq(got, []int{a1, r1(a1), r1(r1(a1))}), "Recurrence1 prefix")
	r2 := ufF2("r2")
	got2 := walk(list.Recurrence2(a1, a2, r2), 3)
	x3 := r2(a1, a2)
	zz.Assert(sliceEq(got2, []int{a1, a2, x3, r2(a2, x3)}), "Recurrence2 prefix")
}
