//verif:overlay option/zz_verif_c01_nil.go
package option

import (
	"github.com/csgura/fp"
	zz "github.com/csgura/fp/internal/zzverif"
)

// The unit of Option is Some: a nil pointer (slice, map, ...) is an ordinary value, Some(nil) is defined, and every
// combinator that lifts a pure function must keep it - Map(m, f) = FlatMap(m, unit.f) also when f returns nil.
// (Only option.Of / Ptr / NonZero... are documented to turn nil or zero into None.)

var vhCell = 7

func vhNilable(name string) func(int) *int {
	return func(x int) *int {
		if zz.UFBool(name, x) {
			return nil
		}
		return &vhCell
	}
}

func vhSomeOf(r fp.Option[*int], want *int) bool { return r.IsDefined() && r.Get() == want }

func VH_c01_option_nilable_results() {
	x, y, z := zz.Int("x"), zz.Int("y"), zz.Int("z")
	f := vhNilable("f")
	f2 := func(a, b int) *int { return f(zz.UFInt("g2", a, b)) }
	f3 := func(a, b, c int) *int { return f(zz.UFInt("g3", a, b, c)) }
	mx, my, mz := Some(x), Some(y), Some(z)
	zz.Assert(vhSomeOf(Pure(f(x)), f(x)) && vhSomeOf(Some(f(x)), f(x)), "Pure/Some keep a nil payload")
	zz.Assert(vhSomeOf(Map(mx, f), f(x)), "Map keeps a nil result")
	zz.Assert(vhSomeOf(FlatMap(mx, ComposePure(f)), f(x)), "FlatMap(m, ComposePure(f)) = Map(m, f)")
	zz.Assert(vhSomeOf(ComposePure(f)(x), f(x)), "ComposePure = Some after f")
	zz.Assert(vhSomeOf(Lift(f)(mx), f(x)), "Lift keeps a nil result")
	zz.Assert(vhSomeOf(Map2(mx, my, f2), f2(x, y)), "Map2 keeps a nil result")
	zz.Assert(vhSomeOf(LiftA2(f2)(mx, my), f2(x, y)), "LiftA2 keeps a nil result")
	zz.Assert(vhSomeOf(Map3(mx, my, mz, f3), f3(x, y, z)), "Map3 keeps a nil result")
	zz.Assert(vhSomeOf(LiftA3(f3)(mx, my, mz), f3(x, y, z)), "LiftA3 keeps a nil result")
	zz.Assert(vhSomeOf(Ap(Some(fp.Func1[int, *int](f)), mx), f(x)), "Ap keeps a nil result")
	zz.Assert(vhSomeOf(ApFunc(Some(fp.Func1[int, *int](f)), func() fp.Option[int] { return mx }), f(x)), "ApFunc keeps a nil result")
	zz.Assert(vhSomeOf(Flap(Some(fp.Func1[int, *int](f)))(x), f(x)), "Flap keeps a nil result")
	zz.Assert(vhSomeOf(FlapMap(f2, mx)(y), f2(x, y)), "FlapMap keeps a nil result")
	zz.Assert(vhSomeOf(Method1(mx, f2)(y), f2(x, y)), "Method1 keeps a nil result")
	zz.Assert(vhSomeOf(Replace(mx, f(y)), f(y)), "Replace keeps a nil replacement")
	zp := Zip(Some(f(x)), Some(f(y)))
	zz.Assert(zp.IsDefined() && zp.Get().I1 == f(x) && zp.Get().I2 == f(y), "Zip keeps nil components")
	zz.Assert(vhSomeOf(Compose(ComposePure(func(v int) int { return v }), ComposePure(f))(x), f(x)), "Compose of pure steps keeps a nil result")
	zz.Assert(vhSomeOf(Flatten(Some(Some(f(x)))), f(x)), "Flatten keeps a nil payload")
	// the documented exceptions
	zz.Assert(Of(f(x)).IsDefined() == (f(x) != nil), "Of turns nil into None")
}
