//verif:overlay internal/zzverif_h/c09/h.go
package c09

import (
	"github.com/csgura/fp"
	"github.com/csgura/fp/eq"
	"github.com/csgura/fp/hash"
	"github.com/csgura/fp/hlist"
	zz "github.com/csgura/fp/internal/zzverif"
	"github.com/csgura/fp/lazy"
	"time"
)

func eqLaws[T any](e fp.Eq[T], a, b, c T, l string) {
	zz.Assert(e.Eqv(a, a), l+": reflexive")
	zz.Assert(e.Eqv(a, b) == e.Eqv(b, a), l+": symmetric")
	if e.Eqv(a, b) && e.Eqv(b, c) {
		zz.Assert(e.Eqv(a, c), l+": transitive")
	}
}

func hashLaws[T any](h fp.Hashable[T], a, b T, l string) {
	zz.Assert(h.Hash(a) == h.Hash(a), l+": Hash deterministic")
	if h.Eqv(a, b) {
		zz.Assert(h.Hash(a) == h.Hash(b), l+": Eqv-equal values hash equally")
	}
}

func sliceEq(a, b []int) bool {
	if len(a) != len(b) {
		return false
	}
	for i := range a {
		if a[i] != b[i] {
			return false
		}
	}
	return true
}

// ---- scalars

func VH_c09_given_int_bool() {
	a, b, c := zz.Int("a"), zz.Int("b"), zz.Int("c")
	e := eq.Given[int]()
	eqLaws(e, a, b, c, "Given[int]")
	zz.Assert(e.Eqv(a, b) == (a == b), "Given[int] is ==")
	x, y, z := zz.Bool("x"), zz.Bool("y"), zz.Bool("z")
	eb := eq.Given[bool]()
	eqLaws(eb, x, y, z, "Given[bool]")
	zz.Assert(eb.Eqv(x, y) == (x == y), "Given[bool] is ==")
	p := eq.GivenValue(a)
	zz.Assert(p(b) == (a == b), "GivenValue")
}

func VH_c09_string() {
	n := zz.Bound("strlen", 2, 3)
	a, b := zz.Str("a", n), zz.Str("b", n)
	zz.Assert(eq.String.Eqv(a, b) == (a == b), "String is ==")
	zz.Assert(eq.Given[string]().Eqv(a, b) == (a == b), "Given[string] is ==")
	zz.Assert(hash.String.Eqv(a, b) == (a == b), "hash.String.Eqv is ==")
	hashLaws(hash.String, a, b, "hash.String")
}

func VH_c09_string_trans() {
	n := zz.Bound("strlen3", 1, 2)
	eqLaws(eq.String, zz.Str("a", n), zz.Str("b", n), zz.Str("c", n), "String")
}

func VH_c09_bytes() {
	n := zz.Bound("strlen", 2, 3)
	a, b := []byte(zz.Str("a", n)), []byte(zz.Str("b", n))
	want := len(a) == len(b)
	if want {
		for i := range a {
			if a[i] != b[i] {
				want = false
			}
		}
	}
	zz.Assert(eq.Bytes.Eqv(a, b) == want, "Bytes is byte-wise")
	zz.Assert(eq.Bytes.Eqv(a, a), "Bytes reflexive")
	zz.Assert(eq.Bytes.Eqv(a, b) == eq.Bytes.Eqv(b, a), "Bytes symmetric")
	hashLaws(hash.Bytes, a, b, "hash.Bytes")
}

func VH_c09_bytes_nil_empty() {
	var n []byte
	e := []byte{}
	zz.Assert(eq.Bytes.Eqv(n, e) && eq.Bytes.Eqv(e, n), "Bytes: nil equals empty")
	zz.Assert(hash.Bytes.Hash(n) == hash.Bytes.Hash(e), "hash.Bytes: nil and empty hash equally")
}

func VH_c09_number() {
	a, b := zz.Int("a"), zz.Int("b")
	h := hash.Number[int]()
	hashLaws(h, a, b, "hash.Number[int]")
	zz.Assert(h.Eqv(a, b) == (a == b), "hash.Number[int].Eqv is ==")
	u, v := zz.Uint32("u"), zz.Uint32("v")
	h32 := hash.Number[uint32]()
	hashLaws(h32, u, v, "hash.Number[uint32]")
	x, y := zz.Byte("x"), zz.Byte("y")
	hashLaws(hash.Number[uint8](), x, y, "hash.Number[uint8]")
	i8a, i8b := int8(zz.Byte("i")), int8(zz.Byte("j"))
	hashLaws(hash.Number[int8](), i8a, i8b, "hash.Number[int8]")
}

func VH_c09_time() {
	a, b, c := zz.Time("a"), zz.Time("b"), zz.Time("c")
	eqLaws(eq.Time, a, b, c, "Time")
	zz.Assert(eq.Time.Eqv(a, b) == (a.Unix() == b.Unix() && a.Nanosecond() == b.Nanosecond()), "Time: same instant")
	// the same instant in another representation (other Location) is the same time
	a2 := a.In(time.FixedZone("X", 3600))
	zz.Assert(eq.Time.Eqv(a, a2) && eq.Time.Eqv(a2, a), "Time: the same instant in another zone is equal")
	zz.Assert(eq.Time.Eqv(a2, b) == eq.Time.Eqv(a, b), "Time: equality does not depend on the zone")
}

// ---- Option / Ptr / ContraMap

func mkOpt(name string) fp.Option[int] {
	if zz.Bool(name + ".some") {
		return fp.Some(zz.Int(name + ".v"))
	}
	return fp.None[int]()
}

func optEq(a, b fp.Option[int]) bool {
	if a.IsDefined() != b.IsDefined() {
		return false
	}
	return a.IsEmpty() || a.Get() == b.Get()
}

func VH_c09_option() {
	a, b, c := mkOpt("a"), mkOpt("b"), mkOpt("c")
	e := eq.Option(eq.Given[int]())
	eqLaws(e, a, b, c, "Option")
	zz.Assert(e.Eqv(a, b) == optEq(a, b), "Option: component-wise")
	h := hash.Option(hash.Number[int]())
	zz.Assert(h.Eqv(a, b) == optEq(a, b), "hash.Option.Eqv component-wise")
	hashLaws(h, a, b, "hash.Option")
}

func mkPtr(name string, shared *int) *int {
	switch zz.Choice(name+".shape", 3) {
	case 0:
		return nil
	case 1:
		return shared
	}
	v := zz.Int(name + ".v")
	return &v
}

func ptrEq(a, b *int) bool {
	if a == nil || b == nil {
		return a == nil && b == nil
	}
	return *a == *b
}

func VH_c09_ptr() {
	sh := zz.Int("shared")
	a, b := mkPtr("a", &sh), mkPtr("b", &sh)
	e := eq.Ptr(lazy.Done(eq.Given[int]()))
	zz.Assert(e.Eqv(a, b) == ptrEq(a, b), "Ptr: nil==nil, else targets")
	zz.Assert(e.Eqv(a, a) && e.Eqv(a, b) == e.Eqv(b, a), "Ptr reflexive/symmetric")
	g := eq.PtrGiven[int]()
	zz.Assert(g.Eqv(a, b) == ptrEq(a, b), "PtrGiven")
	zz.Assert(eq.GivenPtr(a)(b) == ptrEq(a, b), "GivenPtr")
	h := hash.Ptr(lazy.Done(hash.Number[int]()))
	zz.Assert(h.Eqv(a, b) == ptrEq(a, b), "hash.Ptr.Eqv")
	hashLaws(h, a, b, "hash.Ptr (distinct pointers to equal targets included)")
}

func VH_c09_ptr_trans() {
	sh := zz.Int("shared")
	eqLaws(eq.PtrGiven[int](), mkPtr("a", &sh), mkPtr("b", &sh), mkPtr("c", &sh), "PtrGiven")
}

func VH_c09_contramap() {
	k := func(u int) int { return zz.UFInt("key", u) }
	a, b, c := zz.Int("a"), zz.Int("b"), zz.Int("c")
	e := eq.ContraMap(eq.Given[int](), k)
	eqLaws(e, a, b, c, "ContraMap")
	zz.Assert(e.Eqv(a, b) == (k(a) == k(b)), "ContraMap compares projections")
	h := hash.ContraMap(hash.Number[int](), k)
	zz.Assert(h.Eqv(a, b) == (k(a) == k(b)), "hash.ContraMap.Eqv")
	hashLaws(h, a, b, "hash.ContraMap")
	zz.Assert(eq.GivenFieldValue(k, a)(b) == (k(b) == a), "GivenFieldValue")
}

// ---- Seq / Slice

func VH_c09_seq_slice() {
	n := zz.Bound("seqlen", 3, 4)
	a, b := zz.SliceInt("a", n, 1, 0), zz.SliceInt("b", n, 0, 1)
	e := eq.Seq(eq.Given[int]())
	zz.Assert(e.Eqv(fp.Seq[int](a), fp.Seq[int](b)) == sliceEq(a, b), "Seq: same length and elements (nil == empty)")
	s := eq.Slice(eq.Given[int]())
	zz.Assert(s.Eqv(a, b) == sliceEq(a, b), "Slice: same length and elements")
	h := hash.Seq(hash.Number[int]())
	zz.Assert(h.Eqv(fp.Seq[int](a), fp.Seq[int](b)) == sliceEq(a, b), "hash.Seq.Eqv")
}

func VH_c09_seq_slice_hash() {
	n := zz.Bound("hashseqlen", 2, 3)
	a, b := zz.SliceInt("a", n, 0, 0), zz.SliceInt("b", n, 0, 0)
	h := hash.Seq(hash.Number[int]())
	if h.Eqv(fp.Seq[int](a), fp.Seq[int](b)) {
		zz.Assert(h.Hash(fp.Seq[int](a)) == h.Hash(fp.Seq[int](b)), "hash.Seq: Eqv-equal values hash equally")
		hs := hash.Slice(hash.Number[int]())
		zz.Assert(hs.Hash(a) == hs.Hash(b), "hash.Slice: Eqv-equal values hash equally")
	}
}

func VH_c09_seq_trans() {
	n := zz.Bound("seqlen3", 2, 2)
	a, b, c := zz.SliceInt("a", n, 0, 0), zz.SliceInt("b", n, 0, 0), zz.SliceInt("c", n, 0, 0)
	eqLaws(eq.Seq(eq.Given[int]()), fp.Seq[int](a), fp.Seq[int](b), fp.Seq[int](c), "Seq")
}

// ---- Go maps

func mkMap(name string, n int) map[int]int {
	if zz.Bool(name + ".nil") {
		return nil
	}
	m := map[int]int{}
	k := zz.Choice(name+".n", n+1)
	for i := 0; i < k; i++ {
		m[zz.Int(name+".k"+string(rune('0'+i)))] = zz.Int(name + ".v" + string(rune('0'+i)))
	}
	return m
}

func mapEq(a, b map[int]int) bool {
	if len(a) != len(b) {
		return false
	}
	for k, v := range a {
		w, ok := b[k]
		if !ok || w != v {
			return false
		}
	}
	for k, v := range b {
		w, ok := a[k]
		if !ok || w != v {
			return false
		}
	}
	return true
}

func VH_c09_gomap() {
	zz.Config("mapperm", 0)
	n := zz.Bound("maplen", 2, 2)
	a, b := mkMap("a", n), mkMap("b", n)
	if zz.Bool("same.map") {
		b = a
	}
	e := eq.GoMap[int](eq.Given[int]())
	zz.Assert(e.Eqv(a, b) == mapEq(a, b), "GoMap: same keys with equal values (nil == empty)")
	zz.Assert(e.Eqv(a, a), "GoMap reflexive")
	zz.Assert(e.Eqv(a, b) == e.Eqv(b, a), "GoMap symmetric")
}

func VH_c09_gomap_iteration_order() {
	a, b := mkMap("a", 2), mkMap("b", 2)
	e := eq.GoMap[int](eq.Given[int]())
	zz.Assert(e.Eqv(a, b) == mapEq(a, b), "GoMap: independent of iteration order")
}

// ---- HList

func VH_c09_hcons() {
	type H = hlist.Cons[int, hlist.Cons[int, hlist.Cons[int, hlist.Nil]]]
	mk := func(n string) (H, []int) {
		x, y, z := zz.Int(n+"1"), zz.Int(n+"2"), zz.Int(n+"3")
		return hlist.Concat(x, hlist.Concat(y, hlist.Concat(z, hlist.Empty()))), []int{x, y, z}
	}
	g := eq.Given[int]()
	e := eq.HCons(g, eq.HCons(g, eq.HCons(g, eq.HNil)))
	a, la := mk("a")
	b, lb := mk("b")
	c, _ := mk("c")
	zz.Assert(e.Eqv(a, b) == sliceEq(la, lb), "HCons: component-wise")
	eqLaws(e, a, b, c, "HCons")
	hn := hash.Number[int]()
	h := hash.HCons(hn, hash.HCons(hn, hash.HCons(hn, hash.HNil)))
	zz.Assert(h.Eqv(a, b) == sliceEq(la, lb), "hash.HCons.Eqv component-wise")
	hashLaws(h, a, b, "hash.HCons")
	zz.Assert(eq.HNil.Eqv(hlist.Empty(), hlist.Empty()) && hash.HNil.Hash(hlist.Empty()) == hash.HNil.Hash(hlist.Empty()), "HNil")
}

// ---- nesting (depth 2/3)

func mkOptSeq(name string, n int) fp.Option[fp.Seq[int]] {
	if zz.Bool(name + ".some") {
		return fp.Some(fp.Seq[int](zz.SliceInt(name, n, 0, 0)))
	}
	return fp.None[fp.Seq[int]]()
}

func VH_c09_nested_option_seq() {
	a, b := mkOptSeq("a", 2), mkOptSeq("b", 2)
	e := eq.Option(eq.Seq(eq.Given[int]()))
	want := a.IsDefined() == b.IsDefined() && (a.IsEmpty() || sliceEq(a.Get(), b.Get()))
	zz.Assert(e.Eqv(a, b) == want, "Option[Seq]: component-wise")
	h := hash.Option(hash.Seq(hash.Number[int]()))
	zz.Assert(h.Eqv(a, b) == want, "hash Option[Seq] Eqv")
	hashLaws(h, a, b, "hash Option[Seq]")
}

func VH_c09_nested_seq_option_ptr() {
	mk := func(name string) fp.Seq[fp.Option[*int]] {
		n := zz.Choice(name+".n", 3)
		var s fp.Seq[fp.Option[*int]]
		for i := 0; i < n; i++ {
			nm := name + string(rune('0'+i))
			if zz.Bool(nm + ".some") {
				if zz.Bool(nm + ".nil") {
					s = append(s, fp.Some[*int](nil))
				} else {
					v := zz.Int(nm + ".v")
					s = append(s, fp.Some(&v))
				}
			} else {
				s = append(s, fp.None[*int]())
			}
		}
		return s
	}
	a, b := mk("a"), mk("b")
	e := eq.Seq(eq.Option(eq.PtrGiven[int]()))
	want := len(a) == len(b)
	if want {
		for i := range a {
			x, y := a[i], b[i]
			if x.IsDefined() != y.IsDefined() || (x.IsDefined() && !ptrEq(x.Get(), y.Get())) {
				want = false
			}
		}
	}
	zz.Assert(e.Eqv(a, b) == want, "Seq[Option[*int]]: component-wise")
	h := hash.Seq(hash.Option(hash.Ptr(lazy.Done(hash.Number[int]()))))
	zz.Assert(h.Eqv(a, b) == want, "hash Seq[Option[*int]] Eqv")
	hashLaws(h, a, b, "hash Seq[Option[*int]]")
}
