package gosym

import (
	"fmt"
	"reflect"

	"verif/engine/sym"
)

func identicalSlice(a, b interface{}) bool {
	va, vb := reflect.ValueOf(a), reflect.ValueOf(b)
	if va.Len() != vb.Len() {
		return false
	}
	if va.Len() == 0 {
		return true
	}
	return va.Pointer() == vb.Pointer()
}

// sameValue: shallow (identity for references) equality of two values of the same type as a Bool term.
func (m *Machine) sameValue(a, b Value) *sym.Term {
	switch x := a.(type) {
	case nil:
		return m.S.Bool(b == nil)
	case *sym.Term:
		y, ok := b.(*sym.Term)
		if !ok || y.W != x.W {
			return m.S.False()
		}
		return m.S.Eq(x, y)
	case FloatV:
		y, ok := b.(FloatV)
		return m.S.Bool(ok && x == y)
	case StrV:
		y, ok := b.(StrV)
		if !ok {
			return m.S.False()
		}
		return m.strEq(x, y)
	case StructV:
		y, ok := b.(StructV)
		if !ok || len(x) != len(y) {
			return m.S.False()
		}
		if identicalSlice(x, y) {
			return m.S.True()
		}
		r := m.S.True()
		for i := range x {
			r = m.S.And(r, m.sameValue(x[i], y[i]))
			if r.IsFalse() {
				return r
			}
		}
		return r
	case ArrayV:
		y, ok := b.(ArrayV)
		if !ok || len(x) != len(y) {
			return m.S.False()
		}
		if identicalSlice(x, y) {
			return m.S.True()
		}
		r := m.S.True()
		for i := range x {
			r = m.S.And(r, m.sameValue(x[i], y[i]))
			if r.IsFalse() {
				return r
			}
		}
		return r
	case TupleV:
		y, ok := b.(TupleV)
		if !ok || len(x) != len(y) {
			return m.S.False()
		}
		r := m.S.True()
		for i := range x {
			r = m.S.And(r, m.sameValue(x[i], y[i]))
		}
		return r
	case PtrV:
		y, ok := b.(PtrV)
		return m.S.Bool(ok && ptrEq(x, y))
	case SliceV:
		y, ok := b.(SliceV)
		return m.S.Bool(ok && x.Arr == y.Arr && x.Off == y.Off && x.Len == y.Len && x.Cap == y.Cap)
	case MapV:
		y, ok := b.(MapV)
		return m.S.Bool(ok && x.M == y.M)
	case ChanV:
		y, ok := b.(ChanV)
		return m.S.Bool(ok && x.C == y.C)
	case IfaceV:
		y, ok := b.(IfaceV)
		if !ok {
			return m.S.False()
		}
		if x.T == nil || y.T == nil {
			return m.S.Bool(x.T == nil && y.T == nil)
		}
		if !typesIdentical(x.T, y.T) {
			return m.S.False()
		}
		return m.sameValue(x.V, y.V)
	case FuncV:
		y, ok := b.(FuncV)
		if !ok || x.Fn != y.Fn || x.B != y.B || x.Native != y.Native || len(x.Env) != len(y.Env) {
			return m.S.False()
		}
		r := m.S.True()
		for i := range x.Env {
			r = m.S.And(r, m.sameValue(x.Env[i], y.Env[i]))
		}
		return r
	}
	m.unsupported(fmt.Sprintf("sameValue on %T", a))
	return nil
}

type reachSet struct {
	objs    map[*Object]bool
	maps    map[*MapObj]bool
	ordObjs []*Object
	ordMaps []*MapObj
	// how an array object was reached: through slices (their capacity windows) and/or through a pointer
	wins   map[*Object][][2]int
	viaPtr map[*Object]bool
}

func (m *Machine) reach(rs *reachSet, v Value) {
	switch x := v.(type) {
	case StructV:
		for _, f := range x {
			m.reach(rs, f)
		}
	case ArrayV:
		for _, f := range x {
			m.reach(rs, f)
		}
	case TupleV:
		for _, f := range x {
			m.reach(rs, f)
		}
	case PtrV:
		if x.Obj != nil {
			if rs.viaPtr == nil {
				rs.viaPtr = map[*Object]bool{}
			}
			rs.viaPtr[x.Obj] = true
		}
		if x.Obj != nil && !rs.objs[x.Obj] {
			rs.objs[x.Obj] = true
			rs.ordObjs = append(rs.ordObjs, x.Obj)
			m.reach(rs, x.Obj.Val)
		}
	case SliceV:
		if x.Arr != nil {
			if rs.wins == nil {
				rs.wins = map[*Object][][2]int{}
			}
			rs.wins[x.Arr] = append(rs.wins[x.Arr], [2]int{x.Off, x.Off + x.Cap})
		}
		if x.Arr != nil && !rs.objs[x.Arr] {
			rs.objs[x.Arr] = true
			rs.ordObjs = append(rs.ordObjs, x.Arr)
			m.reach(rs, x.Arr.Val)
		}
	case MapV:
		if x.M != nil && !rs.maps[x.M] {
			rs.maps[x.M] = true
			rs.ordMaps = append(rs.ordMaps, x.M)
			for _, e := range x.M.Entries {
				m.reach(rs, e.K)
				m.reach(rs, e.V)
			}
		}
	case IfaceV:
		if x.T != nil {
			m.reach(rs, x.V)
		}
	case FuncV:
		for _, e := range x.Env {
			m.reach(rs, e)
		}
	case ChanV:
		if x.C != nil {
			for _, e := range x.C.Buf {
				m.reach(rs, e)
			}
		}
	}
}

func newReach() *reachSet {
	return &reachSet{objs: map[*Object]bool{}, maps: map[*MapObj]bool{}}
}

func (m *Machine) freeze(label string, vals []Value) {
	rs := newReach()
	for _, v := range vals {
		m.reach(rs, v)
	}
	fs := frozenSnap{label: label}
	for _, o := range rs.ordObjs {
		fs.objs = append(fs.objs, o)
		fs.vals = append(fs.vals, o.Val)
	}
	for _, mo := range rs.ordMaps {
		fs.maps = append(fs.maps, mo)
		fs.ments = append(fs.ments, mo.Entries)
	}
	m.frozen = append(m.frozen, fs)
}

func (m *Machine) checkFrozen(label string) {
	for _, fs := range m.frozen {
		if label != "" && fs.label != label {
			continue
		}
		for i, o := range fs.objs {
			c := m.sameValue(fs.vals[i], o.Val)
			m.AssertProp(c, "frozen["+fs.label+"] "+o.What+" unchanged")
		}
		for i, mo := range fs.maps {
			same := len(fs.ments[i]) == len(mo.Entries)
			c := m.S.Bool(same)
			if same {
				for j := range mo.Entries {
					c = m.S.And(c, m.S.And(m.sameValue(fs.ments[i][j].K, mo.Entries[j].K), m.sameValue(fs.ments[i][j].V, mo.Entries[j].V)))
				}
			}
			m.AssertProp(c, "frozen["+fs.label+"] go map unchanged")
		}
	}
}

// disjoint: no mutable storage (object with at least one cell, or Go map) reachable from both.
func (m *Machine) disjoint(a, b Value) bool {
	ra, rb := newReach(), newReach()
	m.reach(ra, a)
	m.reach(rb, b)
	for o := range ra.objs {
		if rb.objs[o] {
			if arr, ok := o.Val.(ArrayV); ok && len(arr) == 0 {
				continue
			}
			// a backing array reached only through slices on both sides is shared only where the slices'
			// capacity windows overlap (a zero-capacity slice reaches no storage at all)
			if !ra.viaPtr[o] && !rb.viaPtr[o] && len(ra.wins[o]) > 0 && len(rb.wins[o]) > 0 {
				overlap := false
				for _, x := range ra.wins[o] {
					for _, y := range rb.wins[o] {
						if x[0] < y[1] && y[0] < x[1] {
							overlap = true
						}
					}
				}
				if !overlap {
					continue
				}
			}
			return false
		}
	}
	for mo := range ra.maps {
		if rb.maps[mo] {
			return false
		}
	}
	return true
}

// deepEq: content equality following references; nil and empty slices/maps are equal.
func (m *Machine) deepEq(a, b Value, d int) *sym.Term {
	if d > 40 {
		m.end("bound", "deepEq recursion depth")
	}
	switch x := a.(type) {
	case PtrV:
		y, ok := b.(PtrV)
		if !ok {
			return m.S.False()
		}
		if x.Obj == nil || y.Obj == nil {
			return m.S.Bool(x.Obj == nil && y.Obj == nil)
		}
		return m.deepEq(getPath(x.Obj.Val, x.Path), getPath(y.Obj.Val, y.Path), d+1)
	case SliceV:
		y, ok := b.(SliceV)
		if !ok || x.Len != y.Len {
			return m.S.False()
		}
		ea, eb := m.sliceElems(x), m.sliceElems(y)
		r := m.S.True()
		for i := range ea {
			r = m.S.And(r, m.deepEq(ea[i], eb[i], d+1))
		}
		return r
	case MapV:
		y, ok := b.(MapV)
		if !ok {
			return m.S.False()
		}
		var ea, eb []MapEntry
		if x.M != nil {
			ea = x.M.Entries
		}
		if y.M != nil {
			eb = y.M.Entries
		}
		if len(ea) != len(eb) {
			return m.S.False()
		}
		r := m.S.True()
		used := make([]bool, len(eb))
		for _, e := range ea {
			found := false
			for j, f := range eb {
				// keys are matched structurally (a cloned pointer key is a different pointer; a NaN key matches a
				// NaN key); entries of b are matched at most once, and a key-equal entry whose value certainly
				// differs is passed over while another candidate may follow (several NaN keys)
				if used[j] {
					continue
				}
				if m.Branch(m.deepEq(e.K, f.K, d+1)) {
					v := m.deepEq(e.V, f.V, d+1)
					if v.IsConst() && v.C == 0 {
						continue
					}
					r = m.S.And(r, v)
					used[j] = true
					found = true
					break
				}
			}
			if !found {
				return m.S.False()
			}
		}
		return r
	case FloatV:
		y, ok := b.(FloatV)
		return m.S.Bool(ok && (x == y || (x != x && y != y)))
	case IfaceV:
		y, ok := b.(IfaceV)
		if !ok {
			return m.S.False()
		}
		if x.T == nil || y.T == nil {
			return m.S.Bool(x.T == nil && y.T == nil)
		}
		if !typesIdentical(x.T, y.T) {
			return m.S.False()
		}
		return m.deepEq(x.V, y.V, d+1)
	case StructV:
		y, ok := b.(StructV)
		if !ok || len(x) != len(y) {
			return m.S.False()
		}
		r := m.S.True()
		for i := range x {
			r = m.S.And(r, m.deepEq(x[i], y[i], d+1))
		}
		return r
	case ArrayV:
		y, ok := b.(ArrayV)
		if !ok || len(x) != len(y) {
			return m.S.False()
		}
		r := m.S.True()
		for i := range x {
			r = m.S.And(r, m.deepEq(x[i], y[i], d+1))
		}
		return r
	case FuncV:
		y, ok := b.(FuncV)
		return m.S.Bool(ok && x.Fn == y.Fn && x.B == y.B)
	}
	return m.sameValue(a, b)
}

func typesIdentical(a, b interface{ String() string }) bool {
	ta, ok1 := a.(typesType)
	tb, ok2 := b.(typesType)
	if ok1 && ok2 {
		return typesIdent(ta, tb)
	}
	return a.String() == b.String()
}
