package main

import "fmt"

func selftest() int {
	fmt.Println("selftest: (not yet implemented)")
	return 0
}
