//verif:overlay option/zz_verif_c01_laws.go
package option

import (
	"github.com/csgura/fp"
	zz "github.com/csgura/fp/internal/zzverif"
)

func vhOpt(name string) fp.Option[int] {
	if zz.Bool(name + ".some") {
		return Some(zz.Int(name + ".v"))
	}
	return None[int]()
}

func vhF(name string) func(int) fp.Option[int] {
	return func(x int) fp.Option[int] {
		if zz.UFBool(name+".some", x) {
			return Some(zz.UFInt(name+".v", x))
		}
		return None[int]()
	}
}

func vhEq(a, b fp.Option[int]) bool {
	if a.IsDefined() != b.IsDefined() {
		return false
	}
	if a.IsDefined() {
		return a.Get() == b.Get()
	}
	return true
}

func VH_option_left_identity() {
	a := zz.Int("a")
	f := vhF("f")
	zz.Assert(vhEq(FlatMap(Some(a), f), f(a)), "left identity")
}

func VH_option_right_identity() {
	m := vhOpt("m")
	zz.Assert(vhEq(FlatMap(m, Some[int]), m), "right identity")
}

func VH_option_assoc() {
	m := vhOpt("m")
	f, g := vhF("f"), vhF("g")
	l := FlatMap(FlatMap(m, f), g)
	r := FlatMap(m, func(x int) fp.Option[int] { return FlatMap(f(x), g) })
	zz.Assert(vhEq(l, r), "associativity")
}

func VH_option_map_coherence() {
	m := vhOpt("m")
	f := func(x int) int { return zz.UFInt("f", x) }
	l := Map(m, f)
	r := FlatMap(m, func(x int) fp.Option[int] { return Some(f(x)) })
	zz.Assert(vhEq(l, r), "Map = FlatMap . unit")
}

func VH_option_selftest_bad() {
	m := vhOpt("m")
	zz.Assert(m.IsDefined(), "must fail: m may be None")
}
