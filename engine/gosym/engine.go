package gosym

import (
	"fmt"
	"go/types"
	"os"
	"sort"
	"strings"
	"sync"
	"time"

	"golang.org/x/tools/go/packages"
	"golang.org/x/tools/go/ssa"
	"golang.org/x/tools/go/ssa/ssautil"

	"verif/engine/sym"
)

const ModulePath = "github.com/csgura/fp"

type Engine struct {
	Prog        *ssa.Program
	Pkgs        []*packages.Package
	Sizes       types.Sizes
	Tier        string
	RepoDir     string
	SolverBin   []string
	TimeoutMs   int
	MaxPaths    int
	MaxCex      int
	Workers     int
	runtimeErrT types.Type
	LoadTime    time.Duration
	Defaults    Limits
	Verbose     bool
}

type Harness struct {
	Name    string
	Fn      *ssa.Function
	PkgPath string
	PkgName string
	Overlay string // virtual path under RepoDir
	Real    string // real file with the harness source
}

type HarnessResult struct {
	H          *Harness
	Paths      int
	Steps      int
	Ends       map[string]int
	Asserts    int
	Trivial    int
	Discharged int
	Inconcl    int
	Cexs       []*Cex
	Reached    map[string]bool
	Bounds     map[string]int
	Funcs      map[string]bool
	Stubs      map[string]bool
	Notes      map[string]bool
	Unsupp     map[string]int
	BoundMsgs  map[string]int
	Truncated  bool
	Queries    int
	SolverTime time.Duration
	Wall       time.Duration
	SampleVec  []int
	SampleDesc string
	Switches   int
}

var stdInitWhitelist = map[string]bool{
	"math/bits": true, "io": true, "sort": true, "unicode/utf8": true, "strconv": true,
	"math": true, "slices": true, "cmp": true, "iter": true, "maps": true, "strings": true, "bytes": true,
	"hash/fnv": true, "hash": true, "time": false,
}

func (e *Engine) shouldInit(p *ssa.Package) bool {
	path := p.Pkg.Path()
	if strings.HasPrefix(path, ModulePath+"/internal/zzverif") && !strings.Contains(path, "zzverif_h") {
		return false
	}
	if path == ModulePath || strings.HasPrefix(path, ModulePath+"/") {
		return true
	}
	return stdInitWhitelist[path]
}

// Load type-checks and builds SSA for the given package patterns with the overlay applied.
func Load(repo string, overlay map[string][]byte, patterns []string) (*Engine, error) {
	t0 := time.Now()
	env := append(os.Environ(), "GOFLAGS=-mod=mod", "GOPROXY=off", "GOSUMDB=off", "GOTOOLCHAIN=local")
	cfg := &packages.Config{
		Mode:    packages.LoadAllSyntax,
		Dir:     repo,
		Overlay: overlay,
		Env:     env,
	}
	pkgs, err := packages.Load(cfg, patterns...)
	if err != nil {
		return nil, err
	}
	var errs []string
	packages.Visit(pkgs, nil, func(p *packages.Package) {
		for _, e := range p.Errors {
			errs = append(errs, e.Error())
		}
	})
	if len(errs) > 0 {
		if len(errs) > 30 {
			errs = errs[:30]
		}
		return nil, fmt.Errorf("package errors:\n%s", strings.Join(errs, "\n"))
	}
	prog, _ := ssautil.AllPackages(pkgs, ssa.InstantiateGenerics)
	prog.Build()
	e := &Engine{Prog: prog, Pkgs: pkgs, RepoDir: repo, Sizes: types.SizesFor("gc", "amd64"),
		SolverBin: []string{"z3", "-in"}, TimeoutMs: 20000, MaxPaths: 50000, MaxCex: 2, Workers: 8,
		Defaults: Limits{MaxDepth: 400, LoopBound: 64, MaxSteps: 2000000, MapPermMax: 3, Preempt: -1}}
	if rp := prog.ImportedPackage("runtime"); rp != nil {
		if t := rp.Type("errorString"); t != nil {
			e.runtimeErrT = t.Type()
		}
	}
	e.LoadTime = time.Since(t0)
	return e, nil
}

// Harnesses lists VH_* functions of the loaded root packages.
func (e *Engine) Harnesses() []*Harness {
	var hs []*Harness
	for _, p := range e.Pkgs {
		sp := e.Prog.Package(p.Types)
		if sp == nil {
			continue
		}
		var names []string
		for n, mem := range sp.Members {
			if f, ok := mem.(*ssa.Function); ok && strings.HasPrefix(n, "VH_") && f.Signature.Params().Len() == 0 {
				names = append(names, n)
			}
		}
		sort.Strings(names)
		for _, n := range names {
			f := sp.Func(n)
			pos := e.Prog.Fset.Position(f.Pos())
			hs = append(hs, &Harness{Name: n, Fn: f, PkgPath: p.PkgPath, PkgName: p.Name, Overlay: pos.Filename})
		}
	}
	return hs
}

func (e *Engine) newMachine(h *Harness, z *sym.Solver, item WorkItem) *Machine {
	return &Machine{E: e, S: sym.NewStore(), Z: z, H: h, Vec: append([]int(nil), item.Vec...), verify: item.Verify,
		Lim: e.Defaults, hints: item.Hints, globals: map[*ssa.Global]*Object{}, inited: map[*ssa.Package]bool{},
		nameCount: map[string]int{}, Reached: map[string]bool{}, Bounds: map[string]int{},
		StubsHit: map[string]bool{}, FuncsSeen: map[*ssa.Function]bool{}}
}

// runPath executes one path; returns how it ended.
func (e *Engine) runPath(h *Harness, z *sym.Solver, item WorkItem) (m *Machine, end PathEnd) {
	m = e.newMachine(h, z, item)
	z.BeginPath()
	defer z.EndPath()
	defer m.killTasks()
	defer func() {
		r := recover()
		if r == nil {
			return
		}
		switch x := r.(type) {
		case PathEnd:
			end = x
		case targetPanic:
			end = PathEnd{"panic", "uncaught panic: " + Describe(x.v)}
		case engineBug:
			end = PathEnd{"enginebug", x.msg}
			if e.Verbose {
				fmt.Printf("ENGINE BUG in %s: %s\n%s", h.Name, x.msg, x.trace)
			}
		default:
			end = PathEnd{"enginebug", fmt.Sprint(r)}
			if e.Verbose {
				fmt.Printf("ENGINE BUG in %s: %v\n", h.Name, r)
			}
		}
		if end.Kind == "panic" || end.Kind == "bound" || end.Kind == "deadlock" {
			if m.Cex == nil {
				if z.Check(m.S, nil, nil) != sym.Unsat {
					m.Cex = m.buildCex(end.Kind, end.Kind, end.Msg)
				} else {
					end = PathEnd{"infeasible", "path condition unsat at " + end.Kind}
				}
			}
		}
	}()
	m.callSSA(nil, h.Fn, nil, nil)
	if m.sched != nil {
		// the harness returned while other tasks may still be runnable: like process exit
	}
	return m, PathEnd{"done", ""}
}

func (e *Engine) RunHarness(h *Harness, z *sym.Solver) *HarnessResult {
	t0 := time.Now()
	res := &HarnessResult{H: h, Ends: map[string]int{}, Reached: map[string]bool{}, Bounds: map[string]int{},
		Funcs: map[string]bool{}, Stubs: map[string]bool{}, Notes: map[string]bool{}, Unsupp: map[string]int{}, BoundMsgs: map[string]int{}}
	q0, st0 := z.Queries, z.Time
	work := []WorkItem{{nil, false, nil}}
	for len(work) > 0 {
		item := work[len(work)-1]
		work = work[:len(work)-1]
		if res.Paths >= e.MaxPaths {
			res.Truncated = true
			break
		}
		m, end := e.runPath(h, z, item)
		work = append(work, m.NewWork...)
		if end.Kind == "infeasible" {
			res.Ends["infeasible"]++
			continue
		}
		res.Paths++
		res.Steps += m.Steps
		res.Ends[end.Kind]++
		res.Asserts += m.Asserts
		res.Trivial += m.Trivial
		res.Discharged += m.Discharged
		res.Inconcl += m.Inconcl
		for k := range m.Reached {
			res.Reached[k] = true
		}
		for k, v := range m.Bounds {
			res.Bounds[k] = v
		}
		for f := range m.FuncsSeen {
			res.Funcs[f.String()] = true
		}
		for k := range m.StubsHit {
			if !strings.HasPrefix(k, ZZ) {
				res.Stubs[k] = true
			}
		}
		for _, n := range m.Notes {
			res.Notes[n] = true
		}
		if m.sched != nil {
			res.Switches += m.sched.switches
		}
		switch end.Kind {
		case "unsupported", "enginebug":
			res.Unsupp[end.Kind+": "+end.Msg]++
		case "bound":
			res.BoundMsgs[end.Msg]++
		}
		if m.Cex != nil {
			res.Cexs = append(res.Cexs, m.Cex)
			if len(res.Cexs) >= e.MaxCex {
				break
			}
		}
		if end.Kind == "done" && (res.SampleVec == nil || len(m.Vec) > len(res.SampleVec)) && len(res.SampleDesc) < 2000 {
			res.SampleVec = append([]int(nil), m.Vec...)
			var sb strings.Builder
			for i, c := range m.PC {
				if i > 5 {
					sb.WriteString(" ∧ …")
					break
				}
				if i > 0 {
					sb.WriteString(" ∧ ")
				}
				s := c.String()
				if len(s) > 160 {
					s = s[:160] + "…"
				}
				sb.WriteString(s)
			}
			res.SampleDesc = sb.String()
		}
	}
	res.Queries = z.Queries - q0
	res.SolverTime = z.Time - st0
	res.Wall = time.Since(t0)
	return res
}

// RunAll explores all harnesses on a worker pool.
func (e *Engine) RunAll(hs []*Harness, progress func(*HarnessResult)) []*HarnessResult {
	out := make([]*HarnessResult, len(hs))
	var wg sync.WaitGroup
	ch := make(chan int)
	var mu sync.Mutex
	for w := 0; w < e.Workers; w++ {
		wg.Add(1)
		go func() {
			defer wg.Done()
			z := sym.NewSolver(e.SolverBin, e.TimeoutMs)
			defer z.Close()
			for i := range ch {
				r := e.RunHarness(hs[i], z)
				mu.Lock()
				out[i] = r
				if progress != nil {
					progress(r)
				}
				mu.Unlock()
			}
		}()
	}
	for i := range hs {
		ch <- i
	}
	close(ch)
	wg.Wait()
	return out
}
