//verif:overlay internal/zzverif_h/c16/h.go
package c16

import (
	"github.com/csgura/fp"
	"github.com/csgura/fp/fn1"
	zz "github.com/csgura/fp/internal/zzverif"
	"github.com/csgura/fp/lazy"
	"github.com/csgura/fp/list"
)

var nodeID int

func fresh(p string) string {
	nodeID++
	return p + string(rune('a'+nodeID%26)) + string(rune('0'+nodeID/26))
}

// build constructs an arbitrary Eval program of bounded size (its shape is a nondeterministic choice) together
// with the value a direct strict evaluation of the same program yields
func build(size int) (lazy.Eval[int], int) {
	if size <= 1 {
		x := zz.Int(fresh("x"))
		switch zz.Choice(fresh("leaf"), 4) {
		case 0:
			return lazy.Done(x), x
		case 1:
			return lazy.Call(func() int { return x }), x
		case 2:
			return lazy.TailCall(func() lazy.Eval[int] { return lazy.Done(x) }), x
		}
		g := fresh("g")
		return lazy.TailCall1(func(a int) lazy.Eval[int] { return lazy.Done(zz.UFInt(g, a)) }, x), zz.UFInt(g, x)
	}
	switch zz.Choice(fresh("node"), 7) {
	case 0:
		sub, v := build(size - 1)
		f := fresh("f")
		return sub.Map(func(a int) int { return zz.UFInt(f, a) }), zz.UFInt(f, v)
	case 1:
		sub, v := build(size - 1)
		f := fresh("f")
		return lazy.Map(sub, func(a int) int { return zz.UFInt(f, a) }), zz.UFInt(f, v)
	case 2:
		// FlatMap whose continuation is itself a small program depending on the value
		sub, v := build(size - 1)
		k := fresh("k")
		return sub.FlatMap(func(a int) lazy.Eval[int] {
			return lazy.Call(func() int { return zz.UFInt(k, a) })
		}), zz.UFInt(k, v)
	case 3:
		sub, v := build(size - 1)
		k := fresh("k")
		return lazy.FlatMap(sub, func(a int) lazy.Eval[int] {
			return lazy.TailCall(func() lazy.Eval[int] { return lazy.Done(zz.UFInt(k, a)) }).Map(func(b int) int { return zz.UFInt(k+"m", b) })
		}), zz.UFInt(k+"m", zz.UFInt(k, v))
	case 4:
		l, lv := build((size - 1) / 2)
		r, rv := build(size - 1 - (size-1)/2)
		f := fresh("f2")
		return lazy.Map2(l, r, func(a, b int) int { return zz.UFInt(f, a, b) }), zz.UFInt(f, lv, rv)
	case 5:
		sub, v := build(size - 1)
		return lazy.TailCall(func() lazy.Eval[int] { return sub }), v
	}
	sub, v := build(size - 1)
	g := fresh("t2")
	return lazy.TailCall2(func(a, b int) lazy.Eval[int] {
		return sub.Map(func(c int) int { return zz.UFInt(g, a, b, c) })
	}, 1, 2), zz.UFInt(g, 1, 2, v)
}

func VH_c16_faithful() {
	nodeID = 0
	e, want := build(zz.Bound("evalsize", 4, 5))
	zz.Assert(e.Get() == want, "Eval program evaluates to the strict value")
	zz.Assert(e.Get() == want, "second Get gives the same value")
	zz.Assert(lazy.Run(e) == want, "Run = Get")
}

// ---- strictly tail-recursive programs run in constant stack

func countdown(n, acc int) lazy.Eval[int] {
	if n == 0 {
		return lazy.Done(acc)
	}
	return lazy.TailCall2(countdown, n-1, acc+n)
}

func isEven(n int) lazy.Eval[int] {
	if n == 0 {
		return lazy.Done(1)
	}
	return lazy.TailCall1(isOdd, n-1)
}

func isOdd(n int) lazy.Eval[int] {
	if n == 0 {
		return lazy.Done(0)
	}
	return lazy.TailCall(func() lazy.Eval[int] { return isEven(n - 1) })
}

func fiboEval(n, a, b int) lazy.Eval[int] {
	if n == 0 {
		return lazy.Done(a)
	}
	return lazy.TailCall3(fiboEval, n-1, b, a+b)
}

func depthOf(e lazy.Eval[int]) (int, int) {
	zz.StackMark()
	v := e.Get()
	return zz.PeakDepth(), v
}

func VH_c16_stack_independent_of_depth() {
	zz.Config("steps", 200000000)
	zz.Config("loop", 1000000)
	max := zz.Bound("taildepth", 64, 1024)
	a0 := zz.Int("acc")
	// baseline: the deeper of the two smallest recursions (the last frame differs with the parity of n)
	base := func(mk func(n int) lazy.Eval[int]) int {
		a, _ := depthOf(mk(2))
		b, _ := depthOf(mk(3))
		if b > a {
			return b
		}
		return a
	}
	d0 := base(func(n int) lazy.Eval[int] { return countdown(n, a0) })
	e0 := base(isEven)
	f0 := base(func(n int) lazy.Eval[int] { return fiboEval(n, 0, 1) })
	for _, n := range []int{4, 5, 7, 16, max/2 + 1, max} {
		d, v := depthOf(countdown(n, a0))
		zz.Assert(d <= d0, "stack: countdown with TailCall2 runs in stack space independent of the depth")
		zz.Assert(v == a0+n*(n+1)/2, "countdown value")
		e, ev := depthOf(isEven(n))
		zz.Assert(e <= e0, "stack: mutual recursion through TailCall/TailCall1 runs in constant stack")
		zz.Assert(ev == 1-n%2, "isEven value")
		f, _ := depthOf(fiboEval(n, 0, 1))
		zz.Assert(f <= f0, "stack: fiboEval with TailCall3 runs in constant stack")
	}
	if zz.Replaying() {
		// native confirmation of a stack violation: the Go stack itself must not grow with the depth
		countdown(3000000, 0).Get()
	}
}

// ---- deferred computations run at most once

func VH_c16_run_once_sequential() {
	n := 0
	x := zz.Int("x")
	c := lazy.Call(func() int { n++; return x })
	zz.Assert(c.Get() == x && c.Get() == x && n == 1, "lazy.Call runs its thunk once")
	n = 0
	t := lazy.TailCall(func() lazy.Eval[int] { n++; return lazy.Done(x) })
	zz.Assert(t.Get() == x && t.Get() == x && n == 1, "lazy.TailCall runs its thunk once")
	n = 0
	t1 := lazy.TailCall1(func(a int) lazy.Eval[int] { n++; return lazy.Done(a) }, x)
	m := t1.Map(func(v int) int { return v })
	zz.Assert(m.Get() == x && m.Get() == x && t1.Get() == x && n == 1, "lazy.TailCall1 runs its thunk once, also through Map")
	n = 0
	mz := lazy.Memoize(func() int { n++; return x })
	zz.Assert(mz() == x && mz() == x && n == 1, "lazy.Memoize")
	n = 0
	fm := fp.Memoize(func() int { n++; return x })
	zz.Assert(fm.Apply() == x && fm.Apply() == x && n == 1, "fp.Memoize")
	n = 0
	f1 := fn1.Memoize(func(a int) int { n++; return a })
	zz.Assert(f1(x) == x && f1(x) == x && n == 1, "fn1.Memoize")
	n = 0
	l := list.Generate(func(i int) fp.Option[int] {
		n++
		if i < 2 {
			return fp.Some(x)
		}
		return fp.None[int]()
	})
	l.ToSeq()
	l.ToSeq()
	l.Head()
	zz.Assert(n == 3, "memoised list cells are evaluated once each")
}

func VH_c16_run_once_concurrent() {
	n := 0
	x := zz.Int("x")
	var e lazy.Eval[int]
	switch zz.Choice("kind", 3) {
	case 0:
		e = lazy.Call(func() int { n++; zz.Yield(); return x })
	case 1:
		e = lazy.TailCall(func() lazy.Eval[int] { n++; zz.Yield(); return lazy.Done(x) })
	case 2:
		mz := lazy.Memoize(func() int { n++; zz.Yield(); return x })
		e = lazy.Call(mz)
	}
	tasks := zz.Bound("getters", 2, 3)
	zz.Config("preempt", zz.Bound("preempt", -1, 3)) // 2 getters: all schedules; 3 getters: context-bounded
	res := make([]int, tasks)
	got := make([]bool, tasks)
	for i := 0; i < tasks; i++ {
		i := i
		zz.Spawn(func() { res[i] = e.Get(); got[i] = true })
	}
	zz.Quiesce()
	zz.Assert(n == 1, "a shared deferred computation runs exactly once under concurrent Get")
	for i := 0; i < tasks; i++ {
		zz.Assert(got[i] && res[i] == x, "every concurrent Get returns the computed value")
	}
}

func VH_c16_fp_memoize_concurrent() {
	n := 0
	x := zz.Int("x")
	fm := fp.Memoize(func() int { n++; zz.Yield(); return x })
	r := [2]int{}
	zz.Spawn(func() { r[0] = fm.Apply() })
	zz.Spawn(func() { r[1] = fm.Apply() })
	zz.Quiesce()
	zz.Assert(n == 1 && r[0] == x && r[1] == x, "fp.Memoize runs once under concurrent use")
}

// A deferred computation whose first execution does not return normally (it panics and the requester recovers)
// has still been executed: asking again must not run it a second time (sync.Once semantics).
func VH_c16_run_once_after_panic() {
	n := 0
	try := func(f func()) {
		defer func() { recover() }()
		f()
	}
	x := zz.Int("x")
	boom := zz.Bool("first.run.panics")
	thunk := func() int {
		n++
		if boom {
			panic("boom")
		}
		return x
	}
	switch zz.Choice("kind", 4) {
	case 0:
		fm := fp.Memoize(thunk)
		try(func() { fm.Apply() })
		try(func() { fm.Apply() })
		zz.Assert(n == 1, "fp.Memoize: the thunk is executed at most once, also when its first execution panicked")
	case 1:
		mz := lazy.Memoize(thunk)
		try(func() { mz() })
		try(func() { mz() })
		zz.Assert(n == 1, "lazy.Memoize: the thunk is executed at most once, also when its first execution panicked")
	case 2:
		c := lazy.Call(thunk)
		try(func() { c.Get() })
		try(func() { c.Get() })
		zz.Assert(n == 1, "lazy.Call: the thunk is executed at most once, also when its first execution panicked")
	case 3:
		l := fp.MakeList(func() fp.Option[int] { return fp.Some(thunk()) }, func() fp.List[int] { return list.Empty[int]() })
		try(func() { l.Head() })
		try(func() { l.Head() })
		zz.Assert(n == 1, "memoised list cell: the head is evaluated at most once, also when its first evaluation panicked")
	}
}
