//verif:overlay mutable/zz_verif_c19_snap.go
//verif:whitebox
package mutable

import (
	"github.com/csgura/fp"
	zz "github.com/csgura/fp/internal/zzverif"
)

// Readers of a CopyOnWriteMap work on the Go map they loaded, without any lock. That is only safe if a map, once
// published through the atomic value, is never written again: every writer must build a new map. Here a reader's
// view (the loaded map) is frozen, one write operation with symbolic arguments runs, and the view must be
// untouched - otherwise there is a schedule in which the reader iterates or indexes the map while it is being
// written (a Go runtime "concurrent map read and map write" fault or a torn snapshot).
func VH_c19_published_snapshot_is_never_written() {
	zz.Config("mapperm", 0)
	m := &CopyOnWriteMap[int, int]{}
	if zz.Bool("prefill0") {
		m.Updated(0, zz.Int("v0"))
	}
	if zz.Bool("prefill1") {
		m.Updated(1, zz.Int("v1"))
	}
	view := m.load()
	sizeBefore := view.Size()
	zz.Freeze("view", view)
	k := zz.Choice("key", 3) // 0, 1: possibly present, 2: never present
	arg := zz.Int("arg")
	switch zz.Choice("op", 7) {
	case 0:
		m.Updated(k, arg)
	case 1:
		m.Removed(k)
	case 2:
		m.Removed(0, 1)
	case 3:
		none := zz.Bool("remap.none")
		m.UpdatedWith(k, func(old fp.Option[int]) fp.Option[int] {
			if none {
				return fp.None[int]()
			}
			return fp.Some(arg)
		})
	case 4:
		m.ComputeIfAbsent(k, func() int { return arg })
	case 5:
		hit := zz.Bool("pred")
		m.ComputeIf(k, func(int) bool { return hit }, func() int { return arg })
	case 6:
		m.UpdatedWith(k, func(old fp.Option[int]) fp.Option[int] { return old })
	}
	zz.CheckFrozen("view")
	zz.Assert(view.Size() == sizeBefore, "a reader's view keeps its size while writers run")
}
