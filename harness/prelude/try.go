//verif:overlay try/zz_verif_prelude.go
package try

import (
	"errors"

	"github.com/csgura/fp"
	zz "github.com/csgura/fp/internal/zzverif"
)

var vhErrTab = map[string]error{}

// one distinct error object per operand name
func vhErr(name string) error {
	if e, ok := vhErrTab[name]; ok {
		return e
	}
	e := errors.New("err:" + name)
	vhErrTab[name] = e
	return e
}

func vhMk(name string) fp.Try[int] {
	if zz.Bool(name + ".ok") {
		return fp.Success(zz.Int(name + ".v"))
	}
	return fp.Failure[int](vhErr(name))
}

func vhMkOf[T any](name string, v T) fp.Try[T] {
	if zz.Bool(name + ".ok") {
		return fp.Success(v)
	}
	return fp.Failure[T](vhErr(name))
}

func vhUnit[T any](v T) fp.Try[T] { return Success(v) }

func vhRet(name string, args ...int) fp.Try[int] {
	if zz.UFBool(name+".ok", args...) {
		return fp.Success(zz.UFInt(name+".v", args...))
	}
	return fp.Failure[int](vhErr(name))
}

func vhEq[T comparable](a, b fp.Try[T]) bool {
	if a.IsSuccess() != b.IsSuccess() {
		return false
	}
	if a.IsSuccess() {
		return a.Get() == b.Get()
	}
	return a.Failed().Get() == b.Failed().Get()
}

func vhEqSlice(a, b fp.Try[[]int]) bool {
	if a.IsSuccess() != b.IsSuccess() {
		return false
	}
	if a.IsSuccess() {
		x, y := a.Get(), b.Get()
		if len(x) != len(y) {
			return false
		}
		for i := range x {
			if x[i] != y[i] {
				return false
			}
		}
		return true
	}
	return a.Failed().Get() == b.Failed().Get()
}

func vhSeqToSlice(a fp.Try[fp.Seq[int]]) fp.Try[[]int] {
	if a.IsSuccess() {
		return fp.Success([]int(a.Get()))
	}
	return fp.Failure[[]int](a.Failed().Get())
}

func vhEqSeq(a, b fp.Try[fp.Seq[int]]) bool {
	return vhEqSlice(vhSeqToSlice(a), vhSeqToSlice(b))
}

func vhDrain(it fp.Iterator[int]) []int {
	var out []int
	for it.HasNext() {
		out = append(out, it.Next())
	}
	return out
}

func vhEqIter(a, b fp.Try[fp.Iterator[int]]) bool {
	if a.IsSuccess() != b.IsSuccess() {
		return false
	}
	if a.IsSuccess() {
		return vhEqSlice(fp.Success(vhDrain(a.Get())), fp.Success(vhDrain(b.Get())))
	}
	return a.Failed().Get() == b.Failed().Get()
}

// call log for C02: every user-supplied function appends its id and arguments
var vhCalls []int

func vhLog(id int, args ...int) {
	vhCalls = append(vhCalls, id)
	vhCalls = append(vhCalls, args...)
	vhCalls = append(vhCalls, -7777)
}

func vhLogEq(a, b []int) bool {
	if len(a) != len(b) {
		return false
	}
	for i := range a {
		if a[i] != b[i] {
			return false
		}
	}
	return true
}
